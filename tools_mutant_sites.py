"""Development helper: list self-test variants whose edit sites no longer match the current tree."""
import importlib, sys
sys.path.insert(0, "/verif")
from pvs.core import Tree
t = Tree("/repo")
for n in range(1, 21):
    pid = f"c{n:02d}"
    m = importlib.import_module(f"pvs.props.{pid}")
    for mu in m.MUTANTS:
        edits = mu.get("edits") or [(mu["file"], mu["old"], mu["new"], mu.get("count", 1))]
        for e in edits:
            f, old = e[0], e[1]
            cnt = e[3] if len(e) > 3 else 1
            k = t.source(f).count(old)
            if k != cnt:
                print(pid, mu["id"], f, "found", k, "expected", cnt)
