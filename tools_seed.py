"""Development helper: apply a seeded change to /repo, run the registered quick checks, undo.
usage: tools_seed.py <patch.diff> [PID ...]   (default: all checks in MANIFEST)"""
import json, subprocess, sys, os
patch = sys.argv[1]
pids = sys.argv[2:] or [c["property_id"] for c in json.load(open("/verif/MANIFEST.json"))["checks"]]
assert subprocess.run(["git", "-C", "/repo", "status", "--porcelain", "--untracked-files=no"], capture_output=True, text=True).stdout.strip() == "", "repo dirty"
subprocess.run(["git", "-C", "/repo", "apply", patch], check=True)
try:
    hits = []
    for pid in pids:
        r = subprocess.run(["/venv/bin/python", "-m", "pvs", "check", pid], cwd="/verif", capture_output=True, text=True)
        lines = [l for l in r.stdout.splitlines() if l.strip().startswith("rule=") or l.startswith("ANALYSIS-ERROR")]
        if r.returncode != 0:
            hits.append(pid)
            print(f"  {pid}: exit {r.returncode}")
            for l in lines[:4]:
                print("     ", l[:260])
    print("DETECTED by:", hits if hits else "NONE")
finally:
    subprocess.run(["git", "-C", "/repo", "checkout", "--", "."], check=True)
