import copy, json, numpy as np, warnings
warnings.filterwarnings("ignore")

import pandora
from pandora import check_configuration as cc
from pandora.state_machine import PandoraMachine
from pandora.img_tools import create_dataset_from_inputs
from tests import common

user_cfg = {"input": copy.deepcopy(common.input_cfg_basic), "pipeline": copy.deepcopy(common.multiscale_pipeline_cfg)}
m = PandoraMachine()
cfg = cc.check_conf(user_cfg, m)
print("keys", list(cfg), list(cfg["pipeline"]))

if 0:
    print("read_multiscale_params(cfg['pipeline']) ->", cc.read_multiscale_params(cfg["pipeline"]))
if 0:
    print("pipeline-level call raises", type(e).__name__, e)
left = create_dataset_from_inputs(cfg["input"]["left"])
cfg["input"]["right"]["disp"] = [0, 60]
right = create_dataset_from_inputs(cfg["input"]["right"])
calls = []
orig = PandoraMachine.matching_cost_run
def spy(self, *a):
    calls.append(self.left_img.sizes["col"])
    return orig(self, *a)
PandoraMachine.matching_cost_run = spy
l, r = pandora.run(m, left, right, cfg)
print("matching_cost executions (col sizes):", calls, "num_scales on machine:", m.num_scales)
