import copy, json, numpy as np, warnings, xarray as xr
warnings.filterwarnings("ignore")
import pandora
import pandora.constants as cst
from pandora import refinement, validation
from pandora.img_tools import fill_nodata_image

# D3 quadratic flat
q = refinement.AbstractRefinement(**{"refinement_method": "quadratic"})
try:
    print("quadratic flat:", q.refinement_method(np.array([5.,5.,5.]), 1.0, "min"))
except Exception as e:
    print("D3 quadratic flat raises", type(e).__name__, e)
v = refinement.AbstractRefinement(**{"refinement_method": "vfit"})
print("vfit flat:", v.refinement_method(np.array([5.,5.,5.]), 1.0, "min"))

# D4 repeated refinement doubles bit 3
cv = xr.Dataset({"cost_volume": (["row","col","disp"], np.array([[[1.,2.,3.],[3.,2.,1.],[2.,1.,2.]]],dtype=np.float32))},
    coords={"row":[0],"col":[0,1,2],"disp":[-1,0,1]})
cv.attrs={"subpixel":1,"type_measure":"min"}
disp = xr.Dataset({"disparity_map": (["row","col"], np.array([[-1.,1.,0.]],dtype=np.float32)),
                   "validity_mask": (["row","col"], np.zeros((1,3),dtype=np.uint16))}, coords={"row":[0],"col":[0,1,2]})
v.subpixel_refinement(cv, disp); print("mask after 1 refinement", disp["validity_mask"].data)
v.subpixel_refinement(cv, disp); print("D4 mask after 2 refinements", disp["validity_mask"].data, "(16 = FILLED_OCCLUSION)")

# D2 cross-check outside
left = xr.Dataset({"disparity_map": (["row","col"], np.array([[3.,0.,0.,0.]],dtype=np.float32)),
                   "validity_mask": (["row","col"], np.zeros((1,4),dtype=np.uint16))}, coords={"row":[0],"col":[0,1,2,3]})
left["disparity_interval"] = xr.DataArray([-3,3], coords=[("disparity",["min","max"])])
left.attrs={"offset_row_col":0}
right = xr.Dataset({"disparity_map": (["row","col"], np.array([[0.,0.,0.,-3.]],dtype=np.float32)),
                   "validity_mask": (["row","col"], np.zeros((1,4),dtype=np.uint16))}, coords={"row":[0],"col":[0,1,2,3]})
left2 = left.copy(deep=True); left2["disparity_map"].data[0,1] = 3.  # correspondent col 4 -> outside
val = validation.AbstractValidation(**{"validation_method":"cross_checking_accurate"})
out = val.disparity_checking(left2, right)
print("D2 mask (pixel 1 has q outside image):", out["validity_mask"].data)

# D6 mismatch with no valid neighbour
interp = validation.AbstractInterpolation(**{"interpolated_disparity":"mc-cnn"})
d = np.full((3,3), 2., dtype=np.float32); m = np.full((3,3), cst.PANDORA_MSK_PIXEL_MISMATCH, dtype=np.uint16)
od, om = interp.interpolate_mismatch_mc_cnn(d, m)
print("D6 mc-cnn all-mismatch:", od[1,1], om[1,1])
interp2 = validation.AbstractInterpolation(**{"interpolated_disparity":"sgm"})
m2 = np.full((3,3), cst.PANDORA_MSK_PIXEL_OCCLUSION, dtype=np.uint16)
od, om = interp2.interpolate_occlusion_sgm(d, m2)
print("D6 sgm all-occlusion:", od[1,1], om[1,1])

# D8 fill_nodata_image multiband mutates
im = np.arange(2*4*4, dtype=np.float32).reshape(2,4,4); msk = np.zeros((4,4),dtype=np.int16); msk[1,1]=1
ds = xr.Dataset({"im": (["band_im","row","col"], im.copy()), "msk": (["row","col"], msk.copy())}, coords={"band_im":["r","g"],"row":range(4),"col":range(4)})
ds.attrs={"valid_pixels":0,"no_data_mask":1}
before_im = ds["im"].data.copy(); before_m = ds["msk"].data.copy()
fill_nodata_image(ds)
print("D8 input im changed:", not np.array_equal(before_im, ds["im"].data), "msk changed:", not np.array_equal(before_m, ds["msk"].data))
