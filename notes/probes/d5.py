import json, warnings, copy
warnings.filterwarnings("ignore")
import pandora
from tests import common
cfg = {"input": copy.deepcopy(common.input_cfg_basic), "pipeline": {
 "matching_cost": {"matching_cost_method": "census", "window_size": 5, "subpix": 1},
 "disparity": {"disparity_method": "wta", "invalid_disparity": "NaN"}}}
cfg["input"]["left"]["disp"] = [-8, 0]
json.dump(cfg, open("/tmp/pandora_probe_c.json","w"))
pandora.main("/tmp/pandora_probe_c.json", "/tmp/pandora_probe_out1", False)
saved = json.load(open("/tmp/pandora_probe_out1/cfg/config.json"))
print(json.dumps(saved["input"]), saved["pipeline"]["disparity"], list(saved))
try:
    pandora.main("/tmp/pandora_probe_out1/cfg/config.json", "/tmp/pandora_probe_out2", False)
    print("replay accepted")
except BaseException as e:
    print("D5 replay refused:", type(e).__name__, str(e)[:300])
