"""Probe F11 (C01, C15): steps named with a suffix and looked up by their exact family name -- triage only.
pandora.run without a prior check_conf: (a) a validation step named `validation.cross` must still produce the right
products; (b) a multiscale step named `multiscale.ms` must still make the run process num_scales scales.
run: cd <tree> && PYTHONPATH=<tree> /venv/bin/python /verif/notes/probes/d16.py"""
import copy
import numpy as np
import pandora
from pandora.img_tools import create_dataset_from_inputs
from pandora.state_machine import PandoraMachine

inp = {"left": {"img": "tests/pandora/left.png", "nodata": np.nan, "disp": [-20, 0]}, "right": {"img": "tests/pandora/right.png", "nodata": np.nan, "disp": [0, 20]}}
left = create_dataset_from_inputs(inp["left"])
right = create_dataset_from_inputs(inp["right"])
bad = 0
base = {"matching_cost": {"matching_cost_method": "census", "window_size": 5, "subpix": 1}, "disparity": {"disparity_method": "wta", "invalid_disparity": -9999}}
for key in ("validation", "validation.cross"):
    cfg = {"pipeline": {**copy.deepcopy(base), key: {"validation_method": "cross_checking_accurate"}}}
    try:
        _, r = pandora.run(PandoraMachine(), left, right, cfg)
        ok = "disparity_map" in r.data_vars
        print(key, "right products:", sorted(r.data_vars))
    except Exception as exc:  # pylint: disable=broad-except
        ok = False
        print(key, "FAILS:", type(exc).__name__, str(exc)[:100])
    bad += not ok
for key in ("multiscale", "multiscale.ms"):
    cfg = {"pipeline": {**copy.deepcopy(base), key: {"multiscale_method": "fixed_zoom_pyramid", "num_scales": 2, "scale_factor": 2, "marge": 1}}}
    m = PandoraMachine()
    pandora.run(m, left, right, cfg)
    print(key, "num_scales used by the run:", m.num_scales)
    bad += m.num_scales != 2
raise SystemExit(1 if bad else 0)
