"""Probe F10 (C02): sad/ssd with a selected band and subpix > 1 -- triage only, used by no check.
run: cd <tree> && PYTHONPATH=<tree> /venv/bin/python /verif/notes/probes/d15.py"""
import numpy as np, xarray as xr
from pandora import matching_cost

def img(seed):
    rng = np.random.default_rng(seed)
    data = rng.integers(0, 255, (3, 8, 12)).astype(np.float32)
    ds = xr.Dataset({"im": (["band_im", "row", "col"], data)}, coords={"band_im": ["r", "g", "b"], "row": np.arange(8), "col": np.arange(12)})
    ds.attrs = {"no_data_img": -9999, "valid_pixels": 0, "no_data_mask": 1, "crs": None, "transform": None}
    return ds

left, right = img(0), img(1)
bad = 0
for method in ("sad", "ssd", "zncc"):
    for subpix in (1, 2, 4):
        mc = matching_cost.AbstractMatchingCost(**{"matching_cost_method": method, "window_size": 3, "subpix": subpix, "band": "g"})
        grid_min, grid_max = np.full((8, 12), -2), np.full((8, 12), 2)
        try:
            cv = mc.allocate_cost_volume(left, (grid_min, grid_max))
            cv = mc.compute_cost_volume(left, right, cv)
            # reference at integer disparity 0 on band g, centre pixel
            print(method, subpix, "ok", cv["cost_volume"].shape)
        except Exception as exc:  # pylint: disable=broad-except
            bad += 1
            print(method, subpix, "FAILS:", type(exc).__name__, exc)
raise SystemExit(1 if bad else 0)
