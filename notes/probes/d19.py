"""Probe F13 (C07, C13): the cross-checking correspondent is rint(p + dL(p)) instead of p + rint(dL(p)) -- triage only.
For a half-integer disparity numpy rounds the *sum* half-to-even, so the correspondent depends on the parity of the
absolute column: the same pixel is judged differently in a crop that starts one column later.
run: cd <tree> && PYTHONPATH=<tree> /venv/bin/python /verif/notes/probes/d19.py"""
import numpy as np, xarray as xr
from pandora import validation

def ds(dmap):
    n = dmap.shape[1]
    d = xr.Dataset({"disparity_map": (["row", "col"], dmap.astype(np.float32)), "validity_mask": (["row", "col"], np.zeros(dmap.shape, dtype=np.uint16))}, coords={"row": [0], "col": np.arange(n)})
    d["disparity_interval"] = xr.DataArray(np.array([-2, 2]), coords=[("disparity", ["min", "max"])])
    d.attrs = {"offset_row_col": 0}
    return d

def check(left_d, right_d):
    val = validation.AbstractValidation(**{"validation_method": "cross_checking_accurate", "cross_checking_threshold": 1.0})
    out = val.disparity_checking(ds(left_d), ds(right_d))
    return out["validity_mask"].data[0].copy()

n = 8
left = np.full((1, n), 0.5)
right = np.full((1, n), -0.5)
right[0, 4] = -2.0  # the right pixel of column 4 disagrees with everybody
whole = check(left, right)
crop = check(left[:, 1:], right[:, 1:])  # the same scene framed one column later
print("whole image flags :", whole)
print("crop (from col 1) :", crop, "(its column k is column k+1 of the whole image)")
# documented rule: q = p + round(dL(p)) = p + 0 -> only the pixel whose own column is 4 meets the disagreeing right pixel
expected = np.zeros(n, dtype=int); expected[4] = 1
got = (whole != 0).astype(int)
bad = int((got != expected).any()) + int(((whole[1:] != 0) != (crop != 0)).any())
print("flagged (whole):", got, "expected from q = p + round(d):", expected)
raise SystemExit(1 if bad else 0)
