"""Probe F12 (C06): refinement of an off-grid disparity lying inside the first sample interval -- triage only.
A disparity d_min + 0.4 (as produced by a bilateral filter or an earlier refinement) has sample index 0; the
interval-end guard compared the *value* with d_min, so the method received cv[.., -1] (wrap-around) as the
"previous" cost and the refined disparity could leave the interval.
run: cd <tree> && PYTHONPATH=<tree> /venv/bin/python /verif/notes/probes/d18.py"""
import numpy as np, xarray as xr
from pandora import refinement
import pandora.constants as cst

bad = 0
for method in ("vfit", "quadratic"):
    disps = np.arange(-2, 3, dtype=np.float64)  # d_min = -2, d_max = 2
    #            planes:   -2    -1     0     1     2
    curve = np.array([5.0, 9.0, 12.0, 14.0, 5.1], dtype=np.float32)  # the LAST plane is what a wrapped index -1 reads
    cvd = np.tile(curve, (1, 3, 1)).astype(np.float32)
    cv = xr.Dataset({"cost_volume": (["row", "col", "disp"], cvd)}, coords={"row": [0], "col": [0, 1, 2], "disp": disps})
    cv.attrs.update({"subpixel": 1, "type_measure": "min", "offset_row_col": 0, "window_size": 1, "measure": "sad", "cmax": 20})
    dmap = np.array([[-2.0, -1.95, -1.0]], dtype=np.float32)  # on the end / off-grid inside the first interval / interior sample
    disp = xr.Dataset({"disparity_map": (["row", "col"], dmap.copy()), "validity_mask": (["row", "col"], np.zeros((1, 3), dtype=np.uint16))}, coords={"row": [0], "col": [0, 1, 2]})
    ref = refinement.AbstractRefinement(**{"refinement_method": method})
    ref.subpixel_refinement(cv, disp)
    out, msk = disp["disparity_map"].data[0], disp["validity_mask"].data[0]
    print(method, "in:", dmap[0], "out:", out, "mask:", msk)
    # pixel 1: sample index 0 -> sits on the end of the interval: must be left where it was, bit 3 raised
    if not (out[1] == np.float32(-1.95) and msk[1] & cst.PANDORA_MSK_PIXEL_STOPPED_INTERPOLATION):
        bad += 1
        print("   off-grid pixel in the first sample interval was refined with the wrapped-around cost:", out[1], "(interval [-2, 2])")
raise SystemExit(1 if bad else 0)
