"""Probe K2 candidate (C13): cbca's horizontal integral image is accumulated in float32 -- triage only.
whole image vs a column crop, sad costs on 12-bit imagery, compare aggregated costs on cone-interior pixels.
run: cd <tree> && PYTHONPATH=<tree> /venv/bin/python /verif/notes/probes/d17.py"""
import numpy as np, xarray as xr
from pandora import matching_cost, aggregation

def ds(data):
    d = xr.Dataset({"im": (["row", "col"], data.astype(np.float32))}, coords={"row": np.arange(data.shape[0]), "col": np.arange(data.shape[1])})
    d.attrs = {"no_data_img": -9999, "valid_pixels": 0, "no_data_mask": 1, "crs": None, "transform": None}
    return d

rng = np.random.default_rng(3)
H, W = 24, 700
left = rng.integers(0, 4096, (H, W))
right = np.roll(left, 2, axis=1) + rng.integers(-40, 40, (H, W))
def run(l, r):
    mc = matching_cost.AbstractMatchingCost(**{"matching_cost_method": "sad", "window_size": 5, "subpix": 1})
    g = (np.full(l.shape, -3), np.full(l.shape, 3))
    L, R = ds(l), ds(r)
    cv = mc.allocate_cost_volume(L, g)
    cv = mc.compute_cost_volume(L, R, cv)
    agg = aggregation.AbstractAggregation(**{"aggregation_method": "cbca", "cbca_intensity": 5000.0, "cbca_distance": 5})
    agg.cost_volume_aggregation(L, R, cv)
    return cv["cost_volume"].data
whole = run(left, right)
c0 = 400
crop = run(left[:, c0:], right[:, c0:])
inner = slice(20, 280)
a = whole[:, c0:][:, inner, :]
b = crop[:, inner, :]
m = np.isfinite(a) & np.isfinite(b)
nd = int((a[m] != b[m]).sum())
da = np.nanargmin(np.where(np.isfinite(a), a, np.inf), axis=2); db = np.nanargmin(np.where(np.isfinite(b), b, np.inf), axis=2)
print("interior winner-takes-all disparities differing:", int((da != db).sum()), "of", da.size)
def vfit(c, k):
    i, j = np.indices(k.shape)
    kk = np.clip(k, 1, c.shape[2] - 2)
    c0, cm, cp = c[i, j, kk], c[i, j, kk - 1], c[i, j, kk + 1]
    return (kk + (cm - cp) / (2 * (np.maximum(cm, cp) - c0))).astype(np.float32)
va, vb = vfit(a, da), vfit(b, db)
print("interior v-fit refined disparities differing (float32 bits):", int((va != vb).sum()), "of", va.size, "max abs diff", float(np.nanmax(np.abs(va - vb))))
print("interior costs compared:", int(m.sum()), "differing:", nd, "max abs diff:", float(np.abs(a[m] - b[m]).max()) if nd else 0.0)
# 8-bit control
left8 = left // 16; right8 = right // 16
w8 = run(left8, right8); c8 = run(left8[:, c0:], right8[:, c0:])
a8 = w8[:, c0:][:, inner, :]; b8 = c8[:, inner, :]; m8 = np.isfinite(a8) & np.isfinite(b8)
print("8-bit control differing:", int((a8[m8] != b8[m8]).sum()))
raise SystemExit(1 if nd else 0)
