import numpy as np, xarray as xr, warnings
warnings.filterwarnings("ignore")
from pandora import filter as flt
rng = np.random.default_rng(0)
d = rng.integers(-5, 5, size=(9, 9)).astype(np.float32)
def run(arr, sigma):
    ds = xr.Dataset({"disparity_map": (["row","col"], arr.copy()), "validity_mask": (["row","col"], np.zeros(arr.shape, dtype=np.uint16))},
                    coords={"row": np.arange(arr.shape[0]), "col": np.arange(arr.shape[1])})
    f = flt.AbstractFilter(cfg={"filter_method":"bilateral","sigma_space":sigma,"sigma_color":2.0}, image_shape=arr.shape, step=1)
    f.filter_disparity(ds)
    return ds["disparity_map"].data
for sigma in (1.0, 6.0, 0.7):
    a = run(d, sigma); b = run(d[::-1].copy(), sigma)[::-1]
    print("sigma", sigma, "win", min(9,9,int(3*sigma+1)), "flip-commutes:", np.allclose(a, b, equal_nan=True), "max diff", np.nanmax(np.abs(a-b)))
