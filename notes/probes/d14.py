"""F9 probe: mc-cnn mismatch filling uses a spurious 0.0 when a scan direction runs the full length of the
longest axis from an edge pixel without meeting a valid pixel (the slot of the zero-initialised table is never
written, because `range(1, max_path_length)` stops one step before leaving the image)."""
import numpy as np
import pandora.constants as cst
from pandora.validation.interpolated_disparity import McCnnInterpolation

MIS, OCC = cst.PANDORA_MSK_PIXEL_MISMATCH, cst.PANDORA_MSK_PIXEL_OCCLUSION
disp = np.full((1, 6), 7.0, dtype=np.float32)
valid = np.full((1, 6), OCC, dtype=np.uint16)   # no valid pixel anywhere
valid[0, 0] = MIS                                # a mismatch on the image edge
out_disp, out_val = McCnnInterpolation.interpolate_mismatch_mc_cnn(disp, valid)
print("no valid pixel in the map; pixel (0,0): disparity", out_disp[0, 0], "flags", out_val[0, 0])
print("EXPECTED: stays mismatch (512) with its disparity 7.0;  DEFECT if filled (32) with 0.0")
