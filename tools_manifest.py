"""Development helper: regenerate MANIFEST.json from the rule sets that exist under pvs/props.

Run with /venv/bin/python /verif/tools_manifest.py ; a property without a rule module (or listed in
NOT_APPLICABLE below) goes to not_applicable with its reason."""
import importlib
import json
import os
import sys

sys.path.insert(0, os.path.dirname(os.path.abspath(__file__)))

NOT_APPLICABLE = {
    # pid: reason   (filled when a claim is withdrawn)
}

LEVEL_TEXT = {}  # pid -> text, taken from the module (CLAIM) when present

props = [json.loads(l) for l in open("/verif/properties.jsonl")]
checks, na, served = [], [], []
for p in props:
    pid = p["id"]
    if pid in NOT_APPLICABLE:
        na.append({"property_id": pid, "reason": NOT_APPLICABLE[pid]})
        continue
    try:
        mod = importlib.import_module(f"pvs.props.{pid.lower()}")
    except ModuleNotFoundError:
        na.append({"property_id": pid, "reason": "rule set not built yet (round 2 in progress)"})
        continue
    spec = mod.SPEC
    claim = getattr(mod, "CLAIM", None) or {}
    served.append(pid)
    checks.append(
        {
            "property_id": pid,
            "quick_cmd": f"/venv/bin/python -m pvs check {pid} --tier quick",
            "thorough_cmd": f"/venv/bin/python -m pvs check {pid} --tier thorough",
            "evidence_file": f"/verif/evidence/{pid}.json",
            "replay_cmd_template": "/venv/bin/python -m pvs explain {path}",
            "engine": "pvs",
            "level_claimed": {
                "category": "other",
                "text": claim.get(
                    "text",
                    "Static analysis of /repo's current source (no execution): " + spec.explanation[:900],
                ),
                "design_ref": f"DESIGN.md section 4, {pid}",
            },
            "level_note": claim.get(
                "note",
                "Decides the structural clauses listed in the evidence file (each a necessary condition of the property); the clauses under "
                "'not_decided' are numerical/relational and are NOT decided. Trusted base: Python semantics as modelled by the engine, the "
                "library models listed under trusted_base, the specification tables in /verif/spec.",
            ),
            "technique": claim.get("technique", "static analysis: custom AST/CFG/dataflow rules over the repository source"),
        }
    )

m = {
    "version": 1,
    "setup_cmd": "true",
    "hooks": {
        "guard": "PANDORA_VERIF",
        "enable": "none needed: the checks parse /repo's working tree and never run it; no hook exists in /repo",
        "baseline_off_cmd": "cd /repo && /venv/bin/python -m pytest -ra -q -p no:cacheprovider --timeout=900 --continue-on-collection-errors tests",
        "source_commits": [],
        "add_only": True,
    },
    "engines": [
        {
            "name": "pvs",
            "path": "/verif/pvs",
            "serves_properties": served,
            "kind_free_text": "pure-stdlib static analyser run with /venv/bin/python: ast index, constant/table extraction, structured control-flow path enumeration, alias/effect summaries, canonical polynomial and boolean forms, automata equality, json_checker predicate model; mutation self-test on in-memory overlays",
        }
    ],
    "checks": checks,
    "notes": "All checks are static (they parse /repo and never import or execute it). Exit 0 holds / 1 VIOLATION / 2 ANALYSIS-ERROR (checker cannot see the property any more; never printed as VIOLATION). Genuine defects repaired by fix: commits and the known finding K1 are listed in /verif/known_findings.json.",
    "not_applicable": na,
}
json.dump(m, open("/verif/MANIFEST.json", "w"), indent=1)
print("checks:", served, "n/a:", [x["property_id"] for x in na])
