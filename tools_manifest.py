"""Development helper: regenerate MANIFEST.json from the rule sets that exist under pvs/props.

Run with /venv/bin/python /verif/tools_manifest.py ; a property without a rule module (or listed in
NOT_APPLICABLE below) goes to not_applicable with its reason."""
import importlib
import json
import os
import sys

sys.path.insert(0, os.path.dirname(os.path.abspath(__file__)))

NOT_APPLICABLE = {
    # pid: reason   (filled when a claim is withdrawn)
}


TECHNIQUE = {
    "C01": ("strong", "static analysis: DFA language equality (product construction) of the two literal transition tables against the documented automaton; must-pass-through path enumeration of the lifecycle functions; callback wiring and mirror substitution over the AST; exact-key lookup lint (STEP-KEY)"),
    "C02": ("thin", "static analysis: sibling cross-check of the three compute_cost_volume implementations on canonical ASTs, measure/constant tables, predicate complement by finite sign tables, as_strided stride/extent consistency, band-index ownership dataflow, sibling contradiction rule (dimension test vs band lookup)"),
    "C03": ("strong", "static analysis: substitution/restore pairing on enumerated paths, all-NaN predicate, block-cursor discipline of the chunk loops, effect summaries (who may write the cost volume)"),
    "C04": ("partial", "static analysis: flag-typed dataflow through the call graph; per-store proofs for flag arithmetic (|= idempotent, += only on provably clear bits, -= only on provably set bits); bit table and who-may-raise matrix; predicate symmetry of criteria.validity_mask"),
    "C05": ("strong", "static analysis: defaults table extraction; json_checker 2.0.0 model with representative-per-cell evaluation of every schema predicate against the specified domain; effect summaries for 'user dict not mutated'; shared-schema override discipline"),
    "C06": ("partial", "static analysis: guard structure of the refinement loop and of the two method kernels (sibling agreement), division guards, flag-store proofs; numeric bound of the sub-pixel shift not decided"),
    "C07": ("strong", "static analysis: predicate complement/equivalence (inside/outside, threshold), rounding and NaN->inf obligations on expanded def-use chains, flag-store proofs, effect summaries (disparity map never written)"),
    "C08": ("strong", "static analysis: left<->right mirror substitution equality of the two passes of every run callback, negate-and-swap of the right interval, gating of right products (who-may-store)"),
    "C09": ("thin", "static analysis: axis/index inverse pair (plane k <-> dmin + k/subpix) on canonical polynomials, comparator forms of the interval masking, label-based reads of the disparity bands; equality of nested-interval volumes not decided"),
    "C10": ("partial", "static analysis: who-may-write matrix from effect summaries, masked-store dominance, kernel copy/restore obligations, block-cursor discipline, as_strided consistency, parity domain for window sizes; the filtered value itself not decided"),
    "C11": ("thin", "static analysis: template agreement of the four arm loops, arm pairing in the four aggregation steps, NaN idiom, statelessness of step objects, effect summaries; integral-image arithmetic not decided"),
    "C12": ("partial", "static analysis: append bookkeeping of confidence bands on canonical ASTs, band-name table, NaN-mask idiom, definitions compared as canonical expressions, prange schedule-independence; inequalities between values not decided"),
    "C13": ("thin", "static analysis: affine-space typing (coordinate/index/displacement) of every function reading row/col coordinates, position-parity lint, parity domain for window sizes, dtype domain for running sums, borrowed relative-access rules; crop/flip equality of values not decided"),
    "C14": ("partial", "static analysis: gating of fills on flagged pixels, flag exchange proofs, found-gate dominance, bounds complement, symmetry of literal direction tables, effect summaries (outputs are copies); scan geometry beyond the table symmetry not decided"),
    "C15": ("partial", "static analysis: configuration-level typing of every cfg argument across calls, registry-instantiation arity, pyramid/scaling def-use and mirror, block cursors and dtype of the range maps, per-scale driver loop; pyramid contents not decided"),
    "C16": ("partial", "static analysis: branch ordering and precedence on enumerated paths of create_dataset_from_inputs/add_mask/add_no_data, comparator forms, row/col symmetry of the ROI window, band labels; raster round trips not decided"),
    "C17": ("strong", "static analysis: must-call sets of the input checkers on enumerated paths, decision table over input kinds, comparator forms of shape/dtype tests"),
    "C18": ("strong", "static analysis: prange write-disjointness (W/R/S rules), shared mutable container discipline, definite assignment of per-run machine attributes, effect summaries for the caller's datasets and cfg, statelessness of 112 step methods, parallel switch lint"),
    "C19": ("partial", "static analysis: writer table of save_results against the documented products, left/right symmetry of the writer calls, writer/reader agreement between the saved configuration and the input schema; GeoTIFF encoding not decided"),
    "C20": ("strong", "static analysis: margin descriptor table extraction and constant evaluation, registration sites per callback, combination (max / cumulative sum) on canonical ASTs"),
}

LEVEL_TEXT = {}  # pid -> text, taken from the module (CLAIM) when present

props = [json.loads(l) for l in open("/verif/properties.jsonl")]
checks, na, served = [], [], []
for p in props:
    pid = p["id"]
    if pid in NOT_APPLICABLE:
        na.append({"property_id": pid, "reason": NOT_APPLICABLE[pid]})
        continue
    try:
        mod = importlib.import_module(f"pvs.props.{pid.lower()}")
    except ModuleNotFoundError:
        na.append({"property_id": pid, "reason": "rule set not built yet (round 2 in progress)"})
        continue
    spec = mod.SPEC
    claim = getattr(mod, "CLAIM", None) or {}
    served.append(pid)
    checks.append(
        {
            "property_id": pid,
            "quick_cmd": f"/venv/bin/python -m pvs check {pid} --tier quick",
            "thorough_cmd": f"/venv/bin/python -m pvs check {pid} --tier thorough",
            "evidence_file": f"/verif/evidence/{pid}.json",
            "replay_cmd_template": "/venv/bin/python -m pvs explain {path}",
            "engine": "pvs",
            "level_claimed": {
                "category": "other",
                "text": claim.get(
                    "text",
                    f"[{TECHNIQUE[pid][0]} claim] Static analysis of /repo's current source (no execution): " + spec.explanation[:900],
                ),
                "design_ref": f"DESIGN.md section 4, {pid}",
            },
            "level_note": claim.get(
                "note",
                "Decides the structural clauses listed in the evidence file (each a necessary condition of the property); the clauses under "
                "'not_decided' are numerical/relational and are NOT decided. Trusted base: Python semantics as modelled by the engine, the "
                "library models listed under trusted_base, the specification tables in /verif/spec.",
            ),
            "technique": claim.get("technique", TECHNIQUE[pid][1]),
        }
    )

m = {
    "version": 1,
    "setup_cmd": "true",
    "hooks": {
        "guard": "PANDORA_VERIF",
        "enable": "none needed: the checks parse /repo's working tree and never run it; no hook exists in /repo",
        "baseline_off_cmd": "cd /repo && /venv/bin/python -m pytest -ra -q -p no:cacheprovider --timeout=900 --continue-on-collection-errors tests",
        "source_commits": [],
        "add_only": True,
    },
    "engines": [
        {
            "name": "pvs",
            "path": "/verif/pvs",
            "serves_properties": served,
            "kind_free_text": "pure-stdlib static analyser run with /venv/bin/python: ast index, constant/table extraction, structured control-flow path enumeration, alias/effect summaries, canonical polynomial and boolean forms, automata equality, json_checker predicate model; mutation self-test on in-memory overlays",
        }
    ],
    "checks": checks,
    "notes": "All checks are static (they parse /repo and never import or execute it). Exit 0 holds / 1 VIOLATION / 2 ANALYSIS-ERROR (checker cannot see the property any more; never printed as VIOLATION). Genuine defects repaired by fix: commits and the known findings K1-K4 are listed in /verif/known_findings.json.",
    "not_applicable": na,
}
json.dump(m, open("/verif/MANIFEST.json", "w"), indent=1)
print("checks:", served, "n/a:", [x["property_id"] for x in na])
