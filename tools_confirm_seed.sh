#!/bin/bash
# Development helper: confirm a seeded change in a scratch worktree (outside /repo and /verif):
#   the suite still passes (351 passed, the 5 baseline failures), demo exits !=0 with the change and 0 without.
# usage: tools_confirm_seed.sh <seed dir containing patch.diff demo.py> <label>
set -u
SD="$1"; LABEL="$2"; WT="/tmp/cw/$LABEL"
mkdir -p /tmp/cw
git -C /repo worktree add -q --detach "$WT" "${3:-HEAD}" || exit 3
cd "$WT"
OUT="$SD/confirm.log"
{
echo "== $LABEL  $(date -u +%FT%TZ)  base $(git rev-parse --short HEAD)"
echo "-- demo WITHOUT the change"
PYTHONPATH="$WT" timeout 900 /venv/bin/python "$SD/demo.py" >/tmp/cw/$LABEL.demo0.out 2>&1; echo "exit=$?"; tail -3 /tmp/cw/$LABEL.demo0.out
git apply "$SD/patch.diff" || { echo "PATCH DOES NOT APPLY"; }
echo "-- demo WITH the change"
PYTHONPATH="$WT" timeout 900 /venv/bin/python "$SD/demo.py" >/tmp/cw/$LABEL.demo1.out 2>&1; echo "exit=$?"; tail -5 /tmp/cw/$LABEL.demo1.out
echo "-- suite WITH the change"
PYTHONPATH="$WT" timeout 2400 /venv/bin/python -m pytest -q -p no:cacheprovider -n ${CONFIRM_JOBS:-8} --timeout=900 tests 2>&1 | tail -8
} > "$OUT" 2>&1
cd /
git -C /repo worktree remove --force "$WT"
rm -f /tmp/cw/$LABEL.demo0.out /tmp/cw/$LABEL.demo1.out
grep -E "exit=|passed|failed" "$OUT" | tr '\n' ' '; echo
