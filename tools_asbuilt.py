"""Development helper: regenerate the generated tables of DESIGN.md (between the BEGIN/END generated markers) from
evidence/*.json, notes/selftest.json, seeded/*/*/meta.json.   usage: /venv/bin/python tools_asbuilt.py"""
import glob
import json
import os
import re

ROOT = os.path.dirname(os.path.abspath(__file__))


def asbuilt_table() -> str:
    st = {}
    p = os.path.join(ROOT, "notes", "selftest.json")
    if os.path.exists(p):
        st = json.load(open(p))
    rows = ["| prop | obligations (quick, clean tree) | rules: obligations | self-test: mutants killed / applied, equivalents silent / applied |", "|---|---|---|---|"]
    for f in sorted(glob.glob(os.path.join(ROOT, "evidence", "C*.json"))):
        e = json.load(open(f))
        c = e["coverage"]
        pid = e["property_id"]
        per = c.get("per_rule", {})
        rules = ", ".join(f"{k.split('.', 1)[1]} {v['obligations']}" for k, v in sorted(per.items()))
        s = st.get(pid, {})
        stt = f"{s.get('killed', '?')}/{s.get('applied', '?')}, {s.get('silent', '?')}/{s.get('equivalents', '?')}" if s else "n/a"
        kf = len(c.get("known_findings", []) or [])
        rows.append(f"| {pid} | {c['obligations']} ({c['discharged']} discharged{', ' + str(kf) + ' known finding(s)' if kf else ''}) | {rules} | {stt} |")
    return "\n".join(rows)


def seeds_table() -> str:
    rows = ["| seed | round | breaks | files changed | needs, to manifest | reported by (rules) | analysis error in |", "|---|---|---|---|---|---|---|"]
    for mf in sorted(glob.glob(os.path.join(ROOT, "seeded", "C*", "*", "meta.json"))):
        m = json.load(open(mf))
        sid = "/".join(mf.split(os.sep)[-3:-1])
        k = sid.split("/")[1]
        rnd = {"r2": "2 (blind)", "r3": "3 (blind)", "r4": "4 (blind)", "r5": "5 (blind)"}.get(k[:2], "1")
        ck = m.get("checks_run_against_it", {})
        rep = "; ".join(f"{p}: {', '.join(r.split('.', 1)[1] for r in rs)}" for p, rs in sorted(ck.get("reported_by", {}).items())) or "**none**"
        err = ", ".join(ck.get("analysis_error_in", [])) or ""
        fr = m.get("frozen_checks", {})
        if fr:
            frep = "; ".join(f"{p}: {', '.join(r.split('.', 1)[1] for r in rs)}" for p, rs in sorted(fr.get("reported_by", {}).items())) or "**none**"
            ferr = ", ".join(fr.get("analysis_error_in", []))
            rep = f"at freeze: {frep}{' (analysis error: ' + ferr + ')' if ferr else ''} / now: {rep}"
        needs = re.sub(r"\s+", " ", str(m.get("needs_to_manifest", "")))[:160]
        files = ", ".join(os.path.basename(x) for x in m.get("files_changed", []))
        rows.append(f"| {sid} | {rnd} | {m.get('breaks_property')} | {files} | {needs} | {rep} | {err} |")
    return "\n".join(rows)


def main():
    p = os.path.join(ROOT, "DESIGN.md")
    s = open(p).read()
    for name, fn in (("asbuilt", asbuilt_table), ("seeds", seeds_table)):
        b, e = f"<!-- BEGIN generated:{name} -->", f"<!-- END generated:{name} -->"
        if b in s and e in s:
            i, j = s.index(b) + len(b), s.index(e)
            s = s[:i] + "\n" + fn() + "\n" + s[j:]
    open(p, "w").write(s)


if __name__ == "__main__":
    main()
