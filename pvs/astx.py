"""pvs.astx -- syntax-tree helpers and the constant evaluator / table extractor (E1)."""
from __future__ import annotations

import ast
import copy
from typing import Any, Callable, Dict, Iterable, Iterator, List, Optional, Sequence, Tuple

from .core import AnalysisError, Tree


def src(node: Optional[ast.AST]) -> str:
    if node is None:
        return ""
    try:
        return ast.unparse(node)
    except Exception:  # pragma: no cover
        return ast.dump(node)


def dotted(node: ast.AST) -> Optional[str]:
    """a.b.c -> 'a.b.c'; anything else -> None."""
    parts: List[str] = []
    cur = node
    while isinstance(cur, ast.Attribute):
        parts.append(cur.attr)
        cur = cur.value
    if isinstance(cur, ast.Name):
        parts.append(cur.id)
        return ".".join(reversed(parts))
    return None


def call_name(call: ast.Call) -> Optional[str]:
    return dotted(call.func)


def is_const(node: ast.AST, value: Any = ...) -> bool:
    if not isinstance(node, ast.Constant):
        return False
    return value is ... or (node.value == value and type(node.value) is type(value))


def strip_docstring(body: Sequence[ast.stmt]) -> List[ast.stmt]:
    body = list(body)
    if body and isinstance(body[0], ast.Expr) and isinstance(body[0].value, ast.Constant) and isinstance(body[0].value.value, str):
        return body[1:]
    return body


def walk_no_nested(node: ast.AST) -> Iterator[ast.AST]:
    """ast.walk that does not descend into nested function/class definitions or lambdas' owners."""
    stack = [node]
    first = True
    while stack:
        n = stack.pop()
        if not first and isinstance(n, (ast.FunctionDef, ast.AsyncFunctionDef, ast.ClassDef)):
            continue
        first = False
        yield n
        stack.extend(reversed(list(ast.iter_child_nodes(n))))


def calls_in(node: ast.AST) -> List[ast.Call]:
    return [n for n in walk_no_nested(node) if isinstance(n, ast.Call)]


def stmts_of(fn: ast.AST) -> List[ast.stmt]:
    return strip_docstring(fn.body)  # type: ignore[attr-defined]


def names_in(node: ast.AST) -> set:
    return {n.id for n in ast.walk(node) if isinstance(n, ast.Name)}


def parent(node: ast.AST) -> Optional[ast.AST]:
    return getattr(node, "_parent", None)


def ancestors(node: ast.AST) -> Iterator[ast.AST]:
    cur = parent(node)
    while cur is not None:
        yield cur
        cur = parent(cur)


def stmt_of(node: ast.AST) -> ast.stmt:
    cur = node
    while not isinstance(cur, ast.stmt):
        cur = parent(cur)
        if cur is None:
            raise AnalysisError("expression without enclosing statement")
    return cur


def decorators(fn: ast.AST) -> List[str]:
    return [src(d) for d in getattr(fn, "decorator_list", [])]


def kwarg(call: ast.Call, name: str) -> Optional[ast.AST]:
    for k in call.keywords:
        if k.arg == name:
            return k.value
    return None


def arg_or_kw(call: ast.Call, pos: int, name: str) -> Optional[ast.AST]:
    if len(call.args) > pos and not any(isinstance(a, ast.Starred) for a in call.args[: pos + 1]):
        return call.args[pos]
    return kwarg(call, name)


def subscript_key(node: ast.AST) -> Optional[Any]:
    """X["k"] -> "k"; X[3] -> 3."""
    if isinstance(node, ast.Subscript) and isinstance(node.slice, ast.Constant):
        return node.slice.value
    return None


def subscript_chain(node: ast.AST) -> Tuple[ast.AST, List[ast.AST]]:
    """cfg["a"]["b"] -> (cfg, [slice_a, slice_b])."""
    idx: List[ast.AST] = []
    cur = node
    while isinstance(cur, ast.Subscript):
        idx.append(cur.slice)
        cur = cur.value
    return cur, list(reversed(idx))


# --------------------------------------------------------------------------------------
# guards: the conditions under which a node executes (syntactic dominance inside a function)
# --------------------------------------------------------------------------------------
def guards_of(node: ast.AST, stop: Optional[ast.AST] = None) -> List[Tuple[ast.AST, bool]]:
    """List of (test, polarity) of the enclosing If/While/IfExp branches, innermost first."""
    out: List[Tuple[ast.AST, bool]] = []
    child = node
    for anc in ancestors(node):
        if anc is stop:
            break
        if isinstance(anc, (ast.If, ast.While)):
            if any(child is s for s in anc.body):
                out.append((anc.test, True))
            elif any(child is s for s in anc.orelse):
                out.append((anc.test, False))
        elif isinstance(anc, ast.IfExp):
            if child is anc.body:
                out.append((anc.test, True))
            elif child is anc.orelse:
                out.append((anc.test, False))
        if isinstance(anc, (ast.FunctionDef, ast.AsyncFunctionDef)):
            break
        child = anc
    return out


def enclosing_loops(node: ast.AST) -> List[ast.AST]:
    out = []
    for anc in ancestors(node):
        if isinstance(anc, (ast.FunctionDef, ast.AsyncFunctionDef)):
            break
        if isinstance(anc, (ast.For, ast.While)):
            out.append(anc)
    return out


# --------------------------------------------------------------------------------------
# E1 constant evaluator
# --------------------------------------------------------------------------------------
class NotConstant(Exception):
    pass


_BIN = {
    ast.Add: lambda a, b: a + b,
    ast.Sub: lambda a, b: a - b,
    ast.Mult: lambda a, b: a * b,
    ast.Div: lambda a, b: a / b,
    ast.FloorDiv: lambda a, b: a // b,
    ast.Mod: lambda a, b: a % b,
    ast.Pow: lambda a, b: a**b,
    ast.LShift: lambda a, b: a << b,
    ast.RShift: lambda a, b: a >> b,
    ast.BitOr: lambda a, b: a | b,
    ast.BitAnd: lambda a, b: a & b,
    ast.BitXor: lambda a, b: a ^ b,
}


def const_eval(node: ast.AST, env: Optional[Dict[str, Any]] = None) -> Any:
    """Evaluate a literal expression; names are looked up in env (dotted names allowed)."""
    env = env or {}
    if isinstance(node, ast.Constant):
        return node.value
    if isinstance(node, (ast.List, ast.Tuple, ast.Set)):
        vals = [const_eval(e, env) for e in node.elts]
        return vals if isinstance(node, ast.List) else (tuple(vals) if isinstance(node, ast.Tuple) else set(vals))
    if isinstance(node, ast.Dict):
        out = {}
        for k, v in zip(node.keys, node.values):
            if k is None:
                raise NotConstant(src(node))
            out[const_eval(k, env)] = const_eval(v, env)
        return out
    if isinstance(node, ast.UnaryOp):
        v = const_eval(node.operand, env)
        if isinstance(node.op, ast.USub):
            return -v
        if isinstance(node.op, ast.UAdd):
            return +v
        if isinstance(node.op, ast.Invert):
            return ~v
        if isinstance(node.op, ast.Not):
            return not v
    if isinstance(node, ast.BinOp) and type(node.op) in _BIN:
        return _BIN[type(node.op)](const_eval(node.left, env), const_eval(node.right, env))
    d = dotted(node)
    if d is not None:
        if d in env:
            return env[d]
        if d in ("np.nan", "numpy.nan", "np.NaN"):
            return float("nan")
        if d in ("np.inf", "numpy.inf"):
            return float("inf")
    raise NotConstant(src(node))


def module_constants(tree: Tree, rel: str) -> Dict[str, Any]:
    """Module-level NAME = <literal> assignments (evaluated in order, so constants may use earlier ones)."""
    env: Dict[str, Any] = {}
    for st in tree.module(rel).body:
        tgt, val = None, None
        if isinstance(st, ast.Assign) and len(st.targets) == 1 and isinstance(st.targets[0], ast.Name):
            tgt, val = st.targets[0].id, st.value
        elif isinstance(st, ast.AnnAssign) and isinstance(st.target, ast.Name) and st.value is not None:
            tgt, val = st.target.id, st.value
        if tgt is None:
            continue
        try:
            env[tgt] = const_eval(val, env)
        except NotConstant:
            pass
    return env


def class_constants(cls: ast.ClassDef, env: Optional[Dict[str, Any]] = None) -> Dict[str, Any]:
    out: Dict[str, Any] = {}
    e = dict(env or {})
    for st in cls.body:
        tgt, val = None, None
        if isinstance(st, ast.Assign) and len(st.targets) == 1 and isinstance(st.targets[0], ast.Name):
            tgt, val = st.targets[0].id, st.value
        elif isinstance(st, ast.AnnAssign) and isinstance(st.target, ast.Name) and st.value is not None:
            tgt, val = st.target.id, st.value
        if tgt is None:
            continue
        try:
            out[tgt] = const_eval(val, e)
            e[tgt] = out[tgt]
        except NotConstant:
            pass
    return out


def class_assign(cls: ast.ClassDef, name: str) -> Optional[ast.AST]:
    for st in cls.body:
        if isinstance(st, ast.Assign) and len(st.targets) == 1 and isinstance(st.targets[0], ast.Name) and st.targets[0].id == name:
            return st.value
        if isinstance(st, ast.AnnAssign) and isinstance(st.target, ast.Name) and st.target.id == name:
            return st.value
    return None


def module_assign(tree: Tree, rel: str, name: str) -> Optional[ast.AST]:
    for st in tree.module(rel).body:
        if isinstance(st, ast.Assign) and len(st.targets) == 1 and isinstance(st.targets[0], ast.Name) and st.targets[0].id == name:
            return st.value
        if isinstance(st, ast.AnnAssign) and isinstance(st.target, ast.Name) and st.target.id == name:
            return st.value
    return None


# --------------------------------------------------------------------------------------
# substitution / renaming
# --------------------------------------------------------------------------------------
class _Subst(ast.NodeTransformer):
    def __init__(self, names: Dict[str, str], attrs: Dict[str, str]):
        self.names = names
        self.attrs = attrs

    def visit_Name(self, node: ast.Name):
        if node.id in self.names:
            return ast.copy_location(ast.Name(id=self.names[node.id], ctx=node.ctx), node)
        return node

    def visit_Attribute(self, node: ast.Attribute):
        self.generic_visit(node)
        if isinstance(node.value, ast.Name) and node.value.id == "self" and node.attr in self.attrs:
            return ast.copy_location(ast.Attribute(value=node.value, attr=self.attrs[node.attr], ctx=node.ctx), node)
        return node


def substitute(node: ast.AST, names: Optional[Dict[str, str]] = None, self_attrs: Optional[Dict[str, str]] = None) -> ast.AST:
    return _Subst(names or {}, self_attrs or {}).visit(copy.deepcopy(node))


def alpha_rename(stmts: Sequence[ast.stmt], keep: Iterable[str] = ()) -> str:
    """Canonical text of a block with local names renamed by first occurrence (v0, v1, ...)."""
    keep = set(keep)
    mapping: Dict[str, str] = {}

    class R(ast.NodeTransformer):
        def visit_Name(self, node: ast.Name):
            if node.id in keep:
                return node
            if node.id not in mapping:
                mapping[node.id] = f"v{len(mapping)}"
            return ast.copy_location(ast.Name(id=mapping[node.id], ctx=node.ctx), node)

    out = []
    for st in stmts:
        out.append(src(R().visit(copy.deepcopy(st))))
    return "\n".join(out)


def self_attr(node: ast.AST) -> Optional[str]:
    """self.x -> 'x'."""
    if isinstance(node, ast.Attribute) and isinstance(node.value, ast.Name) and node.value.id == "self":
        return node.attr
    return None


def assigned_targets(st: ast.stmt) -> List[ast.AST]:
    if isinstance(st, ast.Assign):
        out: List[ast.AST] = []
        for t in st.targets:
            if isinstance(t, (ast.Tuple, ast.List)):
                out.extend(t.elts)
            else:
                out.append(t)
        return out
    if isinstance(st, (ast.AugAssign, ast.AnnAssign)):
        return [st.target]
    return []
