"""C05 -- configuration checking completes, preserves and polices every parameter."""
from __future__ import annotations

import ast
import json
import math
import os
from typing import Any, Dict, List, Optional, Tuple

from ..astx import NotConstant, calls_in, class_assign, class_constants, const_eval, dotted, guards_of, self_attr, src, stmts_of, walk_no_nested
from ..core import VERIF, AnalysisError, Ctx, PropSpec
from ..defuse import Defs
from ..effects import program
from ..jsonchk import Chk, accepts, compare_with_spec, kind_of, parse_checker, representatives
from ..rules_sm import MACHINE, SM, machine_methods, registered_names, transition_table
from ..sym import boolform, canon, equivalent

CC = "pandora/check_configuration.py"


def params_spec() -> dict:
    with open(os.path.join(VERIF, "spec", "params.json"), "r", encoding="utf-8") as fh:
        return json.load(fh)


def _check_conf_chain(tree, rel: str, cls: str) -> List[Tuple[str, ast.AST]]:
    """check_conf of the class and, when it calls super().check_conf, of its base (executed first)."""
    prog = program(tree)
    out = []
    fn = tree.func(rel, f"{cls}.check_conf")
    uses_super = any(isinstance(c.func, ast.Attribute) and c.func.attr == "check_conf" and isinstance(c.func.value, ast.Call) and (dotted(c.func.value.func) or "") == "super" for c in calls_in(fn))
    if uses_super:
        for b in prog.class_bases.get((rel, cls), []):
            r = prog.resolve_symbol(rel, b)
            if r and r[0] == "class":
                m = prog.find_method(r[1], r[2], "check_conf")
                if m:
                    out.append((m[0], prog.funcs[m]))
    out.append((rel, fn))
    return out


def _class_env(tree, rel: str, cls: str) -> Dict[str, Any]:
    prog = program(tree)
    env: Dict[str, Any] = {}
    chain = []
    cur = (rel, cls)
    seen = set()
    while cur and cur not in seen:
        seen.add(cur)
        chain.append(cur)
        nxt = None
        for b in prog.class_bases.get(cur, []):
            r = prog.resolve_symbol(cur[0], b)
            if r and r[0] == "class":
                nxt = (r[1], r[2])
                break
        cur = nxt
    for r_, c_ in reversed(chain):
        for k, v in class_constants(tree.cls(r_, c_)).items():
            env[f"self.{k}"] = v
            env[f"cls.{k}"] = v
    return env


def extract_defaults(tree, rel: str, cls: str) -> Dict[str, List[Tuple[Any, ast.stmt, bool, str]]]:
    """key -> [(value, stmt, guarded by `key not in cfg`, file)]"""
    out: Dict[str, List[Tuple[Any, ast.stmt, bool, str]]] = {}
    env = _class_env(tree, rel, cls)
    for frel, fn in _check_conf_chain(tree, rel, cls):
        cfgname = None
        a = fn.args
        if a.kwarg is not None:
            cfgname = a.kwarg.arg
        elif len(a.args) >= 2:
            cfgname = a.args[-1].arg
        for st in walk_no_nested(fn):
            if isinstance(st, ast.Assign) and len(st.targets) == 1 and isinstance(st.targets[0], ast.Subscript) and isinstance(st.targets[0].value, ast.Name) and st.targets[0].value.id == cfgname and isinstance(st.targets[0].slice, ast.Constant):
                key = st.targets[0].slice.value
                try:
                    val = const_eval(st.value, env)
                except NotConstant:
                    val = ("<expr>", canon(st.value))
                guarded = any(pol and canon(t) == f"{{!({key!r} in {cfgname})}}" for t, pol in guards_of(st, stop=fn))
                out.setdefault(key, []).append((val, st, guarded, frel))
    return out


CLOBBERED: Dict[Tuple[str, str], Dict[str, str]] = {}


def _sibling_written_keys(tree, rel: str) -> set:
    """Keys that some check_conf of the same package stores into (an alias of) the shared class-level schema."""
    import os

    out = set()
    pkg = os.path.dirname(rel)
    for r in tree.py_files(pkg):
        for q, fn in tree.funcs(r).items():
            if not q.endswith(".check_conf"):
                continue
            al = {"self.schema", "cls.schema"} | {n for n, ds in Defs(fn).defs.items() for _, v, pos in ds if pos is None and canon(v) in ("self.schema", "cls.schema")}
            for st in walk_no_nested(fn):
                if isinstance(st, ast.Assign) and isinstance(st.targets[0], ast.Subscript) and canon(st.targets[0].value) in al and isinstance(st.targets[0].slice, ast.Constant):
                    out.add(st.targets[0].slice.value)
    return out


def extract_schema(tree, rel: str, cls: str) -> Tuple[Dict[str, Tuple[ast.AST, bool]], str]:
    """key -> (checker expression, optional?) of the schema validated by the class's check_conf."""
    fn = tree.func(rel, f"{cls}.check_conf")
    prog = program(tree)
    schema: Dict[str, Tuple[ast.AST, bool]] = {}
    where = rel
    d = Defs(fn)
    sdefs = d.all_defs("schema")
    if not sdefs:
        raise AnalysisError(f"{cls}.check_conf: no `schema` found")
    first = sdefs[0][1]

    def class_level_literal() -> ast.Dict:
        cur = (rel, cls)
        node = None
        for _ in range(5):
            node = class_assign(tree.cls(*cur), "schema")
            if node is not None:
                break
            nxt = None
            for b in prog.class_bases.get(cur, []):
                r = prog.resolve_symbol(cur[0], b)
                if r and r[0] == "class":
                    nxt = (r[1], r[2])
            if nxt is None:
                break
            cur = nxt
        if not isinstance(node, ast.Dict):
            raise AnalysisError(f"{cls}: class-level schema is not a dict literal")
        return node

    def add_dict(node: ast.Dict):
        for k, v in zip(node.keys, node.values):
            if k is None and canon(v) in ("self.schema", "cls.schema"):
                # {..., **self.schema}: the shared class-level dict is unpacked *over* the entries written so far;
                # at run time it also holds whatever the sibling classes stored in it
                stale = _sibling_written_keys(tree, rel)
                for key in list(schema):
                    if key in stale:
                        CLOBBERED.setdefault((rel, cls), {})[key] = "set before `**self.schema`, which is unpacked over it and holds the entry last stored by a sibling class"
                add_dict(class_level_literal())
            elif isinstance(k, ast.Constant):
                schema[k.value] = (v, False)
            elif isinstance(k, ast.Call) and (dotted(k.func) or "") == "OptionalKey" and isinstance(k.args[0], ast.Constant):
                schema[k.args[0].value] = (v, True)
            else:
                raise AnalysisError(f"{cls}: schema key `{src(k)}` is not a constant")

    CLOBBERED.pop((rel, cls), None)
    if isinstance(first, ast.Dict):
        add_dict(first)
    elif canon(first) in ("self.schema", "cls.schema", "dict(self.schema)", "self.schema.copy()", "copy.copy(self.schema)", "copy.deepcopy(self.schema)", "dict(cls.schema)"):
        # class-level dict of a base class, then overwritten keys
        add_dict(class_level_literal())
    else:
        raise AnalysisError(f"{cls}.check_conf: schema is neither a dict literal nor the class-level schema")
    for st in walk_no_nested(fn):
        if isinstance(st, ast.Assign) and len(st.targets) == 1 and isinstance(st.targets[0], ast.Subscript) and canon(st.targets[0].value) == "schema" and isinstance(st.targets[0].slice, ast.Constant):
            schema[st.targets[0].slice.value] = (st.value, False)
    # the schema must be the one given to Checker(...).validate(cfg)
    ck = [c for c in calls_in(fn) if (dotted(c.func) or "") == "Checker"]
    if not ck or canon(ck[0].args[0]) != "schema":
        raise AnalysisError(f"{cls}.check_conf: Checker(schema) not found")
    return schema, where


def _same(a: Any, b: Any) -> bool:
    if isinstance(a, float) and isinstance(b, float) and math.isnan(a) and math.isnan(b):
        return True
    return a == b and type(a) is type(b)


def rule_classes(ctx: Ctx) -> int:
    tree = ctx.tree
    spec = params_spec()
    n = 0
    for key, ent in spec["classes"].items():
        rel, cls = key.split("::")
        defaults = extract_defaults(tree, rel, cls)
        schema, _ = extract_schema(tree, rel, cls)
        fn = tree.func(rel, f"{cls}.check_conf")
        # key sets
        skeys, wkeys = set(schema), set(ent["keys"])
        for key, why in sorted(CLOBBERED.get((rel, cls), {}).items()):
            ctx.ob("C05.SHARED-SCHEMA", rel, fn, f"{cls}: schema entry `{key}` is the class's own rule", False, detail=f"`{key}` is {why}: the outcome of the check depends on which measure was checked before in the same process", expected=f"schema['{key}'] assigned after the shared dict is taken")
        ctx.ob("C05.SCHEMA-KEYS", rel, fn, f"{cls}: schema keys {sorted(skeys)}", skeys == wkeys, expected=str(sorted(wkeys)), detail=f"parameters policed by the schema differ from the documented ones: extra {sorted(skeys - wkeys)}, missing {sorted(wkeys - skeys)} (an unknown key is rejected by json_checker, a missing entry makes a documented parameter illegal)")
        for k in sorted(set(defaults) - skeys):
            ctx.ob("C05.SCHEMA-KEYS", rel, defaults[k][0][1], f"{cls}: default for `{k}` has a schema entry", False, detail="a defaulted key that the schema does not know makes every configuration fail the check")
        for k, kspec in ent["keys"].items():
            n += 1
            # defaults
            if "default" in kspec:
                ds = defaults.get(k, [])
                ok = len(ds) >= 1 and all(_same(d[0], kspec["default"]) for d in ds if not (isinstance(d[0], float) and math.isnan(d[0])))
                got = [d[0] for d in ds]
                ctx.ob("C05.DEFAULTS", ds[0][3] if ds else rel, ds[0][1] if ds else fn, f"{cls}: default of `{k}` = {got}", ok and bool(ds), expected=repr(kspec["default"]), detail="an omitted optional parameter must appear with its documented default")
            for val, st, guarded, frel in defaults.get(k, []):
                idem = isinstance(val, float) and math.isnan(val) and any("'NaN'" in canon(t) or '"NaN"' in src(t) for t, pol in guards_of(st, stop=None) if pol)
                ctx.ob("C05.GUARDED-DEFAULT", frel, st, f"{cls}: `{src(st)[:80]}` only when `{k}` is absent", guarded or idem, expected=f"if '{k}' not in cfg: ...", detail="an unguarded default overwrites the user's value (and checking a completed configuration again would change it)")
            # domain
            if k in schema:
                node, optional = schema[k]
                chk = parse_checker(node)
                nodes = [node] + ([ast.parse(kspec["pred"], mode="eval").body] if kspec.get("pred") else [])
                reps = representatives(nodes, extra_strings=_strings_for(spec))
                diff, cnt = compare_with_spec(chk, kspec["kinds"], kspec.get("pred"), reps, skip_kinds=() if "bool" in kspec["kinds"] else ("bool",))
                ctx.count("representatives_evaluated", cnt)
                det = ""
                if diff is not None:
                    v, a, b = diff
                    det = f"value {v!r} ({kind_of(v)}) is {'accepted' if a else 'rejected'} by the code but must be {'accepted' if b else 'rejected'}"
                ctx.ob("C05.DOMAIN", rel, node, f"{cls}.{k}: {chk.text()[:110]}", diff is None, expected=f"kinds {kspec['kinds']}" + (f", {kspec['pred']}" if kspec.get("pred") else ""), detail=det)
                ctx.ob("C05.DOMAIN", rel, node, f"{cls}.{k}: {'optional' if optional else 'mandatory'} key", optional == bool(kspec.get("optional")), expected="optional" if kspec.get("optional") else "mandatory")
                if "bool" not in kspec["kinds"] and "int" in kspec["kinds"] and accepts(chk, True):
                    ctx.extra.setdefault("bool_passes_int_gate", []).append(f"{cls}.{k}")
    return n


def _strings_for(spec) -> List[str]:
    out = []
    for _, (fam, names) in spec["registries"].items():
        out += names
    return out + ["ssd", "sad", "mc-cnn", "sgm", "mc_cnn"]


def rule_dispatch(ctx: Ctx) -> int:
    tree = ctx.tree
    spec = params_spec()
    prog = program(tree)
    n = 0
    for pkg, (fam, names) in spec["registries"].items():
        pkg = pkg.split("#")[0]
        famrel = None
        for rel in tree.py_files(pkg):
            if fam in tree.classes(rel):
                famrel = rel
        if famrel is None:
            raise AnalysisError(f"registry family {fam} not found under {pkg}")
        got = sorted(registered_names(tree, famrel, fam))
        n += 1
        ctx.ob("C05.DISPATCH", famrel, tree.cls(famrel, fam), f"{fam}: registered methods {got}", got == sorted(names), expected=str(sorted(names)), detail="the set of built-in method names differs from the documented one")
        new = tree.func(famrel, f"{fam}.__new__")
        # registry lookup by the configured name inside try, KeyError raised in the handler
        tries = [t for t in walk_no_nested(new) if isinstance(t, ast.Try)]
        ok = False
        for t in tries:
            looks = [s for s in ast.walk(ast.Module(body=t.body, type_ignores=[])) if isinstance(s, ast.Subscript) and isinstance(s.value, ast.Attribute) and s.value.attr.endswith("_avail") and "cfg[" in canon(s.slice)]
            raises = [r for h in t.handlers for r in ast.walk(h) if isinstance(r, ast.Raise) and r.exc is not None and "KeyError" in src(r.exc)]
            if looks and raises:
                ok = True
        ctx.ob("C05.DISPATCH", famrel, new, f"{fam}.__new__: registry lookup by the configured name, KeyError on a miss", ok, detail="an unknown method name must be rejected (KeyError, turned into a sequencing/configuration error by the state machine)")
    return n


def rule_no_mutation(ctx: Ctx) -> int:
    tree = ctx.tree
    prog = program(tree)
    n = 0
    s = prog.summary(CC, "check_conf")
    bad = [w for w in s.writes if w.root == "user_cfg"]
    n += 1
    ctx.ob("C05.NO-MUTATION", CC, tree.func(CC, "check_conf"), "check_conf(user_cfg, machine) has no in-place effect on user_cfg", not bad, detail=f"`{bad[0].text}` ({bad[0].rel}:{bad[0].line} via {' -> '.join(bad[0].via)}) writes the user's dictionary" if bad else "")
    for q in ("check_input_section", "check_pipeline_section", "update_conf", "get_config_input", "get_config_pipeline", "concat_conf"):
        s = prog.summary(CC, q)
        p0 = s.params[0]
        bad = [w for w in s.writes if w.root == p0]
        n += 1
        ctx.ob("C05.NO-MUTATION", CC, tree.func(CC, q), f"{q} has no in-place effect on `{p0}`", not bad, detail=f"`{bad[0].text}` writes the dictionary it was given" if bad else "")
    rows, _ = transition_table(tree, "_transitions_check")
    meths = machine_methods(tree)
    for r in rows:
        cb = r.get("after")
        if cb not in meths:
            continue
        s = prog.summary(SM, f"{MACHINE}.{cb}")
        cfgp = s.params[1]
        bad = [w for w in s.writes if w.root == cfgp]
        n += 1
        ctx.ob("C05.NO-MUTATION", SM, meths[cb], f"{cb} has no in-place effect on `{cfgp}` (the pipeline section being checked)", not bad, detail=f"`{bad[0].text}` ({bad[0].func}) writes the user's step dictionary: defaults are added to the caller's configuration (step classes whose check_conf(cfg) mutates its argument must be given a copy)" if bad else "")
    return n


def rule_check_calls(ctx: Ctx) -> None:
    tree = ctx.tree
    meths = machine_methods(tree)
    mc = meths["matching_cost_check_conf"]
    calls = [c for c in calls_in(mc) if isinstance(c.func, ast.Attribute) and c.func.attr == "check_band_pipeline"]
    firsts = [canon(c.args[0]) for c in calls]
    ok = sorted(firsts) == sorted(["self.left_img.coords['band_im'].data", "self.right_img.coords['band_im'].data"]) and all(canon(c.args[2]) == "matching_cost_.cfg['band']" for c in calls)
    ctx.ob("C05.CHECK-CALLS", SM, calls[0] if calls else mc, f"matching_cost_check_conf: check_band_pipeline on {firsts}", ok, expected="once with the left image's bands, once with the right image's, for the completed cfg['band']", detail="a band absent from one of the two images must be rejected before any processing")
    cbp = tree.func(SM, f"{MACHINE}.check_band_pipeline")
    raises = [r for r in walk_no_nested(cbp) if isinstance(r, ast.Raise)]
    tests = [canon(t.test) for t in walk_no_nested(cbp) if isinstance(t, ast.If)]
    okb = len(raises) >= 3 and any("band not in band_list" in t.replace("{", "").replace("}", "") or "!(band in band_list)" in t for t in tests)
    ctx.ob("C05.CHECK-CALLS", SM, cbp, f"check_band_pipeline: {len(raises)} refusals, membership tests {[t for t in tests if 'band' in t][:3]}", okb, detail="every requested band must be looked up in the image's band list")
    oc = meths["optimization_check_conf"]
    st = [s for s in stmts_of(oc) if isinstance(s, ast.If) and "step" in src(s.test)]
    oks = bool(st) and equivalent(boolform(st[0].test), boolform(ast.parse("self.step != 1", mode="eval").body)) is None and any(isinstance(x, ast.Raise) for x in st[0].body)
    ctx.ob("C05.CHECK-CALLS", SM, st[0] if st else oc, "optimization_check_conf refuses step != 1", oks, expected="if self.step != 1: raise")
    amc = tree.func("pandora/matching_cost/matching_cost.py", "AbstractMatchingCost.check_conf")
    st = [s for s in walk_no_nested(amc) if isinstance(s, ast.If) and "step" in src(s.test) and any(isinstance(x, ast.Raise) for x in s.body)]
    okc = bool(st) and canon(st[0].test) in ("({'step' in cfg} & !(cfg['step'] == 1))", "({'step' in cfg} & {!([-1 + cfg['step']]==0)})") or (bool(st) and "cfg['step']" in canon(st[0].test) and "'step' in cfg" in canon(st[0].test))
    gs = guards_of(st[0], stop=amc) if st else []
    okc = okc and len(gs) == 1 and canon(gs[0][0]) == "{!('pandora2d' in sys.modules)}"
    ctx.ob("C05.CHECK-CALLS", "pandora/matching_cost/matching_cost.py", st[0] if st else amc, f"AbstractMatchingCost.check_conf refuses step != 1 unless pandora2d is loaded: `{src(st[0].test) if st else '?'}`", okc, expected="if 'pandora2d' not in sys.modules: if 'step' in cfg and cfg['step'] != 1: raise")
    # every check callback stores the completed cfg of the object it builds under input_step
    rows, _ = transition_table(tree, "_transitions_check")
    for r in rows:
        cb = r.get("after")
        fn = meths.get(cb)
        if fn is None:
            continue
        step = fn.args.args[2].arg
        objs = {canon(s.targets[0]) for s in walk_no_nested(fn) if isinstance(s, ast.Assign) and isinstance(s.value, ast.Call) and (dotted(s.value.func) or "").split(".")[-1].startswith("Abstract")}
        ss = [s for s in walk_no_nested(fn) if isinstance(s, ast.Assign) and canon(s.targets[0]) == f"self.pipeline_cfg['pipeline'][{step}]"]
        ok = len(ss) == 1 and canon(ss[0].value).endswith(".cfg") and canon(ss[0].value)[:-4] in objs and not guards_of(ss[0], stop=fn)
        ctx.ob("C05.CHECK-CALLS", SM, ss[0] if ss else fn, f"{cb}: {src(ss[0]) if ss else 'completed cfg not stored'}", ok, expected=f"self.pipeline_cfg['pipeline'][{step}] = <step object>.cfg", detail="the completed (defaulted) configuration of each step must be recorded under the full step name")
    # check_pipeline_section / update_conf
    cps = tree.func(CC, "check_pipeline_section")
    d = Defs(cps)
    cfgs = d.all_defs("cfg")
    seq = [canon(x[1]) for x in cfgs]
    u = cps.args.args[0].arg
    oku = seq == [f"update_conf(default_short_configuration_pipeline, {u})", "update_conf(cfg, pandora_machine.pipeline_cfg)"]
    ctx.ob("C05.CHECK-CALLS", CC, cps, f"check_pipeline_section: cfg = {seq}", oku, expected="update_conf(defaults, user) then update_conf(cfg, machine.pipeline_cfg)", detail="the user's values are merged over the defaults, then the completed step configurations over the result")
    mcall = [c for c in calls_in(cps) if isinstance(c.func, ast.Attribute) and c.func.attr == "check_conf"]
    okm = len(mcall) == 1 and [canon(a) for a in mcall[0].args] == ["cfg", cps.args.args[1].arg, cps.args.args[2].arg] and (len(cfgs) >= 2 and cfgs[0][0].lineno < mcall[0].lineno < cfgs[1][0].lineno)
    ctx.ob("C05.CHECK-CALLS", CC, mcall[0] if mcall else cps, f"check_pipeline_section: {src(mcall[0]) if mcall else '?'} between the two merges", okm)
    uc = tree.func(CC, "update_conf")
    dflt, usr = uc.args.args[0].arg, uc.args.args[1].arg
    cd = Defs(uc).all_defs("config")
    okd = bool(cd) and canon(cd[0][1]) == f"copy.deepcopy({dflt})"
    ctx.ob("C05.CHECK-CALLS", CC, cd[0][0] if cd else uc, f"update_conf: config = {canon(cd[0][1]) if cd else '?'}", okd, expected=f"copy.deepcopy({dflt})", detail="the defaults (module-level dictionaries) must never be shared with the returned configuration")
    lp = [l for l in walk_no_nested(uc) if isinstance(l, ast.For)]
    okl = bool(lp) and canon(lp[0].iter) == f"{usr}.items()"
    ctx.ob("C05.CHECK-CALLS", CC, lp[0] if lp else uc, f"update_conf iterates {canon(lp[0].iter) if lp else '?'}", okl, expected=f"{usr}.items() (every user key keeps its value)")
    conv = {}
    for s in walk_no_nested(uc):
        if isinstance(s, ast.If) and isinstance(s.test, ast.Compare) and isinstance(s.test.comparators[0], ast.Constant) and isinstance(s.test.comparators[0].value, str) and s.body and isinstance(s.body[0], ast.Assign):
            conv[s.test.comparators[0].value] = canon(s.body[0].value)
    okc = conv == {"NaN": "np.nan", "inf": "np.inf", "-inf": "-np.inf"}
    ctx.ob("C05.CHECK-CALLS", CC, uc, f"update_conf string conversions {conv}", okc, expected="'NaN' -> nan, 'inf' -> inf, '-inf' -> -inf")
    rec = [c for c in calls_in(uc) if (dotted(c.func) or "") == "update_conf"]
    okr = len(rec) == 1 and [canon(a) for a in rec[0].args] == ["config.get(key, {})", "value"]
    ctx.ob("C05.CHECK-CALLS", CC, rec[0] if rec else uc, f"update_conf recursion {src(rec[0]) if rec else '?'}", okr, expected="update_conf(config.get(key, {}), value) for nested mappings")



def rule_band_names(ctx: Ctx) -> int:
    """check_band_pipeline receives `band_used` as None, a str (one band name), a list of names or a dict: a str must
    be compared as a whole name -- iterating it compares its characters (band 'rg' accepted on an r/g/b image, band
    'red' refused on a red/green/blue image)."""
    tree = ctx.tree
    fn = tree.func(SM, "PandoraMachine.check_band_pipeline")
    bu = fn.args.args[3].arg if len(fn.args.args) > 3 else "band_used"
    d = Defs(fn)
    n = 0
    for lp in [x for x in walk_no_nested(fn) if isinstance(x, ast.For)]:
        it = lp.iter
        direct = isinstance(it, ast.Name) and it.id == bu
        if isinstance(it, ast.Name) and not direct:
            r = d.reaching(it.id, lp)
            wrapped = r is not None and canon(r[1]) in (canon(ast.parse(f"[{bu}] if isinstance({bu}, str) else {bu}", mode="eval").body), canon(ast.parse(f"{bu} if not isinstance({bu}, str) else [{bu}]", mode="eval").body))
            if not wrapped and not (r is not None and any(isinstance(x, ast.Name) and x.id == bu for x in ast.walk(r[1]))):
                continue
        elif not direct:
            if not any(isinstance(x, ast.Name) and x.id == bu for x in ast.walk(it)):
                continue
            wrapped = False
        else:
            wrapped = False
        n += 1
        excluded = any((not pol and equivalent(boolform(t), boolform(ast.parse(f"isinstance({bu}, str)", mode="eval").body)) is None) or (pol and equivalent(boolform(t), boolform(ast.parse(f"isinstance({bu}, (list, tuple))", mode="eval").body)) is None) for t, pol in guards_of(lp, stop=fn))
        isdictitems = isinstance(it, ast.Call) and isinstance(it.func, ast.Attribute) and it.func.attr in ("items", "values")
        ctx.ob("C05.BAND-NAMES", SM, lp, f"check_band_pipeline: `for {src(lp.target)} in {src(it)}` never iterates the characters of a band name", wrapped or excluded or isdictitems, expected=f"bands = [{bu}] if isinstance({bu}, str) else {bu}", detail="the matching-cost band is a str: iterated directly, each *character* is looked up in the band list, so a band absent from the image can be accepted and a band present can be refused")
    return n

def run(ctx: Ctx) -> None:
    ctx.floor("C05.BAND-NAMES", rule_band_names(ctx), 2)
    n = rule_classes(ctx)
    ctx.floor("C05.DOMAIN", n, 50)
    if ctx.extra.get("bool_passes_int_gate"):
        ctx.note(f"DOC-NOTE: JSON booleans pass the And(int, ...) gate of {len(ctx.extra['bool_passes_int_gate'])} parameters (bool is a subclass of int; `true` is read as 1): not compared, see DESIGN section 6")
    n = rule_dispatch(ctx)
    ctx.floor("C05.DISPATCH", n, 6)
    n = rule_no_mutation(ctx)
    ctx.floor("C05.NO-MUTATION", n, 15)
    rule_check_calls(ctx)
    # shared schema discipline (also C18)
    from .c18 import rule_shared

    k = rule_shared(ctx)
    for o in ctx.obligations:
        if o.rule == "C18.SHARED":
            o.rule = "C05.SHARED-SCHEMA"


SPEC = PropSpec(
    pid="C05",
    title="Configuration checking completes, preserves and polices every parameter",
    explanation=(
        "For each of the 16 built-in step classes the defaults idiom (`if 'k' not in cfg: cfg['k'] = <constant>`, constants resolved through the class hierarchy) and the json_checker schema actually "
        "validated (dict literal, or the class-level matching-cost schema plus the keys overwritten locally) are extracted from the syntax tree. Defaults are compared with the documented ones; every default "
        "store must be guarded by the absence of its key (idempotence, user values preserved). Each schema entry is parsed into a checker tree and its accepted set is computed exactly with a model of "
        "json_checker 2.0.0 (And, Or with its type pre-filter, isinstance incl. bool<int, FunctionChecker treating TypeError/ValueError as rejection, list rule, OptionalKey) over one representative per "
        "cell of the partition of the value space induced by the constants and moduli of the code's predicate and of the specification's predicate; the accepted set must equal the documented domain, a "
        "difference is reported with a witness value. Key sets, optional keys, registry contents and the KeyError dispatch are compared with the documentation; effect summaries show that no check function "
        "or check callback writes the dictionary it is given; the band / step checks, the merge order and update_conf's deep copy and string conversions are pinned; the shared schema dictionaries obey the "
        "overwrite-the-same-keys discipline."
    ),
    rule_text="instances: every (class, key) pair of the 16 classes (defaults, guard, domain: ~70 representatives each), 9 registries, 17 effect summaries, the check callbacks and the merge functions",
    run=run,
    not_decided=["rasterio-dependent input checks (file readable, raster size): library behaviour", "key *position* in the returned dictionary (follows from update_conf iterating the user dict over a deep copy of the defaults: structural, not separately armed)"],
    trusted=["json_checker 2.0.0 semantics as modelled in pvs/jsonchk.py (read from its source)", "spec/params.json transcribed from the property statement and the user guide"],
)

MC = "pandora/matching_cost/matching_cost.py"
MUTANTS = [
    {"id": "band-name-iterated-character-by-character", "file": SM, "old": "            bands = [band_used] if isinstance(band_used, str) else band_used\n            for band in bands:\n", "new": "            for band in band_used:\n"},
    {"id": "census-own-rule-before-shared-unpack", "file": "pandora/matching_cost/census.py", "old": '        schema = self.schema\n        schema["matching_cost_method"] = And(str, lambda input: "census")\n        schema["window_size"] = And(int, lambda input: input in (3, 5))\n', "new": '        schema = {"window_size": And(int, lambda input: input in (3, 5)), **self.schema}\n        schema["matching_cost_method"] = And(str, lambda input: "census")\n'},
    {"id": "eq-census-private-copy-then-own-rules", "kind": "equiv", "file": "pandora/matching_cost/census.py", "old": '        schema = self.schema\n        schema["matching_cost_method"] = And(str, lambda input: "census")\n        schema["window_size"] = And(int, lambda input: input in (3, 5))\n', "new": '        schema = {**self.schema, "window_size": And(int, lambda input: input in (3, 5))}\n        schema["matching_cost_method"] = And(str, lambda input: "census")\n'},
    {"id": "window-default-7", "file": MC, "old": "    _WINDOW_SIZE = 5\n", "new": "    _WINDOW_SIZE = 7\n"},
    {"id": "cbca-distance-ge-0", "file": "pandora/aggregation/cbca.py", "old": '"cbca_distance": And(int, lambda input: input > 0),', "new": '"cbca_distance": And(int, lambda input: input >= 0),'},
    {"id": "filter-size-parity-dropped", "file": "pandora/filter/median.py", "old": '"filter_size": And(int, lambda input: input >= 1 and input % 2 != 0),', "new": '"filter_size": And(int, lambda input: input >= 1),'},
    {"id": "census-3-5-7", "file": "pandora/matching_cost/census.py", "old": "input in (3, 5)", "new": "input in (3, 5, 7)"},
    {"id": "num-scales-ge-1", "file": "pandora/multiscale/fixed_zoom_pyramid.py", "old": '"num_scales": And(int, lambda x: x > 1),', "new": '"num_scales": And(int, lambda x: x >= 1),'},
    {"id": "unguarded-default", "file": "pandora/filter/bilateral.py", "old": '        if "sigma_space" not in cfg:\n            cfg["sigma_space"] = self._SIGMA_SPACE\n', "new": '        cfg["sigma_space"] = self._SIGMA_SPACE\n'},
    {"id": "filter-no-deepcopy", "file": SM, "old": "        filter_config = copy.deepcopy(cfg[input_step])\n", "new": "        filter_config = cfg[input_step]\n"},
    {"id": "threshold-default-int", "file": "pandora/validation/validation.py", "old": "    _THRESHOLD = 1.0\n", "new": "    _THRESHOLD = 1\n"},
    {"id": "update_conf-no-deepcopy", "file": CC, "old": "    config = copy.deepcopy(def_cfg)\n", "new": "    config = dict(def_cfg)\n"},
    {"id": "sigma-space-default-color", "file": "pandora/filter/bilateral.py", "old": '            cfg["sigma_space"] = self._SIGMA_SPACE\n', "new": '            cfg["sigma_space"] = self._SIGMA_COLOR\n'},
    {"id": "band-check-left-twice", "file": SM, "old": '        self.check_band_pipeline(\n            self.right_img.coords["band_im"].data,\n            cfg[input_step]["matching_cost_method"],', "new": '        self.check_band_pipeline(\n            self.left_img.coords["band_im"].data,\n            cfg[input_step]["matching_cost_method"],'},
    {"id": "eta-max-closed", "file": "pandora/cost_volume_confidence/ambiguity.py", "old": '"eta_max": And(float, lambda input: 0 < input < 1),', "new": '"eta_max": And(float, lambda input: 0 < input <= 1),'},
    {"id": "nodata-or-int-float", "file": CC, "old": '        "nodata": Or(int, lambda input: np.isnan(input)),\n        "mask": And(Or(str, lambda input: input is None), rasterio_can_open),\n        "classif": And(Or(str, lambda x: x is None), rasterio_can_open),\n        "segm": And(Or(str, lambda x: x is None), rasterio_can_open),\n    },\n    "right"', "new": '        "nodata": Or(int, float),\n        "mask": And(Or(str, lambda input: input is None), rasterio_can_open),\n        "classif": And(Or(str, lambda x: x is None), rasterio_can_open),\n        "segm": And(Or(str, lambda x: x is None), rasterio_can_open),\n    },\n    "right"', "kind": "skip"},
    {"id": "subpix-odd-accepted", "file": MC, "old": "input > 0 and ((input % 2) == 0) or input == 1", "new": "input > 0"},
    {"id": "interp-name-typo", "file": "pandora/validation/validation.py", "old": 'common.is_method(input, ["mc-cnn", "sgm"])', "new": 'common.is_method(input, ["mc_cnn", "sgm"])'},
    {"id": "eq-parity-eq-1", "kind": "equiv", "file": "pandora/filter/median.py", "old": "input >= 1 and input % 2 != 0", "new": "input > 0 and input % 2 == 1"},
    {"id": "eq-unchained", "kind": "equiv", "file": "pandora/cost_volume_confidence/ambiguity.py", "old": '"eta_max": And(float, lambda input: 0 < input < 1),', "new": '"eta_max": And(float, lambda input: 0 < input and input < 1),'},
    {"id": "eq-census-or", "kind": "equiv", "file": "pandora/matching_cost/census.py", "old": "input in (3, 5)", "new": "input == 3 or input == 5"},
]
MUTANTS = [m for m in MUTANTS if m.get("kind") != "skip"]
