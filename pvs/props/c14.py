"""C14 -- occlusion/mismatch filling touches only flagged pixels, fills from valid ones."""
from __future__ import annotations

import ast
from typing import Dict, List, Optional, Tuple

from ..astx import calls_in, dotted, enclosing_loops, guards_of, src, stmts_of, walk_no_nested
from ..core import AnalysisError, Ctx, PropSpec
from ..defuse import Defs
from ..rules_effects import check_function_effects
from ..rules_flags import check_flag_stores, flag_constants, flag_name, flags_in
from ..rules_sm import SM, rule_mirror
from ..sym import B, boolform, canon, complementary, equivalent

I = "pandora/validation/interpolated_disparity.py"
IMG = "pandora/img_tools.py"
OCC, MIS, FOCC, FMIS = "PANDORA_MSK_PIXEL_OCCLUSION", "PANDORA_MSK_PIXEL_MISMATCH", "PANDORA_MSK_PIXEL_FILLED_OCCLUSION", "PANDORA_MSK_PIXEL_FILLED_MISMATCH"

KERNELS = {
    "McCnnInterpolation.interpolate_occlusion_mc_cnn": (OCC, [(OCC, FOCC)]),
    "McCnnInterpolation.interpolate_mismatch_mc_cnn": (MIS, [(MIS, FMIS)]),
    "SgmInterpolation.interpolate_occlusion_sgm": (OCC, [(OCC, FOCC)]),
    "SgmInterpolation.interpolate_mismatch_sgm": (MIS, [(MIS, OCC), (MIS, FMIS)]),
}


def _e(t: str) -> ast.AST:
    return ast.parse(t, mode="eval").body


def rule_kernel(ctx: Ctx, qual: str, gate: str, pairs: List[Tuple[str, str]]) -> None:
    tree = ctx.tree
    consts = flag_constants(tree)
    fn = tree.func(I, qual)
    dp, vp = fn.args.args[0].arg, fn.args.args[1].arg
    defs = Defs(fn)
    # outputs are copies of the inputs
    outs: Dict[str, str] = {}
    for name, ds in defs.defs.items():
        for st, val, pos in ds:
            c = canon(val)
            if pos is None and c in (f"np.copy({dp})", f"{dp}.copy()"):
                outs["disp"] = name
            if pos is None and c in (f"np.copy({vp})", f"{vp}.copy()"):
                outs["val"] = name
    ctx.ob("C14.GATED", I, fn, f"{qual}: outputs are copies of the inputs ({outs})", set(outs) == {"disp", "val"}, expected=f"out_disp = np.copy({dp}); out_val = np.copy({vp})", detail="the kernels must write copies: every pixel they do not touch keeps its disparity and flags bit for bit, and the scans read the un-filled map")
    if set(outs) != {"disp", "val"}:
        return
    od, ov = outs["disp"], outs["val"]
    rets = [n for n in walk_no_nested(fn) if isinstance(n, ast.Return)]
    ctx.ob("C14.GATED", I, rets[0] if rets else fn, f"{qual}: returns {canon(rets[0].value) if rets else '?'}", bool(rets) and all(canon(r.value) == f"({od}, {ov})" for r in rets), expected=f"({od}, {ov})")
    loops = [n for n in walk_no_nested(fn) if isinstance(n, ast.For) and not enclosing_loops(n)]
    if not loops or not isinstance(loops[0].target, ast.Name):
        raise AnalysisError(f"{qual}: pixel loops not found")
    inner = [n for n in walk_no_nested(loops[0]) if isinstance(n, ast.For) and n is not loops[0]]
    cvar, rvar = loops[0].target.id, inner[0].target.id if inner and isinstance(inner[0].target, ast.Name) else "row"
    cell = f"({cvar}, {rvar})"
    shp = [s for s in stmts_of(fn) if isinstance(s, ast.Assign) and isinstance(s.targets[0], ast.Tuple) and canon(s.value) == f"{dp}.shape"]
    okl = bool(shp) and canon(loops[0].iter) == f"range({canon(shp[0].targets[0].elts[0])})" and bool(inner) and canon(inner[0].iter) == f"range({canon(shp[0].targets[0].elts[1])})"
    ctx.ob("C14.GATED", I, loops[0], f"{qual}: every pixel is visited: for {cvar} in {src(loops[0].iter)} / for {rvar} in {src(inner[0].iter) if inner else '?'}", okl, expected="range(n0) x range(n1) from disp.shape", detail="some flagged pixels are never examined")
    want_gate = boolform(_e(f"({vp}[{cvar}, {rvar}] & cst.{gate}) != 0"))
    stores = []
    for st in walk_no_nested(fn):
        if isinstance(st, (ast.Assign, ast.AugAssign)):
            for t in st.targets if isinstance(st, ast.Assign) else [st.target]:
                if isinstance(t, ast.Subscript) and isinstance(t.value, ast.Name) and t.value.id in (od, ov):
                    stores.append((st, t))
    ctx.floor(f"C14.GATED({qual})", len(stores), 2)
    for st, t in stores:
        ctx.ob("C14.GATED", I, st, f"{qual}: `{src(st)[:80]}` writes the pixel being examined", canon(t.slice) == cell, expected=f"[{cvar}, {rvar}]", detail="filling a flagged pixel must not write another pixel")
        gs = guards_of(st, stop=fn)
        outer = gs[-1] if gs else None  # outermost guard
        okg = outer is not None and outer[1] and equivalent(boolform(outer[0]), want_gate) is None
        ctx.ob("C14.GATED", I, st, f"{qual}: `{src(st)[:70]}` only for pixels flagged {gate}", okg, expected=f"if ({vp}[{cvar}, {rvar}] & {gate}) != 0", detail="only pixels flagged by the cross-check may change: every other pixel keeps its disparity and flags")
        # inputs are read for the test, never the outputs (a pixel filled earlier in the scan must not feed later ones)
    # SWAP pairs
    subs = [(st, t) for st, t in stores if isinstance(st, ast.AugAssign) and isinstance(st.op, ast.Sub)]
    adds = [(st, t) for st, t in stores if isinstance(st, ast.AugAssign) and isinstance(st.op, (ast.BitOr, ast.Add))]
    plain = [(st, t) for st, t in stores if t.value.id == ov and not isinstance(st, ast.AugAssign)]
    for st, t in plain:
        ctx.ob("C14.SWAP", I, st, f"{qual}: `{src(st)[:90]}`", False, detail="a plain assignment to the mask erases the pixel's other bits (e.g. 516 -> 32 instead of 36): only the occlusion/mismatch bit may be exchanged for its 'filled' bit", expected="-= FLAG ; |= FILLED_FLAG")
    got_pairs = []
    for st, t in subs:
        blk = getattr(st, "_parent", None)
        body = [x for x in _block_of(st)]
        i = body.index(st)
        nxt = body[i + 1] if i + 1 < len(body) else None
        a = flags_in(st.value, consts)
        b = flags_in(nxt.value, consts) if isinstance(nxt, ast.AugAssign) and isinstance(nxt.op, (ast.BitOr, ast.Add)) else []
        fa = _factor(st.value, consts)
        fb = _factor(nxt.value, consts) if isinstance(nxt, ast.AugAssign) else None
        ok = len(a) == 1 and len(b) == 1 and (a[0], b[0]) in pairs and fa == fb
        got_pairs.append((a[0] if a else "?", b[0] if b else "?"))
        ctx.ob("C14.SWAP", I, st, f"{qual}: exchange {a} -> {b} (factor {fa} / {fb})", ok, expected=f"one of {pairs}, removal and addition on the same cell with the same 0/1 factor", detail="a filled pixel gets bit 8 replaced by 4 or bit 9 by 5 (sgm: a mismatch touching an occlusion becomes an occlusion); the two updates must go together")
    for p in pairs:
        ctx.ob("C14.SWAP", I, fn, f"{qual}: exchange {p[0]} -> {p[1]} present", p in got_pairs, detail="a documented flag exchange vanished: filled pixels stay flagged invalid, or keep the old bit")
    ctx.ob("C14.SWAP", I, fn, f"{qual}: as many removals as additions ({len(subs)}/{len(adds)})", len(subs) == len(adds), detail="a flag is removed without its replacement (or conversely)")
    # FOUND: the disparity store and the exchange depend on a valid pixel having been found
    for st, t in [(s, t) for s, t in stores if t.value.id == od]:
        v = st.value
        vt = canon(v)
        gs = guards_of(st, stop=fn)
        found = False
        how = ""
        for test, pol in gs:
            if pol and canon(test) == f"{{!(np.isnan({vt}))}}":
                found, how = True, f"guarded by not isnan({vt})"
        if not found and isinstance(v, ast.Subscript) and canon(v.value) == dp and "arg_valid" in vt:
            # mc-cnn occlusion: disp[col, row +/- arg_valid]; arg_valid == 0 (nothing found) re-reads the pixel itself
            found, how = True, "offset by arg_valid (0 when nothing was found: the pixel keeps its own disparity)"
        ctx.ob("C14.FOUND", I, st, f"{qual}: `{src(st)[:80]}` {how}", found, expected="if not np.isnan(value): out_disp[...] = value", detail="a flagged pixel for which no valid pixel can be found must stay as it is: storing the (NaN) result unconditionally produces a NaN disparity")
        # the flag exchange that accompanies this store sits in the same block (same guards) or carries the found factor
        blk = _block_of(st)
        sw = [x for x in blk if isinstance(x, ast.AugAssign) and isinstance(x.target, ast.Subscript) and canon(x.target.value) == ov]
        okx = len(sw) >= 2 and (how.startswith("guarded") or all(_factor(x.value, consts) == "msk[arg_valid]" for x in sw))
        ctx.ob("C14.FOUND", I, st, f"{qual}: the flag exchange accompanying `{src(st)[:50]}` is conditional on the same 'found' test", okx, detail="the pixel would be flagged 'filled' (valid) although nothing was found: NaN + filled")
    # the value stored comes from the *input* map, through valid pixels only
    if "occlusion_mc_cnn" in qual:
        ms = [d for d in defs.all_defs("msk")]
        okm = bool(ms) and all(f"({vp}[" in canon(d[1]) and "cst.PANDORA_MSK_PIXEL_INVALID" in canon(d[1]) and canon(d[1]).endswith("==0}") or canon(d[1]) == "msk[::-1]" for d in ms)
        ctx.ob("C14.FOUND", I, ms[0][0] if ms else fn, f"{qual}: validity of the scanned pixels = (valid & INVALID) == 0", okm, detail="the scan must stop on the first pixel without any 'invalid' flag")


def _factor(value: ast.AST, consts) -> Optional[str]:
    """FLAG * f -> canon(f); FLAG -> '1'."""
    from ..rules_flags import _single_flag_product

    r = _single_flag_product(value, consts)
    if r is None:
        return None
    return r[1].text()


def _block_of(st: ast.stmt) -> List[ast.stmt]:
    par = getattr(st, "_parent", None)
    for fld in ("body", "orelse", "finalbody"):
        blk = getattr(par, fld, None)
        if isinstance(blk, list) and any(x is st for x in blk):
            return blk
    return [st]


def rule_search_bounds(ctx: Ctx, rel: str, qual: str, rid: str = "C14.BOUNDS") -> None:
    """Neighbour-search loops: the out-of-image test is the exact complement of 'inside', uses the extents of the
    array that is read, dominates the read, and every slot of the result table is written before it is used."""
    tree = ctx.tree
    fn = tree.func(rel, qual)
    defs = Defs(fn)
    dp = "disp"
    shp = [s for s in walk_no_nested(fn) if isinstance(s, ast.Assign) and isinstance(s.targets[0], ast.Tuple) and canon(s.value).endswith(".shape") and len(s.targets[0].elts) == 2]
    if not shp:
        raise AnalysisError(f"{qual}: shape unpacking not found")
    n0, n1 = canon(shp[0].targets[0].elts[0]), canon(shp[0].targets[0].elts[1])
    arr = canon(shp[0].value)[: -len(".shape")]
    tests = [n for n in walk_no_nested(fn) if isinstance(n, ast.If) and "tmp_" in src(n.test) and any(isinstance(x, ast.Break) for x in n.body) and ("<" in src(n.test))]
    tests = [t for t in tests if "&" not in src(t.test) or "|" in src(t.test)]
    edge = [t for t in tests if "PANDORA_MSK" not in src(t.test)]
    ctx.floor(f"{rid}({qual})", len(edge), 1)
    for t in edge:
        names = sorted({n.id for n in ast.walk(t.test) if isinstance(n, ast.Name) and n.id.startswith("tmp_")})
        # which tmp variable indexes axis 0 / axis 1 of the arrays read below
        reads = [n for n in walk_no_nested(fn) if isinstance(n, ast.Subscript) and isinstance(n.slice, ast.Tuple) and len(n.slice.elts) == 2 and all(isinstance(e, ast.Name) and e.id.startswith("tmp_") for e in n.slice.elts)]
        if not reads:
            raise AnalysisError(f"{qual}: array reads at the scanned position not found")
        a0, a1 = reads[0].slice.elts[0].id, reads[0].slice.elts[1].id
        ok_same = all(r.slice.elts[0].id == a0 and r.slice.elts[1].id == a1 for r in reads)
        ctx.ob(rid, rel, reads[0], f"{qual}: all reads use [{a0}, {a1}]", ok_same, detail="the arrays are read with exchanged indices somewhere")
        inside = boolform(_e(f"({a0} >= 0) & ({a0} < {n0}) & ({a1} >= 0) & ({a1} < {n1})"))
        d = complementary(boolform(t.test), inside)
        ctx.ob(rid, rel, t, f"{qual}: edge test `{src(t.test)[:110]}`", d is None, expected=f"not (0 <= {a0} < {n0} and 0 <= {a1} < {n1})", detail=f"numba does not bounds-check: the edge test must be the exact complement of 'inside the array' with the extents of the axis each index addresses; counter-example sign pattern {d}")
        # dominance: every read at the scanned position comes after the edge test in the same loop body
        blk = _block_of(t)
        later_ok = all(r.lineno > t.lineno for r in reads if any(x is r for s in blk for x in ast.walk(s)))
        ctx.ob(rid, rel, t, f"{qual}: the edge test precedes every read at the scanned position", later_ok, detail="a read happens before the position was checked")
        ok_nan = any(isinstance(s, ast.Assign) and (dotted(s.value) or "") in ("np.nan", "numpy.nan") for s in t.body)
        ctx.ob(rid, rel, t, f"{qual}: leaving the image records NaN for the direction", ok_nan, expected="slot = np.nan; break")
    # path length and slot initialisation
    mp = defs.all_defs("max_path_length")
    okp = bool(mp) and canon(mp[0][1]) in (f"max({n1}, {n0})", f"max({n0}, {n1})")
    ctx.ob(rid, rel, mp[0][0] if mp else fn, f"{qual}: max_path_length = {canon(mp[0][1]) if mp else '?'}", okp, expected=f"max({n0}, {n1})", detail="a scan shorter than the longest axis stops inside the image without result")
    tables = [(name, d) for name, ds in defs.defs.items() for d in ds if d[2] is None and canon(d[1]).startswith(("np.zeros(", "np.full(", "np.empty(")) and name not in ("out_disp", "out_val")]
    for name, (st, val, _) in tables:
        init_nan = canon(val).startswith("np.full(") and "np.nan" in canon(val)
        # or: the scan provably terminates by `break`: pre-increment idiom over range(max_path_length)
        loops = [l for l in walk_no_nested(fn) if isinstance(l, ast.For) and canon(l.iter) == "range(max_path_length)"]
        preinc = bool(loops) and any(isinstance(s, ast.AugAssign) and isinstance(s.target, ast.Name) and s.target.id.startswith("tmp_") for s in loops[0].body[:2])
        ctx.ob(rid, rel, st, f"{qual}: result table {name} = {canon(val)[:60]}", init_nan or preinc, expected="NaN-initialised table, or a scan of max_path_length steps that always ends by break", detail="a direction whose scan ends inside the image without meeting a valid pixel leaves its slot at the initial 0.0, which then enters the median as if it were a valid disparity")



def rule_directions(ctx: Ctx) -> int:
    """Every literal direction table of the interpolation kernels is a symmetric star: entries pairwise distinct, the
    set closed under point reflection and under the row/col exchange, and as many entries as the loop scans."""
    from ..astx import const_eval, NotConstant

    tree = ctx.tree
    n = 0
    for q, fn in sorted(tree.funcs(I).items()):
        for st in walk_no_nested(fn):
            if not (isinstance(st, ast.Assign) and isinstance(st.targets[0], ast.Name) and st.targets[0].id == "dirs" and isinstance(st.value, ast.Call) and (dotted(st.value.func) or "") in ("np.array", "numpy.array") and st.value.args):
                continue
            try:
                tab = const_eval(st.value.args[0])
            except NotConstant as exc:
                raise AnalysisError(f"{q}: direction table is not a literal ({exc})") from exc
            vecs = [tuple(float(x) for x in v) for v in tab]
            n += 1
            S = set(vecs)
            dup = sorted(v for v in S if vecs.count(v) > 1)
            ctx.ob("C14.DIRECTIONS", I, st, f"{q}: {len(vecs)} directions, pairwise distinct", not dup, detail=f"direction(s) {dup} listed twice: a scan direction is missing and its twin weighs double in the median", expected="every direction once")
            miss = sorted(v for v in S if (-v[0], -v[1]) not in S)
            ctx.ob("C14.DIRECTIONS", I, st, f"{q}: direction set closed under point reflection", not miss, detail=f"{miss} has no opposite direction: the neighbourhood searched depends on the side", expected="v in dirs => -v in dirs")
            miss = sorted(v for v in S if (v[1], v[0]) not in S)
            ctx.ob("C14.DIRECTIONS", I, st, f"{q}: direction set closed under the row/col exchange", not miss, detail=f"{miss} has no transposed direction", expected="(a, b) in dirs => (b, a) in dirs")
            ctx.ob("C14.DIRECTIONS", I, st, f"{q}: no null direction, steps bounded by one pixel per unit", all(max(abs(v[0]), abs(v[1])) == 1.0 for v in vecs), expected="max(|row step|, |col step|) == 1 for every direction")
            # the loop scans as many directions as the table holds
            uses = [l for l in walk_no_nested(fn) if isinstance(l, ast.For) and isinstance(l.iter, ast.Call) and (dotted(l.iter.func) or "") == "range" and len(l.iter.args) == 1 and isinstance(l.iter.args[0], ast.Constant) and any(isinstance(x, ast.Subscript) and canon(x.value) == "dirs" for x in ast.walk(l))]
            for l in uses:
                ctx.ob("C14.DIRECTIONS", I, l, f"{q}: `for {src(l.target)} in {src(l.iter)}` scans the {len(vecs)} directions of the table", l.iter.args[0].value == len(vecs), expected=f"range({len(vecs)})")
    return n

def run(ctx: Ctx) -> None:
    tree = ctx.tree
    for q, (gate, pairs) in KERNELS.items():
        rule_kernel(ctx, q, gate, pairs)
        check_function_effects(ctx, "C14.EFFECTS", f"{I}::{q}")
    for key in (f"{I}::McCnnInterpolation.interpolated_disparity", f"{I}::SgmInterpolation.interpolated_disparity"):
        check_function_effects(ctx, "C14.EFFECTS", key)
    ctx.floor("C14.DIRECTIONS(tables)", rule_directions(ctx), 3)
    from ..rules_par import rule_ieee

    ctx.floor("C14.IEEE", rule_ieee(ctx, "C14.IEEE", files=(I, "pandora/img_tools.py")), 4)
    n = check_flag_stores(ctx, "C14.FLAGS", [I])
    ctx.floor("C14.FLAGS", n, 10)
    rule_search_bounds(ctx, IMG, "find_valid_neighbors")
    rule_search_bounds(ctx, I, "McCnnInterpolation.interpolate_mismatch_mc_cnn")
    # sgm mismatch: the 3x3 neighbourhood test is clipped to the image
    f = tree.func(I, "SgmInterpolation.interpolate_mismatch_sgm")
    nb = [n for n in walk_no_nested(f) if isinstance(n, ast.Subscript) and isinstance(n.slice, ast.Tuple) and all(isinstance(e, ast.Slice) for e in n.slice.elts) and canon(n.value) == "valid"]
    okn = bool(nb) and canon(nb[0].slice) == "(max(0, -1 + col):1 + min(-1 + ncol, 1 + col):, max(0, -1 + row):1 + min(-1 + nrow, 1 + row):)"
    ctx.ob("C14.BOUNDS", I, nb[0] if nb else f, f"interpolate_mismatch_sgm: 3x3 neighbourhood {canon(nb[0].slice)[:120] if nb else '?'}", okn, expected="valid[max(0, col-1) : min(ncol-1, col+1)+1, max(0, row-1) : min(nrow-1, row+1)+1]", detail="the occlusion-neighbour test must look at the 3x3 neighbourhood clipped to the image")
    # drivers: which kernels run, in which order, on which arrays
    for q, order in (("McCnnInterpolation.interpolated_disparity", ["interpolate_occlusion_mc_cnn", "interpolate_mismatch_mc_cnn"]), ("SgmInterpolation.interpolated_disparity", ["interpolate_mismatch_sgm", "interpolate_occlusion_sgm"])):
        fn = tree.func(I, q)
        lp = fn.args.args[1].arg
        cs = [c for c in calls_in(fn) if isinstance(c.func, ast.Attribute) and c.func.attr in order]
        cs.sort(key=lambda c: c.lineno)
        ok = [c.func.attr for c in cs] == order and all([canon(a) for a in c.args] == [f"{lp}['disparity_map'].data", f"{lp}['validity_mask'].data"] for c in cs)
        for c in cs:
            par = getattr(c, "_parent", None)
            tg = [canon(e) for e in par.targets[0].elts] if isinstance(par, ast.Assign) and isinstance(par.targets[0], ast.Tuple) else []
            ok = ok and tg == [f"{lp}['disparity_map'].data", f"{lp}['validity_mask'].data"]
        ctx.ob("C14.ORDER", I, fn, f"{q}: {[c.func.attr for c in cs]} on (disparity_map, validity_mask), results stored back in that order", ok, expected=str(order), detail="the documented order is occlusions then mismatches for mc-cnn, mismatches (which may become occlusions) then occlusions for sgm; the two results are (disparity, mask)")
    mc = tree.func(I, "McCnnInterpolation.interpolated_disparity")
    mb = [c for c in calls_in(mc) if (dotted(c.func) or "").split(".")[-1] == "mask_border"]
    okb = len(mb) == 1 and bool(guards_of(mb[0], stop=mc)) and "offset_row_col" in src(guards_of(mb[0], stop=mc)[0][0])
    ctx.ob("C14.BORDER", I, mb[0] if mb else mc, "mc-cnn filling ends with mask_border when the window offset is positive", okb, detail="border pixels must end with bit 0 only")
    k = rule_mirror(ctx, "C14.ORDER", only=["validation_run"])
    ctx.floor("C14.ORDER", k, 1)
    # the filling is only built when the step asks for it, from the step's own configuration
    from ..rules_sm import machine_methods

    vr = machine_methods(tree)["validation_run"]
    ac = [c for c in calls_in(vr) if (dotted(c.func) or "") == "validation.AbstractInterpolation"]
    okg = len(ac) == 1 and any(pol and canon(t) == "{'interpolated_disparity' in cfg['pipeline'][input_step]}" for t, pol in guards_of(ac[0], stop=vr))
    ctx.ob("C14.ORDER", SM, ac[0] if ac else vr, "validation_run: filling iff 'interpolated_disparity' in the step's configuration", okg, expected="if 'interpolated_disparity' in cfg['pipeline'][input_step]")


SPEC = PropSpec(
    pid="C14",
    title="Occlusion/mismatch filling touches only flagged pixels, fills from valid ones",
    explanation=(
        "Decides the gating and bookkeeping of the four numba filling kernels, not the scan geometry. Every store to the output disparity or mask writes the pixel being examined and is "
        "control-dependent (outermost guard, boolean equivalence) on `(valid[c, r] & BIT) != 0` with the kernel's own bit; outputs are np.copy of the inputs and the inputs are never "
        "written (effect summaries); the only mask operations are `-= FLAG` immediately followed by `|= FILLED_FLAG` on the same cell with the same 0/1 factor, for exactly the documented "
        "pairs (8->4, 9->5, sgm 9->8); the disparity store and the exchange are conditional on a value having been found (`not isnan(value)`, or the arg_valid offset/factor idiom of mc-cnn "
        "occlusion); in the neighbour searches the edge test is the exact complement of 'inside the array' with the extents of the axes actually indexed and precedes every read, the path length is "
        "max(n0, n1) and every slot of the direction table is written before the median (NaN-initialised, or a scan that always ends by break); drivers call the kernels in the documented "
        "order on (disparity_map, validity_mask); mc-cnn ends with mask_border; the state machine fills left then right after both cross-checks."
    ),
    rule_text="instances: every store of the four kernels (gate, cell, exchange pair, found-test), their effect summaries, the edge tests / path lengths / slot tables of the two search loops, the two drivers, validation_run",
    run=run,
    not_decided=["the documented scan directions and which neighbour is picked (geometry)", "the filled value lies between the smallest and largest valid disparity (numeric consequence of 'taken from valid pixels')"],
    trusted=["numba does not bounds-check array reads", "np.nanmedian of an all-NaN table is NaN"],
)

MUTANTS = [
    {"id": "sgm-occlusion-kernel-fastmath", "file": I, "old": "    @staticmethod\n    @njit()\n    def interpolate_occlusion_sgm(", "new": "    @staticmethod\n    @njit(fastmath=True)\n    def interpolate_occlusion_sgm("},
    {"id": "direction-table-sign-flipped", "file": I, "old": "                [1.0, -0.5],\n", "new": "                [1.0, 0.5],\n", "count": 1},
    {"id": "hoisted-flag-exchange-loses-found-factor", "file": I, "old": "                        out_val[col, row] -= cst.PANDORA_MSK_PIXEL_OCCLUSION * msk[arg_valid]\n                        out_val[col, row] |= cst.PANDORA_MSK_PIXEL_FILLED_OCCLUSION * msk[arg_valid]\n                        out_disp[col, row] = disp[col, row + arg_valid]\n", "new": "                        out_val[col, row] -= cst.PANDORA_MSK_PIXEL_OCCLUSION\n                        out_val[col, row] |= cst.PANDORA_MSK_PIXEL_FILLED_OCCLUSION\n                        out_disp[col, row] = disp[col, row + arg_valid]\n"},
    {"id": "eq-direction-table-reordered", "kind": "equiv", "edits": [(I, "                [0.0, 1.0],\n                [-0.5, 1.0],\n", "                [-0.5, 1.0],\n                [0.0, 1.0],\n", 1)]},
    {"id": "remove-occlusion-gate", "file": I, "old": "                if (valid[col, row] & cst.PANDORA_MSK_PIXEL_OCCLUSION) != 0:\n                    # interpolate occlusion by moving left", "new": "                if (valid[col, row] & cst.PANDORA_MSK_PIXEL_INVALID) != 0:\n                    # interpolate occlusion by moving left"},
    {"id": "write-inputs-in-place", "file": I, "old": "        out_disp = np.copy(disp)\n        out_val = np.copy(valid)\n\n        # 8 directions : [row, col]\n        dirs = np.array([[0, 1], [-1, 1], [-1, 0], [-1, -1], [0, -1], [1, -1], [1, 0], [1, 1]])\n\n        ncol, nrow = disp.shape\n        for col in range(ncol):\n            for row in range(nrow):\n                # Occlusion", "new": "        out_disp = disp\n        out_val = valid\n\n        # 8 directions : [row, col]\n        dirs = np.array([[0, 1], [-1, 1], [-1, 0], [-1, -1], [0, -1], [1, -1], [1, 0], [1, 1]])\n\n        ncol, nrow = disp.shape\n        for col in range(ncol):\n            for row in range(nrow):\n                # Occlusion"},
    {"id": "swap-4-5", "file": I, "old": "                        out_val[col, row] -= cst.PANDORA_MSK_PIXEL_OCCLUSION\n                        out_val[col, row] |= cst.PANDORA_MSK_PIXEL_FILLED_OCCLUSION", "new": "                        out_val[col, row] -= cst.PANDORA_MSK_PIXEL_OCCLUSION\n                        out_val[col, row] |= cst.PANDORA_MSK_PIXEL_FILLED_MISMATCH"},
    {"id": "edge-test-gt", "file": IMG, "old": "if (tmp_col < 0) | (tmp_col >= ncol) | (tmp_row < 0) | (tmp_row >= nrow):\n                valid_neighbors[direction] = np.nan", "new": "if (tmp_col < 0) | (tmp_col > ncol) | (tmp_row < 0) | (tmp_row >= nrow):\n                valid_neighbors[direction] = np.nan"},
    {"id": "drop-found-test", "file": I, "old": "                        if not np.isnan(filled_value):\n                            out_disp[col, row] = filled_value\n                            # Update the validity mask : Information : filled mismatch\n                            out_val[col, row] -= cst.PANDORA_MSK_PIXEL_MISMATCH\n                            out_val[col, row] |= cst.PANDORA_MSK_PIXEL_FILLED_MISMATCH", "new": "                        if True:\n                            out_disp[col, row] = filled_value\n                            # Update the validity mask : Information : filled mismatch\n                            out_val[col, row] -= cst.PANDORA_MSK_PIXEL_MISMATCH\n                            out_val[col, row] |= cst.PANDORA_MSK_PIXEL_FILLED_MISMATCH"},
    {"id": "remove-mask_border", "file": I, "old": '        if left.attrs["offset_row_col"] > 0:\n            left["validity_mask"] = mask_border(left)\n', "new": ""},
    {"id": "assign-filled-flag", "file": I, "old": "                        out_val[col, row] -= cst.PANDORA_MSK_PIXEL_MISMATCH\n                        out_val[col, row] |= cst.PANDORA_MSK_PIXEL_FILLED_MISMATCH\n\n        return out_disp, out_val\n\n\n@AbstractInterpolation", "new": "                        out_val[col, row] = cst.PANDORA_MSK_PIXEL_FILLED_MISMATCH\n\n        return out_disp, out_val\n\n\n@AbstractInterpolation"},
    {"id": "path-length-min", "file": IMG, "old": "    max_path_length = max(nrow, ncol)\n    # For each direction\n    valid_neighbors", "new": "    max_path_length = min(nrow, ncol)\n    # For each direction\n    valid_neighbors"},
    {"id": "scan-one-step-short", "file": IMG, "old": "        for i in range(max_path_length):  # pylint: disable= unused-variable", "new": "        for _ in range(1, max_path_length):"},
    {"id": "mc-cnn-table-zeros", "file": I, "old": "interp_mismatched = np.full(16, np.nan, dtype=np.float32)", "new": "interp_mismatched = np.zeros(16, dtype=np.float32)"},
    {"id": "sgm-order-swapped", "edits": [(I, ") = self.interpolate_mismatch_sgm(left[\"disparity_map\"].data, left[\"validity_mask\"].data)", ") = self.interpolate_occlusion_sgm__(left[\"disparity_map\"].data, left[\"validity_mask\"].data)"), (I, ") = self.interpolate_occlusion_sgm(left[\"disparity_map\"].data, left[\"validity_mask\"].data)", ") = self.interpolate_mismatch_sgm(left[\"disparity_map\"].data, left[\"validity_mask\"].data)"), (I, "interpolate_occlusion_sgm__(", "interpolate_occlusion_sgm(")]},
    {"id": "fill-left-before-right-check", "file": SM, "old": "            self.right_disparity = validation_.disparity_checking(self.right_disparity, self.left_disparity)\n            # Interpolated mismatch and occlusions\n            if \"interpolated_disparity\" in cfg[\"pipeline\"][input_step]:\n                interpolate_ = validation.AbstractInterpolation(**cfg[\"pipeline\"][input_step])  # type: ignore\n                interpolate_.interpolated_disparity(self.left_disparity)\n                interpolate_.interpolated_disparity(self.right_disparity)", "new": "            if \"interpolated_disparity\" in cfg[\"pipeline\"][input_step]:\n                interpolate_ = validation.AbstractInterpolation(**cfg[\"pipeline\"][input_step])  # type: ignore\n                interpolate_.interpolated_disparity(self.left_disparity)\n            self.right_disparity = validation_.disparity_checking(self.right_disparity, self.left_disparity)\n            if \"interpolated_disparity\" in cfg[\"pipeline\"][input_step]:\n                interpolate_.interpolated_disparity(self.right_disparity)"},
    {"id": "eq-rename-out_val", "kind": "equiv", "file": I, "old": "out_val", "new": "new_flags", "count": 20},
    {"id": "eq-edge-test-or", "kind": "equiv", "file": IMG, "old": "if (tmp_col < 0) | (tmp_col >= ncol) | (tmp_row < 0) | (tmp_row >= nrow):\n                valid_neighbors[direction] = np.nan", "new": "if not (0 <= tmp_col < ncol) or tmp_row < 0 or tmp_row >= nrow:\n                valid_neighbors[direction] = np.nan"},
]
