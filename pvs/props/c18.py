"""C18 -- runs are reproducible and side-effect free whatever the threading."""
from __future__ import annotations

import ast
from typing import Dict, List, Optional, Set, Tuple

from ..astx import calls_in, class_assign, dotted, guards_of, self_attr, src, stmts_of, walk_no_nested
from ..core import AnalysisError, Ctx, PropSpec
from ..effects import program
from ..flow import normal_paths
from ..rules_effects import check_function_effects, rule_inputs
from ..rules_par import rule_prange, rule_switch
from ..rules_sm import MACHINE, SM, machine_methods, run_callbacks, transition_table
from ..sym import canon

MC = "pandora/matching_cost/matching_cost.py"
CC = "pandora/check_configuration.py"

MUTATORS = {"update", "append", "extend", "pop", "clear", "setdefault", "remove", "insert", "popitem", "sort"}


def _is_container(node: ast.AST) -> bool:
    if isinstance(node, (ast.Dict, ast.List, ast.Set)):
        return True
    if isinstance(node, ast.Call) and (dotted(node.func) or "") in ("dict", "list", "set", "defaultdict", "OrderedDict", "collections.defaultdict"):
        return True
    return False


def rule_shared(ctx: Ctx) -> int:
    """Every module-level or class-level mutable container and all its mutation sites."""
    tree = ctx.tree
    prog = program(tree)
    n = 0
    containers: List[Tuple[str, Optional[str], str, ast.AST]] = []  # (rel, class or None, name, node)
    for rel in tree.py_files("pandora"):
        m = tree.module(rel)
        for st in m.body:
            if isinstance(st, (ast.Assign, ast.AnnAssign)):
                tgt = st.targets[0] if isinstance(st, ast.Assign) else st.target
                if isinstance(tgt, ast.Name) and st.value is not None and _is_container(st.value) and tgt.id != "__all__":
                    containers.append((rel, None, tgt.id, st))
        for cq, c in tree.classes(rel).items():
            for st in c.body:
                if isinstance(st, (ast.Assign, ast.AnnAssign)):
                    tgt = st.targets[0] if isinstance(st, ast.Assign) else st.target
                    if isinstance(tgt, ast.Name) and st.value is not None and _is_container(st.value):
                        containers.append((rel, cq, tgt.id, st))
    ctx.count("shared_containers", len(containers))
    # mutation sites: any function of the package that writes X[...] / calls X.mutator() where X denotes the container
    for rel, cls, name, node in containers:
        sites = []
        fam = None
        if cls is not None:
            fam = [(rel, cls)] + prog.subclasses(rel, cls)
        for (frel, fq), fn in prog.funcs.items():
            denotes: Set[str] = set()
            fcls = fq.rpartition(".")[0]
            in_family = fam is not None and any((frel, fcls) == f or fcls.startswith(f[1] + ".") and frel == f[0] for f in fam)
            if cls is None:
                if frel == rel:
                    denotes.add(name)
                else:
                    imp = prog.imports.get(frel, {})
                    for local, (mod, sym) in imp.items():
                        if sym == name and prog._mod_to_rel(mod) == rel:
                            denotes.add(local)
            else:
                if in_family:
                    denotes |= {f"self.{name}", f"cls.{name}"}
                denotes.add(f"{cls}.{name}")
                for f in fam or []:
                    denotes.add(f"{f[1]}.{name}")
            if not denotes:
                continue
            # local aliases: x = self.schema
            aliases = set(denotes)
            for st in walk_no_nested(fn):
                if isinstance(st, ast.Assign) and len(st.targets) == 1 and isinstance(st.targets[0], ast.Name) and canon(st.value) in denotes:
                    aliases.add(st.targets[0].id)
            # a local of the same name shadows a module-level container
            if cls is None and frel == rel and any(isinstance(st, ast.Assign) and any(isinstance(t, ast.Name) and t.id == name for t in st.targets) for st in walk_no_nested(fn)):
                continue
            for st in walk_no_nested(fn):
                if isinstance(st, (ast.Assign, ast.AugAssign)):
                    for t in st.targets if isinstance(st, ast.Assign) else [st.target]:
                        if isinstance(t, ast.Subscript):
                            base = t.value
                            while isinstance(base, ast.Subscript):
                                base = base.value
                            if canon(base) in aliases:
                                sites.append((frel, fq, fn, st, t))
                if isinstance(st, ast.Expr) and isinstance(st.value, ast.Call) and isinstance(st.value.func, ast.Attribute) and st.value.func.attr in MUTATORS:
                    base = st.value.func.value
                    while isinstance(base, ast.Subscript):
                        base = base.value
                    if canon(base) in aliases:
                        sites.append((frel, fq, fn, st, st.value))
        label = f"{cls + '.' if cls else ''}{name}"
        if not sites:
            n += 1
            ctx.ob("C18.SHARED", rel, node, f"{label}: shared container, never mutated", True)
            continue
        # classify
        reg = [s for s in sites if ".register_subclass." in s[1] or s[1].endswith("register_subclass.decorator")]
        other = [s for s in sites if s not in reg]
        for frel, fq, fn, st, t in reg:
            n += 1
            ctx.ob("C18.SHARED", frel, st, f"{label}: import-time registration `{src(st)[:80]}`", True)
        if not other:
            continue
        # overwrite-before-use discipline: per function, the set of keys written unconditionally; all writers agree
        per_fn: Dict[Tuple[str, str], Set[str]] = {}
        for frel, fq, fn, st, t in other:
            n += 1
            keys: Set[str] = set()
            uncond = not guards_of(st, stop=fn)
            if isinstance(t, ast.Subscript) and isinstance(t.slice, ast.Constant):
                keys.add(f"{canon(t.value)}[{t.slice.value!r}]")
            elif isinstance(t, ast.Call) and t.func.attr == "update" and t.args:
                # X[...].update(Y[...]) : keys of the variants -- all variants must have the same key set
                ks = _update_keys(tree, frel, fn, t)
                if ks is None:
                    uncond = False
                else:
                    keys |= {f"{canon(t.func.value)}[{k!r}]" for k in ks}
            else:
                uncond = False
            ctx.ob("C18.SHARED", frel, st, f"{label}: `{src(st)[:90]}` in {fq} overwrites a fixed key unconditionally", uncond, detail=f"{label} is shared by every machine (and, for the matching-cost schema, by the sibling measure classes) in the process: a conditional or non-constant mutation makes the result of a check depend on what was checked before", expected="each writer overwrites the same fixed key set on every call, before use")
            per_fn.setdefault((frel, fq), set()).update(_norm_keys(keys))
        sets = {frozenset(v) for v in per_fn.values()}
        n += 1
        ctx.ob("C18.SHARED", rel, node, f"{label}: writers {sorted(q for _, q in per_fn)} overwrite the same keys {sorted(sorted(s) for s in sets)}", len(sets) == 1, detail=f"the writers of the shared container {label} do not overwrite the same key set: an entry written by one of them (e.g. one measure's tighter rule) survives into the checks of the others, so the outcome depends on the history of the process", expected="every writer overwrites exactly the same keys")
    return n


def _norm_keys(keys: Set[str]) -> Set[str]:
    out = set()
    for k in keys:
        # schema['window_size'] whatever the alias is called
        out.add(k[k.index("[") :] if "[" in k else k)
    return out


def _update_keys(tree, rel: str, fn: ast.AST, call: ast.Call) -> Optional[Set[str]]:
    """X['left'].update(base['left']) where base is one of several module-level dict literals: the key set
    common to all candidates (None when they differ or cannot be resolved)."""
    from ..astx import const_eval, module_assign
    from ..defuse import Defs

    arg = call.args[0]
    if not (isinstance(arg, ast.Subscript) and isinstance(arg.slice, ast.Constant) and isinstance(arg.value, ast.Name)):
        return None
    side = arg.slice.value
    d = Defs(fn)
    cands = [canon(x[1]) for x in d.all_defs(arg.value.id)]
    ks: List[Set[str]] = []
    for c in cands:
        node = module_assign(tree, rel, c)
        if not isinstance(node, ast.Dict):
            return None
        for k, v in zip(node.keys, node.values):
            if isinstance(k, ast.Constant) and k.value == side and isinstance(v, ast.Dict):
                ks.append({kk.value for kk in v.keys if isinstance(kk, ast.Constant)})
    if not ks or any(k != ks[0] for k in ks) or len(ks) != len(cands):
        return None
    return ks[0]


PER_CONFIG = {"step", "right_disp_map", "pipeline_cfg", "margins"}
LIB_ATTRS = {"state", "trigger", "add_transitions", "remove_transition", "set_state", "events", "machine"}


def rule_reset(ctx: Ctx) -> int:
    """Per-run machine attributes read by a run callback are definitely assigned earlier in the same run."""
    tree = ctx.tree
    meths = machine_methods(tree)
    rows, _ = transition_table(tree, "_transitions_run")
    rp = meths["run_prepare"]
    # attributes assigned on every normal path of run_prepare / on the multiscale branch only
    paths = normal_paths(rp)
    assigned_all: Optional[Set[str]] = None
    assigned_multi: Set[str] = set()
    for p in paths:
        got = {self_attr(e[2]) for e in p.events if e[0] == "store" and self_attr(e[2])}
        for e in p.events:
            if e[0] == "store" and isinstance(e[2], (ast.Tuple, ast.List)):
                got |= {self_attr(x) for x in e[2].elts if self_attr(x)}
        multi = any(e[0] == "test" and e[2] and "num_scales" in src(e[1]) and ">" in src(e[1]) for e in p.events)
        if multi:
            assigned_multi |= got
        assigned_all = got if assigned_all is None else assigned_all & got
    assigned_all = assigned_all or set()
    method_names = set(meths)
    cls = tree.cls(SM, MACHINE)
    class_consts = {t.id for st in cls.body if isinstance(st, ast.Assign) for t in st.targets if isinstance(t, ast.Name)}

    def rw(fn: ast.AST) -> Tuple[Set[str], Set[str]]:
        """(attributes read before being written in fn, attributes written)"""
        events = []
        for n in ast.walk(fn):
            a = self_attr(n)
            if a:
                events.append((n.lineno, n.col_offset, isinstance(n.ctx, ast.Store), a, n))
        events.sort(key=lambda e: (e[0], e[1]))
        written: Set[str] = set()
        read_first: Set[str] = set()
        # an Assign evaluates its value before its targets
        for st in walk_no_nested(fn):
            pass
        for ln, col, is_store, a, node in events:
            if is_store:
                par = getattr(node, "_parent", None)
                written.add(a)
            else:
                if a not in written:
                    read_first.add(a)
        # x = f(self.x): the read precedes the write although the target comes first textually
        for st in walk_no_nested(fn):
            if isinstance(st, ast.Assign):
                tg = {self_attr(t) for tt in st.targets for t in ast.walk(tt) if self_attr(t)}
                rd = {self_attr(n) for n in ast.walk(st.value) if self_attr(n)}
                for a in tg & rd:
                    earlier = any(self_attr(n) == a and isinstance(n.ctx, ast.Store) and (n.lineno, n.col_offset) < (st.lineno, st.col_offset) for n in ast.walk(fn))
                    if not earlier:
                        read_first.add(a)
        return read_first, written

    # availability along the automaton: begin --matching_cost--> cost_volume --disparity--> disp_map
    w_of: Dict[str, Set[str]] = {}
    r_of: Dict[str, Set[str]] = {}
    for r in rows:
        for k in ("prepare", "after"):
            cb = r.get(k)
            if isinstance(cb, str) and cb in meths:
                rf, w = rw(meths[cb])
                r_of[cb], w_of[cb] = rf, w
    by_trigger = {r["trigger"]: r for r in rows}
    mc_w = set()
    for k in ("prepare", "after"):
        cb = by_trigger.get("matching_cost", {}).get(k)
        if cb in w_of:
            mc_w |= w_of[cb]
    dsp_w = set()
    cb = by_trigger.get("disparity", {}).get("after")
    if cb in w_of:
        dsp_w |= w_of[cb]
    n = 0
    for r in rows:
        avail = set(assigned_all) | PER_CONFIG | LIB_ATTRS | method_names | class_consts
        if r["source"] in ("cost_volume", "disp_map"):
            avail |= mc_w
        if r["source"] == "disp_map":
            avail |= dsp_w
        order = [r.get("prepare"), r.get("after")]
        acc: Set[str] = set()
        for cb in order:
            if not isinstance(cb, str) or cb not in meths:
                continue
            n += 1
            need = r_of[cb] - avail - acc
            if r["trigger"] == "multiscale" or cb == "matching_cost_prepare":
                need -= assigned_multi  # multiscale-only attributes, assigned on the branch that makes the multiscale transition fire
            # attributes read and written under the same right-pass guard are produced by the mirrored pass of the preceding steps
            need = {a for a in need if not (a.startswith("right_") and (a in mc_w or a in dsp_w or a in assigned_all))}
            ctx.ob("C18.RESET", SM, meths[cb], f"{cb}: per-run attributes read before being written {sorted(r_of[cb] - PER_CONFIG - method_names - LIB_ATTRS - class_consts)} are assigned earlier in the same run", not need, detail=f"{sorted(need)} is read by {cb} but neither run_prepare nor a callback that necessarily precedes it in the same run assigns it: the value comes from a previous run on this machine (a product leaking from one run into the next)", expected="assigned by run_prepare on every path, or by the matching_cost / disparity callbacks that precede this step")
            acc |= w_of[cb]
    # run_prepare itself must not read per-run state before writing it
    rf, _ = rw(rp)
    bad = rf - PER_CONFIG - LIB_ATTRS - method_names - class_consts
    n += 1
    ctx.ob("C18.RESET", SM, rp, f"run_prepare reads no per-run state of a previous run (reads before write: {sorted(bad)})", not bad, detail="run_prepare starts from what the previous run left on the machine")
    return n



def rule_cfg_idempotent(ctx: Ctx) -> int:
    """A store into the configuration made at run time must not depend on what the same entry held before: the
    configuration object outlives the run (it is the caller's, and it is run again), so a read-modify-write of one of
    its entries accumulates from run to run.  Local aliases of a sub-dictionary (`step_cfg = cfg["pipeline"][step]`)
    denote the configuration too; `setdefault` / `+=` / `.update(x | old)` are read-modify-writes."""
    from ..defuse import Defs
    from ..rules_sm import SM, machine_methods

    tree = ctx.tree
    n = 0
    for name, fn in sorted(machine_methods(tree).items()):
        if not (name.endswith("_run") or name in ("run", "run_prepare", "run_exit", "run_multiscale")):
            continue
        params = [a.arg for a in fn.args.args]
        if "cfg" not in params:
            continue
        d = Defs(fn)

        def root_is_cfg(node: ast.AST, depth: int = 4) -> bool:
            while isinstance(node, ast.Subscript):
                node = node.value
            if isinstance(node, ast.Name):
                if node.id == "cfg":
                    return True
                if depth > 0:
                    return any(pos is None and isinstance(v, (ast.Subscript, ast.Name)) and root_is_cfg(v, depth - 1) for _, v, pos in d.all_defs(node.id))
            return False

        def full_path(node: ast.AST) -> str:
            return canon(d.expand(node, node, depth=3, stop=("cfg",)))

        for st in walk_no_nested(fn):
            # read-modify-write method calls on the configuration
            if isinstance(st, ast.Expr) and isinstance(st.value, ast.Call) and isinstance(st.value.func, ast.Attribute) and st.value.func.attr in ("setdefault",) and root_is_cfg(st.value.func.value):
                n += 1
                ctx.ob("C18.CFG-IDEMPOTENT", SM, st, f"{name}: `{src(st)[:90]}` overwrites the entry with a value that does not depend on its previous content", False, expected="an unconditional overwrite", detail="setdefault keeps what an earlier run left in the configuration entry")
                continue
            if not isinstance(st, (ast.Assign, ast.AugAssign)):
                continue
            for t in st.targets if isinstance(st, ast.Assign) else [st.target]:
                if not (isinstance(t, ast.Subscript) and root_is_cfg(t)):
                    continue
                n += 1
                path = full_path(t)
                val = d.expand(st.value, st, depth=4, stop=("cfg",))
                reads = [x for x in ast.walk(val) if (isinstance(x, ast.Subscript) and full_path(x) == path) or (isinstance(x, ast.Attribute) and x.attr in ("get", "setdefault", "pop") and full_path(x.value) == full_path(t.value))]
                ok = not reads and not isinstance(st, ast.AugAssign)
                ctx.ob("C18.CFG-IDEMPOTENT", SM, st, f"{name}: `{src(st)[:90]}` overwrites the entry with a value that does not depend on its previous content", ok, expected="an overwrite computed from the step name / constants only", detail=f"the stored value reads `{canon(reads[0])[:80] if reads else path}`, i.e. what an earlier run left in the same configuration entry: products (here a band name) differ between the first and the second run with the same checked configuration")
    return n



def rule_aliased_init(ctx: Ctx) -> int:
    """`a = b = <expr>` binds both targets to ONE object: harmless for immutable constants, an aliasing bug for anything
    that is filled in place later (datasets, arrays, lists, dicts)."""
    tree = ctx.tree
    pos = ast.parse("def f(self):\n    self.a = self.b = xr.Dataset()\n").body[0]
    if not any(isinstance(n, ast.Assign) and len(n.targets) > 1 and not isinstance(n.value, ast.Constant) for n in ast.walk(pos)):
        raise AnalysisError("C18.ALIASED-INIT: positive example no longer recognised")
    n = 0
    for rel in tree.py_files("pandora"):
        for q, fn in sorted(tree.funcs(rel).items()):
            n += 1
            for st in walk_no_nested(fn):
                if isinstance(st, ast.Assign) and len(st.targets) > 1:
                    v = st.value
                    immut = isinstance(v, ast.Constant) or (isinstance(v, ast.UnaryOp) and isinstance(v.operand, ast.Constant)) or (dotted(v) or "") in ("np.nan", "np.inf", "None", "True", "False")
                    ctx.ob("C18.ALIASED-INIT", rel, st, f"{q}: `{src(st)[:90]}` binds {len(st.targets)} targets to one {'immutable constant' if immut else 'object'}", immut, expected="one constructor call per target", detail="the targets denote the same mutable object: what one step stores in the first shows up in the second (e.g. left products in the right dataset), across steps and runs")
    return n

def run(ctx: Ctx) -> None:
    tree = ctx.tree
    n = rule_prange(ctx, "C18.PRANGE")
    ctx.floor("C18.PRANGE", n, 6)
    n = rule_switch(ctx, "C18.SWITCH")
    ctx.floor("C18.SWITCH", n, 6)
    n = rule_shared(ctx)
    ctx.floor("C18.SHARED", n, 15)
    n = rule_reset(ctx)
    ctx.floor("C18.RESET", n, 10)
    n = rule_inputs(ctx, "C18.INPUTS")
    ctx.floor("C18.INPUTS", n, 10)
    from .c11 import rule_stateless

    n = rule_stateless(ctx, "C18.STATELESS", None)
    ctx.floor("C18.STATELESS", n, 100)
    ctx.floor("C18.CFG-IDEMPOTENT", rule_cfg_idempotent(ctx), 1)
    from ..rules_par import rule_ieee

    ctx.floor("C18.IEEE", rule_ieee(ctx, "C18.IEEE"), 12)
    from ..rules_par import rule_float_arange

    ctx.floor("C18.ARANGE(kernels)", rule_float_arange(ctx, "C18.ARANGE"), 12)
    ctx.floor("C18.ALIASED-INIT(functions)", rule_aliased_init(ctx), 200)
    for key in (
        "pandora/aggregation/cbca.py::CrossBasedCostAggregation.cost_volume_aggregation",
        "pandora/matching_cost/sad_ssd.py::SadSsd.compute_cost_volume",
        "pandora/matching_cost/census.py::Census.compute_cost_volume",
        "pandora/matching_cost/zncc.py::Zncc.compute_cost_volume",
        "pandora/matching_cost/matching_cost.py::AbstractMatchingCost.cv_masked",
        "pandora/criteria.py::validity_mask",
        "pandora/img_tools.py::prepare_pyramid",
        "pandora/img_tools.py::fill_nodata_image",
        "pandora/img_tools.py::convert_pyramid_to_dataset",
        "pandora/img_tools.py::shift_right_img",
        "pandora/img_tools.py::compute_mean_raster",
        "pandora/img_tools.py::compute_std_raster",
        "pandora/img_tools.py::census_transform",
        "pandora/disparity/disparity.py::WinnerTakesAll.to_disp",
        "pandora/multiscale/fixed_zoom_pyramid.py::FixedZoomPyramid.disparity_range",
    ):
        check_function_effects(ctx, "C18.EFFECTS", key)
    prog = program(tree)
    ctx.extra["call_sites_resolved"] = prog.resolved
    ctx.extra["call_sites_unresolved_library_calls"] = prog.unresolved
    ctx.extra["effect_fixpoint_iterations"] = getattr(prog, "iterations", None)


SPEC = PropSpec(
    pid="C18",
    title="Runs are reproducible and side-effect free whatever the threading",
    explanation=(
        "Four static arguments. (1) Schedule independence: for each of the outermost numba prange loops of the package, every store to an array that exists before the loop has the "
        "prange variable as its first subscript (one iteration = one slice), arrays written are read at the iteration's own index only, no variable defined before the loop is assigned or "
        "accumulated inside (no hidden reduction), scratch arrays are allocated inside the body; two documented exceptions are recognised structurally (stores of one same literal into an array "
        "that the loop never reads; an indirect index through a table keyed by the prange variable, whose rows are assumed disjoint). Every such kernel carries "
        "parallel=literal_eval(os.environ.get('PANDORA_NUMBA_PARALLEL', 'True')). (2) No history-dependent shared state: every module-level or class-level mutable container is listed with all its "
        "mutation sites (resolved through self./cls./Class./import aliases); a site is an import-time registration, or belongs to an overwrite-before-use group whose writers all overwrite the same fixed "
        "key set unconditionally. (3) Per-run machine attributes read by a run callback are definitely assigned earlier in the same run (run_prepare on every path, or the callbacks that precede it on "
        "every accepted word of the automaton). (4) Inputs: the effect summaries (alias analysis, bottom-up to a fixpoint over the resolved call graph) show no in-place write to the caller's datasets "
        "from pandora.run, from any run callback through self.left_img / self.right_img / the pyramids, nor from the image-processing helpers the anchors name."
    ),
    rule_text="instances: 10 prange loops (each store/read/assignment in their bodies), 9 parallel kernels, every shared container and mutation site, 11 run callbacks + run_prepare, 15 effect summaries + the input closure",
    run=run,
    not_decided=["determinism of third-party kernels (scipy.ndimage.zoom, skimage pyramid_gaussian, numpy reductions)", "bit-identity of numba's own parallel reductions (none is used: checked by the 'no accumulation' rule)", "disjointness of the segments addressed by graph_regularization (stated assumption)"],
    trusted=["numba: only the outermost prange of a nest is parallel; variables first assigned in the body are private", "numpy/xarray aliasing model of pvs.effects"],
)

RISK = "pandora/cost_volume_confidence/risk.py"
AMB = "pandora/cost_volume_confidence/ambiguity.py"
MUTANTS = [
    {"id": "eta-samples-by-float-arange", "file": "pandora/cost_volume_confidence/risk.py", "old": "        etas = _eta_min + np.arange(nb_etas) * _eta_step\n", "new": "        etas = np.arange(_eta_min, _eta_max, _eta_step)\n", "count": 2},
    {"id": "switched-kernel-cached-on-disk", "file": "pandora/cost_volume_confidence/interval_bounds.py", "old": '        parallel=literal_eval(os.environ.get("PANDORA_NUMBA_PARALLEL", "True")),\n', "new": '        parallel=literal_eval(os.environ.get("PANDORA_NUMBA_PARALLEL", "True")),\n        cache=True,\n', "count": 1},
    {"id": "left-and-right-outputs-share-one-dataset", "file": "pandora/state_machine.py", "old": "        self.left_disparity = xr.Dataset()\n        self.right_disparity = xr.Dataset()\n", "new": "        self.left_disparity = self.right_disparity = xr.Dataset()\n"},
    {"id": "indicator-through-alias-setdefault-plus-equal", "file": "pandora/state_machine.py", "old": '        cfg["pipeline"][input_step]["indicator"] = ""\n        if "." in input_step:\n            cfg["pipeline"][input_step]["indicator"] = "." + input_step.split(".", 1)[1]\n', "new": '        step_cfg = cfg["pipeline"][input_step]\n        step_cfg.setdefault("indicator", "")\n        if "." in input_step:\n            step_cfg["indicator"] += "." + input_step.split(".", 1)[1]\n'},
    {"id": "eq-indicator-through-alias-overwrite", "kind": "equiv", "file": "pandora/state_machine.py", "old": '        cfg["pipeline"][input_step]["indicator"] = ""\n        if "." in input_step:\n            cfg["pipeline"][input_step]["indicator"] = "." + input_step.split(".", 1)[1]\n', "new": '        step_cfg = cfg["pipeline"][input_step]\n        step_cfg["indicator"] = ""\n        if "." in input_step:\n            step_cfg["indicator"] = "." + input_step.split(".", 1)[1]\n'},
    {"id": "kernel-compiled-with-fastmath", "file": "pandora/cost_volume_confidence/ambiguity.py", "old": '    @njit(\n        "f4[:, :](f4[:, :, :], f4, f4, f4)",\n', "new": '    @njit(\n        "f4[:, :](f4[:, :, :], f4, f4, f4)",\n        fastmath=True,\n'},
    {"id": "indicator-suffix-appended-to-previous", "file": "pandora/state_machine.py", "old": '        cfg["pipeline"][input_step]["indicator"] = ""\n        if "." in input_step:\n            cfg["pipeline"][input_step]["indicator"] = "." + input_step.split(".", 1)[1]\n', "new": '        indicator = cfg["pipeline"][input_step].get("indicator", "")\n        if "." in input_step:\n            indicator += "." + input_step.split(".", 1)[1]\n        cfg["pipeline"][input_step]["indicator"] = indicator\n'},
    {"id": "eq-indicator-computed-in-a-local", "kind": "equiv", "file": "pandora/state_machine.py", "old": '        cfg["pipeline"][input_step]["indicator"] = ""\n        if "." in input_step:\n            cfg["pipeline"][input_step]["indicator"] = "." + input_step.split(".", 1)[1]\n', "new": '        indicator = ""\n        if "." in input_step:\n            indicator = "." + input_step.split(".", 1)[1]\n        cfg["pipeline"][input_step]["indicator"] = indicator\n'},
    {"id": "median-caches-last-result-on-self", "file": "pandora/filter/median.py", "old": "        disp_median = self.median_filter(masked_data)\n", "new": "        disp_median = self.median_filter(masked_data)\n        self._last = disp_median\n"},
    {"id": "ambiguity-row0", "file": AMB, "old": "                    ambiguity[row, col] = etas.shape[0] * nb_disps\n", "new": "                    ambiguity[0, col] = etas.shape[0] * nb_disps\n", "count": 2},
    {"id": "shared-scalar-accumulator", "edits": [(AMB, "        ambiguity = np.zeros((n_row, n_col), dtype=np.float32)\n", "        ambiguity = np.zeros((n_row, n_col), dtype=np.float32)\n        total = 0.0\n", 2), (AMB, "                if np.isnan(normalized_min_cost):\n                    ambiguity[row, col] = etas.shape[0] * nb_disps\n", "                total += normalized_min_cost\n                if np.isnan(normalized_min_cost):\n                    ambiguity[row, col] = etas.shape[0] * nb_disps\n", 2)]},
    {"id": "hard-coded-parallel", "file": "pandora/refinement/refinement.py", "old": '    @njit(parallel=literal_eval(os.environ.get("PANDORA_NUMBA_PARALLEL", "True")))\n    def loop_refinement(', "new": "    @njit(parallel=True)\n    def loop_refinement("},
    {"id": "scratch-hoisted", "edits": [(RISK, "        risk_min = np.zeros((n_row, n_col), dtype=np.float32)\n", "        risk_min = np.zeros((n_row, n_col), dtype=np.float32)\n        min_disp = np.zeros(etas.shape[0])\n        max_disp = np.zeros(etas.shape[0])\n", 2), (RISK, "                    min_disp = np.zeros(etas.shape[0])\n                    max_disp = np.zeros(etas.shape[0])\n", "", 2)]},
    {"id": "zncc-keeps-window-rule", "file": "pandora/matching_cost/zncc.py", "old": '        schema["window_size"] = And(int, lambda input: input > 0 and (input % 2) != 0)\n', "new": ""},
    {"id": "census-adds-subpix-rule", "file": "pandora/matching_cost/census.py", "old": '        schema["window_size"] = And(int, lambda input: input in (3, 5))\n', "new": '        schema["window_size"] = And(int, lambda input: input in (3, 5))\n        schema["subpix"] = And(int, lambda input: input in (1, 2, 4))\n'},
    {"id": "cache-left_cv-across-runs", "file": SM, "old": "        self.left_cv = self.matching_cost_.allocate_cost_volume(self.left_img, (self.disp_min, self.disp_max), cfg)\n", "new": "        if self.left_cv is None:\n            self.left_cv = self.matching_cost_.allocate_cost_volume(self.left_img, (self.disp_min, self.disp_max), cfg)\n"},
    {"id": "cbca-masks-input-image", "file": "pandora/aggregation/cbca.py", "old": 'left_masked = np.copy(img_left["im"].data)', "new": 'left_masked = np.asarray(img_left["im"].data, dtype=np.float32)'},
    {"id": "fill-nodata-in-place", "file": "pandora/img_tools.py", "old": '            img = dataset["im"].data.copy()\n            msk = dataset["msk"].data.copy()', "new": '            img = dataset["im"].data\n            msk = dataset["msk"].data'},
    {"id": "filter-cached-on-class", "edits": [("pandora/filter/median.py", "    _FILTER_SIZE = 3\n", "    _FILTER_SIZE = 3\n    _cache: Dict = {}\n"), ("pandora/filter/median.py", "        self._filter_size = cast(int, self.cfg[\"filter_size\"])\n", "        self._filter_size = cast(int, self.cfg[\"filter_size\"])\n        if cfg.get(\"filter_size\"):\n            self._cache[\"last\"] = self._filter_size\n")]},
    {"id": "eq-private-empty", "kind": "equiv", "edits": [(RISK, "                    min_disp = np.zeros(etas.shape[0])\n                    max_disp = np.zeros(etas.shape[0])\n", "                    min_disp = np.empty(etas.shape[0])\n                    max_disp = np.empty(etas.shape[0])\n", 2)]},
    {"id": "eq-schema-local-copy", "kind": "equiv", "file": "pandora/matching_cost/zncc.py", "old": "        schema = self.schema\n", "new": "        schema = dict(self.schema)\n"},
]
