"""C20 -- reported margins are a pure, monotone function of the checked pipeline."""
from __future__ import annotations

import ast
from typing import Dict, List, Optional

from ..astx import calls_in, class_assign, dotted, guards_of, src, stmts_of, walk_no_nested
from ..core import AnalysisError, Ctx, PropSpec
from ..defuse import Defs
from ..rules_sm import MACHINE, SM, machine_methods, transition_table
from ..sym import canon, poly

MG = "pandora/margins/margins.py"
DS = "pandora/margins/descriptors.py"
INIT = "pandora/__init__.py"

# step family -> (file, abstract class, descriptor expression expected on the class, kind)
FAMILIES = {
    "matching_cost": ("pandora/matching_cost/matching_cost.py", "AbstractMatchingCost", "HalfWindowMargins()", "cumulative"),
    "optimization": ("pandora/optimization/optimization.py", "AbstractOptimization", "UniformMargins(40)", "cumulative"),
    "aggregation": ("pandora/aggregation/aggregation.py", "AbstractAggregation", "NullMargins()", "cumulative"),
    "disparity": ("pandora/disparity/disparity.py", "AbstractDisparity", "NullMargins()", "cumulative"),
    "refinement": ("pandora/refinement/refinement.py", "AbstractRefinement", "NullMargins()", "cumulative"),
    "filter": ("pandora/filter/filter.py", "AbstractFilter", "NullMargins()", "non-cumulative"),
}
NO_MARGIN = ["semantic_segmentation", "validation", "multiscale", "cost_volume_confidence"]


def _prop_return(tree, rel: str, cls: str) -> Optional[ast.AST]:
    fn = tree.func(rel, f"{cls}.margins")
    return fn


def run(ctx: Ctx) -> None:
    tree = ctx.tree
    # ---- descriptors on the abstract classes
    for fam, (rel, cls, want, _) in FAMILIES.items():
        c = tree.cls(rel, cls)
        v = class_assign(c, "margins")
        ctx.ob("C20.DESCRIPTORS", rel, v if v is not None else c, f"{cls}.margins = {canon(v) if v is not None else '?'}", v is not None and canon(v) == want, expected=want, detail=f"the documented margin of the {fam} step")
        # no concrete subclass of a fixed-margin family overrides it (filters do, on purpose)
        if fam != "filter":
            from ..effects import program

            for srel, scls in program(tree).subclasses(rel, cls):
                ov = class_assign(tree.cls(srel, scls), "margins") is not None or tree.has_func(srel, f"{scls}.margins")
                ctx.ob("C20.DESCRIPTORS", srel, tree.cls(srel, scls), f"{scls} does not override the {fam} margins", not ov, detail="a built-in method reports another margin than the documented one of its step")
    # descriptor classes
    hw = tree.func(DS, "HalfWindowMargins.__get__")
    d = Defs(hw)
    vd = d.all_defs("value")
    okh = bool(vd) and canon(vd[0][1]) in ("int(-1/2 + 1/2*instance.__dict__['_window_size'])", "((-1 + instance.__dict__['_window_size']) // (2))", "int(-1/2 + 1/2*instance._window_size)", "((-1 + instance._window_size) // (2))")
    ctx.ob("C20.DESCRIPTORS", DS, vd[0][0] if vd else hw, f"HalfWindowMargins: value = {canon(vd[0][1]) if vd else '?'}", okh, expected="int((window_size - 1) / 2)", detail="the matching-cost margin is half the matching window")
    rets = [n for n in walk_no_nested(hw) if isinstance(n, ast.Return) and isinstance(n.value, ast.Call)]
    ctx.ob("C20.DESCRIPTORS", DS, rets[-1] if rets else hw, f"HalfWindowMargins returns {canon(rets[-1].value) if rets else '?'}", bool(rets) and canon(rets[-1].value) == "Margins(value, value, value, value)", expected="Margins(value, value, value, value)")
    um = tree.func(DS, "UniformMargins.__init__")
    sc = [c for c in calls_in(um) if isinstance(c.func, ast.Attribute) and c.func.attr == "__init__"]
    ctx.ob("C20.DESCRIPTORS", DS, sc[0] if sc else um, f"UniformMargins: {src(sc[0]) if sc else '?'}", bool(sc) and [canon(a) for a in sc[0].args] == ["value"] * 4, expected="super().__init__(value, value, value, value)")
    nm = tree.func(DS, "NullMargins.__init__")
    sc = [c for c in calls_in(nm) if isinstance(c.func, ast.Attribute) and c.func.attr == "__init__"]
    ctx.ob("C20.DESCRIPTORS", DS, sc[0] if sc else nm, f"NullMargins: {src(sc[0]) if sc else '?'}", bool(sc) and [canon(a) for a in sc[0].args] == ["0"], expected="super().__init__(0)")
    fm = tree.func(DS, "FixedMargins.__init__")
    st = [s for s in walk_no_nested(fm) if isinstance(s, ast.Assign) and canon(s.targets[0]) == "self.value"]
    ctx.ob("C20.DESCRIPTORS", DS, st[0] if st else fm, f"FixedMargins: {src(st[0]) if st else '?'}", bool(st) and canon(st[0].value) == "Margins(left, up, right, down)", expected="Margins(left, up, right, down)")
    # filters
    for rel, cls, want in (("pandora/filter/median.py", "MedianFilter", "self._filter_size*self._step"), ("pandora/filter/median_for_intervals.py", "MedianForIntervalsFilter", "self._filter_size*self._step"), ("pandora/filter/bilateral.py", "BilateralFilter", None)):
        fn = tree.func(rel, f"{cls}.margins")
        ctx.ob("C20.DESCRIPTORS", rel, fn, f"{cls}.margins is a property", any("property" in src(dd) for dd in fn.decorator_list), detail="filter margins are read as an attribute")
        d = Defs(fn)
        rr = [n for n in walk_no_nested(fn) if isinstance(n, ast.Return)]
        val = d.expand(rr[0].value, rr[0], depth=3) if rr else None
        okv = False
        got = canon(val) if val is not None else "?"
        if val is not None and isinstance(val, ast.Call) and (dotted(val.func) or "") == "Margins" and len(val.args) == 4 and len({canon(a) for a in val.args}) == 1:
            a = canon(val.args[0])
            if want is not None:
                okv = poly(val.args[0]) == poly(ast.parse("self._filter_size * self._step", mode="eval").body)
            else:
                okv = poly(val.args[0]) == poly(ast.parse("min(*self._image_shape, int(3 * self._sigma_space + 1)) * self._step", mode="eval").body)
            got = a
        ctx.ob("C20.DESCRIPTORS", rel, rr[0] if rr else fn, f"{cls}.margins = Margins(4 x `{got}`)", okv, expected="filter_size * step" if want else "min(*image_shape, int(3 * sigma_space + 1)) * step", detail="the documented (non-cumulative) margin of this filter")
        init = tree.func(rel, f"{cls}.__init__")
        ss = [s for s in walk_no_nested(init) if isinstance(s, ast.Assign) and canon(s.targets[0]) == "self._step"]
        ctx.ob("C20.DESCRIPTORS", rel, ss[0] if ss else init, f"{cls}: self._step = {canon(ss[0].value) if ss else '?'}", bool(ss) and canon(ss[0].value) == "step", expected="the step given by the state machine")

    # ---- registration in the check callbacks
    meths = machine_methods(tree)
    rows, _ = transition_table(tree, "_transitions_check")
    cb_of = {r["trigger"][len("check_") :]: r.get("after") for r in rows if r["trigger"].startswith("check_")}
    for fam, (rel, cls, want, kind) in FAMILIES.items():
        cb = cb_of.get(fam)
        fn = meths.get(cb) if isinstance(cb, str) else None
        if fn is None:
            raise AnalysisError(f"check callback of {fam} not found")
        step = fn.args.args[2].arg
        adds = [c for c in calls_in(fn) if isinstance(c.func, ast.Attribute) and c.func.attr in ("add_cumulative", "add_non_cumulative") and canon(c.func.value) == "self.margins"]
        wantm = "add_cumulative" if kind == "cumulative" else "add_non_cumulative"
        ok = len(adds) == 1 and adds[0].func.attr == wantm and canon(adds[0].args[0]) == step and canon(adds[0].args[1]).endswith(".margins") and not guards_of(adds[0], stop=fn)
        # the object whose margins are registered is the step object built in this callback
        objs = {canon(s.targets[0]) for s in walk_no_nested(fn) if isinstance(s, ast.Assign) and isinstance(s.value, ast.Call) and (dotted(s.value.func) or "").split(".")[-1].startswith("Abstract")}
        ok = ok and canon(adds[0].args[1])[: -len(".margins")] in objs if adds else False
        ctx.ob("C20.REGISTRATION", SM, adds[0] if adds else fn, f"{cb}: {src(adds[0]) if adds else 'no registration'}", ok, expected=f"self.margins.{wantm}({step}, <step object>.margins), unconditionally", detail=f"the {fam} step must register its margins as {kind}, under the full step name (suffixed steps get their own entry)")
    for fam in NO_MARGIN:
        fn = meths.get(cb_of.get(fam))
        if fn is None:
            continue
        adds = [c for c in calls_in(fn) if isinstance(c.func, ast.Attribute) and c.func.attr in ("add_cumulative", "add_non_cumulative")]
        ctx.ob("C20.REGISTRATION", SM, adds[0] if adds else fn, f"{cb_of.get(fam)}: registers no margin", not adds, detail=f"the {fam} step bears no margin")
    # filters receive the matching-cost step
    fc = meths["filter_check_conf"]
    fcalls = [c for c in calls_in(fc) if (dotted(c.func) or "") == "filter.AbstractFilter"]
    okf = len(fcalls) == 1 and any(k.arg == "step" and canon(k.value) == "self.step" for k in fcalls[0].keywords) and any(k.arg == "image_shape" and canon(k.value) == "(self.left_img.sizes['row'], self.left_img.sizes['col'])" for k in fcalls[0].keywords)
    ctx.ob("C20.REGISTRATION", SM, fcalls[0] if fcalls else fc, "filter_check_conf: AbstractFilter(..., image_shape=(rows, cols), step=self.step)", okf, detail="filter margins are filter size x matching-cost step, bounded by the image shape for bilateral")
    mc = meths["matching_cost_check_conf"]
    ss = [s for s in walk_no_nested(mc) if isinstance(s, ast.Assign) and canon(s.targets[0]) == "self.step"]
    ctx.ob("C20.REGISTRATION", SM, ss[0] if ss else mc, f"matching_cost_check_conf: self.step = {canon(ss[0].value) if ss else '?'}", bool(ss) and canon(ss[0].value).endswith(".cfg['step']"), expected="the completed matching-cost configuration's step")

    # ---- combination
    gm = tree.func(MG, "GlobalMargins.global_margins")
    rr = [n for n in walk_no_nested(gm) if isinstance(n, ast.Return)]
    okg = bool(rr) and canon(rr[0].value) in ("max_margins([self._cumulatives.sum(), *self.non_cumulatives.values()])", "max_margins([self._cumulatives.sum(), *self._non_cumulatives.values()])", "max_margins((self._cumulatives.sum(), *self.non_cumulatives.values(),))")
    ctx.ob("C20.COMBINE", MG, rr[0] if rr else gm, f"global_margins = {canon(rr[0].value) if rr else '?'}", okg, expected="max_margins([cumulatives.sum(), *non_cumulatives.values()])", detail="global margins are, per side, the larger of the sum of the cumulative margins and each non-cumulative one")
    sm = tree.func(MG, "MarginDict.sum")
    rr = [n for n in walk_no_nested(sm) if isinstance(n, ast.Return)]
    ctx.ob("C20.COMBINE", MG, rr[0] if rr else sm, f"MarginDict.sum = {canon(rr[0].value) if rr else '?'}", bool(rr) and canon(rr[0].value) in ("reduce(operator.add, self.data.values(), Margins(0, 0, 0, 0))", "sum(self.data.values(), Margins(0, 0, 0, 0))"), expected="reduce(operator.add, values, Margins(0, 0, 0, 0))")
    ad = tree.func(MG, "Margins.__add__")
    rr = [n for n in walk_no_nested(ad) if isinstance(n, ast.Return)]
    ctx.ob("C20.COMBINE", MG, rr[0] if rr else ad, f"Margins.__add__ = {canon(rr[0].value) if rr else '?'}", bool(rr) and canon(rr[0].value) == "Margins(*map(operator.add, self.astuple(), other.astuple()))", expected="field-wise addition")
    mm = tree.func(MG, "max_margins")
    rr = [n for n in walk_no_nested(mm) if isinstance(n, ast.Return)]
    okm = bool(rr) and canon(rr[-1].value) == "Margins(*map(max, *as_tuple_margins))"
    ctx.ob("C20.COMBINE", MG, rr[-1] if rr else mm, f"max_margins = {canon(rr[-1].value) if rr else '?'}", okm, expected="field-wise maximum")
    pi = tree.func(MG, "Margins.__post_init__")
    tests = [n for n in walk_no_nested(pi) if isinstance(n, ast.If)]
    okp = bool(tests) and canon(tests[0].test) == "any(({[m]<0}) for m in self.astuple())" or (bool(tests) and "< 0" in src(tests[0].test) and any(isinstance(x, ast.Raise) for x in tests[0].body))
    ctx.ob("C20.COMBINE", MG, tests[0] if tests else pi, "Margins.__post_init__ rejects negative values", okp, detail="margins are non-negative")
    # registration is by key assignment (idempotent under the second right/left round)
    for q, store in (("GlobalMargins.add_cumulative", "self._cumulatives[key]"), ("GlobalMargins.add_non_cumulative", "self._non_cumulatives[key]")):
        fn = tree.func(MG, q)
        ss = [s for s in walk_no_nested(fn) if isinstance(s, (ast.Assign, ast.AugAssign)) and canon(s.targets[0] if isinstance(s, ast.Assign) else s.target) == store]
        # the stored `value` must be the parameter itself: a re-binding of `value` before the store (e.g. value = old + value) accumulates just as well
        rebinds = [n for n in ast.walk(fn) if isinstance(n, ast.Name) and n.id == "value" and isinstance(n.ctx, (ast.Store, ast.Del))]
        ok = len(ss) == 1 and isinstance(ss[0], ast.Assign) and canon(ss[0].value) == "value" and not guards_of(ss[0], stop=fn) and not rebinds and "value" in [a.arg for a in fn.args.args]
        ctx.ob("C20.COMBINE", MG, rebinds[0] if rebinds else (ss[0] if ss else fn), f"{q}: {src(ss[0]) if ss else '?'}" + (f" after re-binding `value` at line {rebinds[0].lineno}" if rebinds else ""), ok, expected=f"{store} = value, `value` being the untouched parameter (replace, never accumulate)", detail="the second (right/left) checking round registers every step again: registration must replace the entry, otherwise margins double when a validation step is present")
    td = tree.func(MG, "GlobalMargins.to_dict")
    rr = [n for n in walk_no_nested(td) if isinstance(n, ast.Return)]
    txt = canon(rr[0].value) if rr else ""
    okt = all(k in txt for k in ("'cumulative margins': {s: m.asdict() for s, m in self._cumulatives.items()}", "'non-cumulative margins': {s: m.asdict() for s, m in self._non_cumulatives.items()}", "'global margins': self.global_margins.asdict()"))
    ctx.ob("C20.COMBINE", MG, rr[0] if rr else td, "to_dict exports the three sections", okt, expected="cumulative margins / non-cumulative margins / global margins")
    # a fresh GlobalMargins per machine
    init = tree.func(SM, f"{MACHINE}.__init__")
    ss = [s for s in walk_no_nested(init) if isinstance(s, ast.Assign) and canon(s.targets[0]) == "self.margins"]
    ctx.ob("C20.COMBINE", SM, ss[0] if ss else init, f"PandoraMachine.__init__: {src(ss[0]) if ss else '?'}", bool(ss) and canon(ss[0].value) == "GlobalMargins()", expected="self.margins = GlobalMargins()")
    # main stores the margins in the saved configuration
    mn = tree.func(INIT, "main")
    ss = [s for s in walk_no_nested(mn) if isinstance(s, ast.Assign) and canon(s.targets[0]) == "cfg['margins']"]
    sv = [c for c in calls_in(mn) if (dotted(c.func) or "").endswith("save_config")]
    ok = len(ss) == 1 and canon(ss[0].value) == "pandora_machine.margins.to_dict()" and bool(sv) and ss[0].lineno < sv[0].lineno and "cfg" in [canon(a) for a in sv[0].args]
    ctx.ob("C20.SAVED", INIT, ss[0] if ss else mn, f"main: {src(ss[0]) if ss else 'cfg[margins] missing'} before save_config", ok, expected="cfg['margins'] = pandora_machine.margins.to_dict(); common.save_config(output, cfg)", detail="the command-line run must store the reported margins under 'margins' in the saved configuration")


SPEC = PropSpec(
    pid="C20",
    title="Reported margins are a pure, monotone function of the checked pipeline",
    explanation=(
        "Decided entirely from tables and small arithmetic: each step family's abstract class carries the documented descriptor (HalfWindowMargins = int((window_size-1)/2) on four sides, "
        "UniformMargins(40), NullMargins) and no built-in subclass overrides it; the three filters compute filter_size*step / min(*image_shape, int(3*sigma_space+1))*step (canonical polynomial forms); "
        "each <step>_check_conf registers the margins of the object it builds under the full step name with the documented kind, unconditionally, the other steps register nothing; filters receive "
        "step=self.step and the image shape; global margins = field-wise max of the field-wise sum of the cumulative ones and each non-cumulative one; registration replaces entries by key (idempotent under "
        "the second right/left round), negatives are rejected, to_dict exports the three sections and main stores them under 'margins' before saving."
    ),
    rule_text="instances: 6 margin-bearing families + their subclasses, 3 filter margin properties, 10 check callbacks, the combinators of margins.py, the store in main",
    run=run,
    not_decided=[],
    trusted=["dataclasses.astuple / functools.reduce / operator.add semantics"],
)

MUTANTS = [
    {"id": "uniform-30", "file": "pandora/optimization/optimization.py", "old": "margins = UniformMargins(40)", "new": "margins = UniformMargins(30)"},
    {"id": "aggregation-non-cumulative", "file": SM, "old": "self.margins.add_cumulative(input_step, aggregation_.margins)", "new": "self.margins.add_non_cumulative(input_step, aggregation_.margins)"},
    {"id": "filter-key-constant", "file": SM, "old": "self.margins.add_non_cumulative(input_step, filter_.margins)", "new": 'self.margins.add_non_cumulative("filter", filter_.margins)'},
    {"id": "filter-key-kind", "file": SM, "old": "self.margins.add_non_cumulative(input_step, filter_.margins)", "new": 'self.margins.add_non_cumulative(input_step.split(".")[0], filter_.margins)'},
    {"id": "half-window-plus-one", "file": DS, "old": 'value = int((instance.__dict__["_window_size"] - 1) / 2)', "new": 'value = int(instance.__dict__["_window_size"] / 2) + 1'},
    {"id": "median-without-step", "file": "pandora/filter/median.py", "old": "        value = self._filter_size * self._step\n", "new": "        value = self._filter_size\n"},
    {"id": "bilateral-max", "file": "pandora/filter/bilateral.py", "old": "value = min(*self._image_shape, sigma) * self._step", "new": "value = max(*self._image_shape, sigma) * self._step"},
    {"id": "bilateral-round", "file": "pandora/filter/bilateral.py", "old": "sigma = int(3 * self._sigma_space + 1)", "new": "sigma = round(3 * self._sigma_space) + 1"},
    {"id": "global-sums-non-cumulative", "file": MG, "old": "return max_margins([self._cumulatives.sum(), *self.non_cumulatives.values()])", "new": "return max_margins([self._cumulatives.sum() + self._non_cumulatives.sum()])"},
    {"id": "main-drops-margins", "file": INIT, "old": '    cfg["margins"] = pandora_machine.margins.to_dict()\n', "new": ""},
    {"id": "add_cumulative-accumulates", "file": MG, "old": "        self._cumulatives[key] = value", "new": "        self._cumulatives[key] = self._cumulatives.get(key, Margins(0, 0, 0, 0)) + value"},
    {"id": "add_cumulative-merges-by-rebinding", "file": MG, "old": "        self._cumulatives[key] = value", "new": "        if key in self._cumulatives:\n            value = self._cumulatives[key] + value\n        self._cumulatives[key] = value"},
    {"id": "add_non_cumulative-max-by-rebinding", "file": MG, "old": "        self._non_cumulatives[key] = value", "new": "        if key in self._non_cumulatives:\n            value = max_margins([self._non_cumulatives[key], value])\n        self._non_cumulatives[key] = value"},
    {"id": "refinement-registers-nothing", "file": SM, "old": "        self.margins.add_cumulative(input_step, refinement_.margins)\n", "new": ""},
    {"id": "eq-floor-div", "kind": "equiv", "file": DS, "old": 'value = int((instance.__dict__["_window_size"] - 1) / 2)', "new": 'value = (instance.__dict__["_window_size"] - 1) // 2'},
    {"id": "eq-step-first", "kind": "equiv", "file": "pandora/filter/median.py", "old": "        value = self._filter_size * self._step\n", "new": "        value = self._step * self._filter_size\n"},
]
