"""C04 -- validity flags, NaN costs and invalid disparities tell one coherent story."""
from __future__ import annotations

import ast
import copy
import json
import os
from typing import Dict, List, Optional

from ..astx import calls_in, dotted, enclosing_loops, guards_of, src, stmts_of, walk_no_nested
from ..core import VERIF, AnalysisError, Ctx, PropSpec
from ..defuse import Defs
from ..rules_flags import CONST, MaskTypes, check_flag_stores, flag_constants, flag_name, flags_in, mask_stores
from ..sym import B, boolform, canon, complementary, equivalent, implies

CRIT = "pandora/criteria.py"


def _spec() -> dict:
    with open(os.path.join(VERIF, "spec", "flags.json"), "r", encoding="utf-8") as fh:
        return json.load(fh)


def rule_bits(ctx: Ctx) -> None:
    tree = ctx.tree
    spec = _spec()
    consts = flag_constants(tree)
    mod = tree.module(CONST)
    nodes = {st.targets[0].id: st for st in mod.body if isinstance(st, ast.Assign) and len(st.targets) == 1 and isinstance(st.targets[0], ast.Name)}
    for name, bit in spec["bits"].items():
        ok = consts.get(name) == (1 << bit)
        ctx.ob("C04.BITS", CONST, nodes.get(name), f"{name} = {consts.get(name)!r}", ok, expected=f"1 << {bit} = {1 << bit}", detail="a flag constant is not its documented single bit" if name in consts else "documented flag constant missing")
    inv = 0
    for b in spec["invalid"]:
        inv |= 1 << b
    ctx.ob("C04.BITS", CONST, nodes.get("PANDORA_MSK_PIXEL_INVALID"), f"PANDORA_MSK_PIXEL_INVALID = {consts.get('PANDORA_MSK_PIXEL_INVALID')!r}", consts.get("PANDORA_MSK_PIXEL_INVALID") == inv, expected=f"{inv} = bits {spec['invalid']}", detail="the set of 'invalid' criteria differs from the documented one: consumers skip / keep the wrong pixels")
    known = set(spec["bits"]) | {"PANDORA_MSK_PIXEL_INVALID"}
    allbits = 0
    for b in spec["bits"].values():
        allbits |= 1 << b
    for name, val in consts.items():
        if name not in known:
            # a helper combining documented bits is harmless; a new bit is not
            ctx.ob("C04.BITS", CONST, nodes.get(name), f"{name} = {val}", val & ~allbits == 0, detail="flag constant with an undocumented bit", expected="only combinations of the 12 documented bits")
    vals = [consts.get(n) for n in spec["bits"]]
    ctx.ob("C04.BITS", CONST, None, f"{len(set(vals))} distinct single bits, all < 4096", len(set(vals)) == 12 and all(v is not None and v < 4096 and v & (v - 1) == 0 for v in vals), function="<module>", detail="two criteria share a bit, or a bit >= 4096 exists")
    ctx.floor("C04.BITS", len(consts), 13)


def rule_who_raises(ctx: Ctx) -> int:
    tree = ctx.tree
    spec = _spec()
    consts = flag_constants(tree)
    bit_of = {n: b for n, b in spec["bits"].items()}
    mt = MaskTypes(tree)
    n = 0
    who = {k: v for k, v in spec["who_may_raise"].items() if not k.startswith("_")}
    for rel in tree.py_files("pandora"):
        for q, fn in sorted(tree.funcs(rel).items()):
            for s in mask_stores(tree, mt, rel, fn):
                fl = [f for f in flags_in(s.value, consts) if f != "PANDORA_MSK_PIXEL_INVALID"]
                if s.op == "=" and isinstance(s.value, ast.Call) and (dotted(s.value.func) or "") in ("np.where", "numpy.where"):
                    d = Defs(fn)
                    fl = [f for f in flags_in(d.expand(s.value, s.st, depth=3), consts) if f != "PANDORA_MSK_PIXEL_INVALID"]
                for f in fl:
                    n += 1
                    allowed = who.get(rel, [])
                    ctx.ob("C04.WHO-RAISES", rel, s.st, f"{q}: {s.text()[:150]}", bit_of.get(f) in allowed, detail=f"{rel} touches {f} (bit {bit_of.get(f)}), which the documentation attributes to another step", expected=f"{rel} may only raise bits {allowed}")
    return n


def rule_skip_invalid(ctx: Ctx) -> None:
    tree = ctx.tree
    spec = _spec()
    consts = flag_constants(tree)
    n = 0
    for rel, q in spec["skip_invalid_sites"]:
        fn = tree.func(rel, q)
        tests = []
        for node in walk_no_nested(fn):
            if isinstance(node, ast.BinOp) and isinstance(node.op, ast.BitAnd):
                for a in (node.left, node.right):
                    if flag_name(a, consts) == "PANDORA_MSK_PIXEL_INVALID":
                        tests.append(node)
        n += len(tests)
        ctx.ob("C04.SKIP-INVALID", rel, fn, f"{q}: tests `mask & PANDORA_MSK_PIXEL_INVALID` ({len(tests)} site(s))", bool(tests), detail="this consumer must ignore (or only look at) invalid pixels through PANDORA_MSK_PIXEL_INVALID; the test vanished or uses another constant")
        for t in tests:
            par = getattr(t, "_parent", None)
            # the masked value must be compared with 0 (== / !=), never used as a truth value of another constant
            ok = isinstance(par, ast.Compare) and len(par.ops) == 1 and isinstance(par.ops[0], (ast.Eq, ast.NotEq)) and isinstance(par.comparators[0], ast.Constant) and par.comparators[0].value == 0
            ctx.ob("C04.SKIP-INVALID", rel, t, f"{q}: {src(par)[:120] if par is not None else src(t)}", ok, detail="`mask & INVALID` must be compared with 0")
    ctx.floor("C04.SKIP-INVALID", n, 7)


class _Mirror(ast.NodeTransformer):
    """negative-range branch  <->  positive-range branch of criteria.validity_mask:
    d_max <-> d_min, col[0] + offset <-> col[-1] - offset, < <-> >, <= <-> >=."""

    def __init__(self, dmin: str, dmax: str, offset: str, col: str):
        self.dmin, self.dmax, self.offset, self.col = dmin, dmax, offset, col

    def visit_Name(self, n: ast.Name):
        if n.id == self.dmin:
            return ast.copy_location(ast.Name(id=self.dmax, ctx=n.ctx), n)
        if n.id == self.dmax:
            return ast.copy_location(ast.Name(id=self.dmin, ctx=n.ctx), n)
        if n.id == self.offset:
            return ast.copy_location(ast.UnaryOp(op=ast.USub(), operand=ast.Name(id=self.offset, ctx=ast.Load())), n)
        return n

    def visit_Subscript(self, n: ast.Subscript):
        if isinstance(n.value, ast.Name) and n.value.id == self.col:
            k = n.slice
            if isinstance(k, ast.Constant) and k.value == 0:
                return ast.copy_location(ast.Subscript(value=n.value, slice=ast.UnaryOp(op=ast.USub(), operand=ast.Constant(value=1)), ctx=n.ctx), n)
            if isinstance(k, ast.UnaryOp) and isinstance(k.op, ast.USub) and isinstance(k.operand, ast.Constant) and k.operand.value == 1:
                return ast.copy_location(ast.Subscript(value=n.value, slice=ast.Constant(value=0), ctx=n.ctx), n)
        self.generic_visit(n)
        return n

    def visit_Compare(self, n: ast.Compare):
        self.generic_visit(n)
        flip = {ast.Lt: ast.Gt, ast.Gt: ast.Lt, ast.LtE: ast.GtE, ast.GtE: ast.LtE}
        n.ops = [flip[type(o)]() if type(o) in flip else o for o in n.ops]
        return n


def _where_pred(node: ast.AST) -> Optional[ast.AST]:
    if isinstance(node, ast.Call) and (dotted(node.func) or "") in ("np.where", "numpy.where") and len(node.args) == 1:
        return node.args[0]
    return None


def rule_range_sym(ctx: Ctx) -> None:
    tree = ctx.tree
    fn = tree.func(CRIT, "validity_mask")
    consts = flag_constants(tree)
    body = stmts_of(fn)
    chain = [s for s in body if isinstance(s, ast.If) and any("d_max" in src(s.test) or "d_min" in src(s.test) for _ in [0])]
    top = None
    for s in body:
        if isinstance(s, ast.If) and isinstance(s.test, ast.Compare) and not ("msk" in src(s.test)):
            top = s
            break
    if top is None:
        raise AnalysisError("criteria.validity_mask: sign split on the disparity interval not found")
    # names: d_min, d_max from `d_min, d_max = cv.coords["disp"].data[[0, -1]]`
    dmin = dmax = None
    for s in body:
        if isinstance(s, ast.Assign) and isinstance(s.targets[0], ast.Tuple) and len(s.targets[0].elts) == 2 and "coords['disp']" in canon(s.value):
            dmin, dmax = s.targets[0].elts[0].id, s.targets[0].elts[1].id
            ok = canon(s.value).endswith("[[0, -1]]")
            ctx.ob("C04.RANGE-SYM", CRIT, s, src(s), ok, detail="the global interval must be the first and last disparity of the cost volume", expected="cv.coords['disp'].data[[0, -1]]")
    if dmin is None:
        raise AnalysisError("criteria.validity_mask: d_min, d_max definition not found")
    neg = top
    inner = [s for s in top.orelse if isinstance(s, ast.If)]
    if len(inner) != 1:
        raise AnalysisError("criteria.validity_mask: else-if chain not recognised")
    pos = inner[0]
    zero_body = pos.orelse
    ok1 = equivalent(boolform(neg.test), boolform(ast.parse(f"{dmax} < 0", mode="eval").body)) is None
    ok2 = equivalent(boolform(pos.test), boolform(ast.parse(f"{dmin} > 0", mode="eval").body)) is None
    ctx.ob("C04.RANGE-SYM", CRIT, neg, f"if {src(neg.test)} / elif {src(pos.test)} / else", ok1 and ok2, expected=f"{dmax} < 0 / {dmin} > 0 / else (interval contains 0)", detail="the three-way split on the sign of the global interval is not the documented one")

    def facts(block):
        b1 = None
        b2 = None
        for s in block:
            if isinstance(s, ast.Assign) and isinstance(s.targets[0], ast.Name) and s.targets[0].id == "bit_1":
                b1 = s
            if isinstance(s, ast.AugAssign) and "validity_mask" in src(s.target):
                b2 = s
        return b1, b2

    nb1, nb2 = facts(neg.body)
    pb1, pb2 = facts(pos.body)
    zb1, zb2 = facts(zero_body)
    if None in (nb1, nb2, pb1, pb2, zb1, zb2):
        raise AnalysisError("criteria.validity_mask: bit_1 / bit 2 statements not found in the three branches")
    # variable names used in the predicates
    off = "offset"
    col = "col"
    mir = lambda node: _Mirror(dmin, dmax, off, col).visit(copy.deepcopy(node))  # noqa: E731

    def idx_pred(aug: ast.AugAssign):
        t = aug.target
        sl = t.slice
        if isinstance(sl, ast.Tuple) and len(sl.elts) == 2:
            return _where_pred(sl.elts[1])
        return None

    np1, pp1 = _where_pred(nb1.value), _where_pred(pb1.value)
    np2, pp2, zp2 = idx_pred(nb2), idx_pred(pb2), idx_pred(zb2)
    if None in (np1, pp1, np2, pp2, zp2):
        raise AnalysisError("criteria.validity_mask: np.where predicates not recognised")
    d = equivalent(boolform(mir(np1)), boolform(pp1))
    ctx.ob("C04.RANGE-SYM", CRIT, pb1, f"bit 1: negative `{src(np1)}` mirrors positive `{src(pp1)}`", d is None, detail=f"the two one-sided cases are not mirror images (d_max<->d_min, col[0]+offset<->col[-1]-offset, <<->>): differ at {d}", expected=canon(mir(np1)))
    d = equivalent(boolform(mir(np2)), boolform(pp2))
    ctx.ob("C04.RANGE-SYM", CRIT, pb2, f"bit 2: negative `{src(np2)[:70]}` mirrors positive `{src(pp2)[:70]}`", d is None, detail=f"the two one-sided cases are not mirror images: differ at {d}", expected=canon(mir(np2)))
    d = equivalent(boolform(mir(zp2)), boolform(zp2))
    ctx.ob("C04.RANGE-SYM", CRIT, zb2, f"bit 2 (interval contains 0): `{src(zp2)[:100]}` is its own mirror image", d is None, detail=f"left and right image borders are not treated alike: {d}")
    # inside a branch: 'incomplete' (bit 2) excludes 'missing' (bit 1), and the first conjunct is the complement of bit 1's predicate
    for lab, p1, p2, node in (("negative", np1, np2, nb2), ("positive", pp1, pp2, pb2)):
        okx = implies(boolform(p2), B("not", boolform(p1)))
        ctx.ob("C04.RANGE-SYM", CRIT, node, f"{lab} range: bit 2 set implies bit 1 clear", okx, detail="a column can be flagged both 'range missing' and 'range incomplete'")
    zok = isinstance(zb1.value, ast.Tuple) and len(zb1.value.elts) == 1 and isinstance(zb1.value.elts[0], ast.List) and not zb1.value.elts[0].elts
    ctx.ob("C04.RANGE-SYM", CRIT, zb1, f"interval containing 0: {src(zb1)}", zok, expected="bit_1 = ([],)", detail="when the interval contains 0 no column misses its whole range")
    # the documented bits
    for node, want in ((nb2, "PANDORA_MSK_PIXEL_RIGHT_INCOMPLETE_DISPARITY_RANGE"), (pb2, "PANDORA_MSK_PIXEL_RIGHT_INCOMPLETE_DISPARITY_RANGE"), (zb2, "PANDORA_MSK_PIXEL_RIGHT_INCOMPLETE_DISPARITY_RANGE")):
        ctx.ob("C04.RANGE-SYM", CRIT, node, f"raises {flags_in(node.value, consts)}", flags_in(node.value, consts) == [want], expected=want)
    # bit 1 added once from the branch's bit_1, after the chain
    adds = [s for s in body if isinstance(s, ast.AugAssign) and flags_in(s.value, consts) == ["PANDORA_MSK_PIXEL_RIGHT_NODATA_OR_DISPARITY_RANGE_MISSING"]]
    ok = len(adds) == 1 and canon(adds[0].target).endswith("[(::, bit_1)]") and adds[0].lineno > top.lineno
    ctx.ob("C04.RANGE-SYM", CRIT, adds[0] if adds else fn, "bit 1 added once at [:, bit_1] after the three-way split", ok, detail="bit 1 is not raised exactly on the columns computed by the branch")
    # masks: left then right, each under its own presence test, right receives bit_1
    calls = {dotted(c.func): c for c in calls_in(fn)}
    for name, img in (("allocate_left_mask", "img_left"), ("allocate_right_mask", "img_right")):
        c = calls.get(name)
        if c is None:
            ctx.ob("C04.RANGE-SYM", CRIT, fn, f"{name} called", False, detail="the image mask is no longer turned into flags")
            continue
        gs = guards_of(c, stop=fn)
        okg = len(gs) == 1 and gs[0][1] and canon(gs[0][0]) in (f"{{'msk' in {img}.data_vars}}", f"{{'msk' in {img}}}")
        args = [canon(a) for a in c.args]
        oka = args[:2] == ["cv", img] and (name == "allocate_left_mask" or args[2:] == ["bit_1"])
        ctx.ob("C04.RANGE-SYM", CRIT, c, f"if {src(gs[0][0]) if gs else '?'}: {src(c)}", okg and oka, detail="the mask of the wrong image is used, or the call is no longer conditional on that image having a mask")


def rule_border(ctx: Ctx) -> None:
    tree = ctx.tree
    consts = flag_constants(tree)
    fn = tree.func(CRIT, "mask_border")
    stores = [s for s in walk_no_nested(fn) if isinstance(s, ast.Assign) and "validity_mask" in src(s.targets[0]) and isinstance(s.targets[0], ast.Subscript)]
    # offset definition
    defs = Defs(fn)
    offs = defs.all_defs("offset")
    ok_off = len(offs) == 1 and canon(offs[0][1]).endswith(".attrs['offset_row_col']")
    ctx.ob("C04.BORDER", CRIT, offs[0][0] if offs else fn, f"offset = {canon(offs[0][1]) if offs else '?'}", ok_off, expected="dataset.attrs['offset_row_col']")
    want = {"(:offset:, ::)", "(-offset::, ::)", "(offset:-offset:, :offset:)", "(offset:-offset:, -offset::)"}
    got = {canon(s.targets[0].slice) for s in stores}
    # rows [:o] and [-o:] on all columns + columns on the remaining rows tile the border; accept the transposed tiling too
    want_t = {"(::, :offset:)", "(::, -offset::)", "(:offset:, offset:-offset:)", "(-offset::, offset:-offset:)"}
    full = {"(:offset:, ::)", "(-offset::, ::)", "(::, :offset:)", "(::, -offset::)"}
    ok = got in (want, want_t, full) or want <= got
    ctx.ob("C04.BORDER", CRIT, fn, f"mask_border writes slices {sorted(got)}", ok, expected=f"{sorted(want)}", detail="the four slices do not tile the border of width offset")
    for s in stores:
        ctx.ob("C04.BORDER", CRIT, s, src(s)[:140], flag_name(s.value, consts) == "PANDORA_MSK_PIXEL_LEFT_NODATA_OR_BORDER", detail="border pixels must be *assigned* bit 0 only (erasing previous flags)", expected="= PANDORA_MSK_PIXEL_LEFT_NODATA_OR_BORDER")
    augs = [s for s in walk_no_nested(fn) if isinstance(s, ast.AugAssign)]
    ctx.ob("C04.BORDER", CRIT, fn, "mask_border uses assignment only", not augs, detail="an augmented assignment in mask_border keeps / combines previous flags on border pixels")
    # call sites: guarded by offset > 0, last mask writer of the caller
    mt = MaskTypes(tree)
    n = 0
    for rel in tree.py_files("pandora"):
        for q, f in sorted(tree.funcs(rel).items()):
            for c in calls_in(f):
                if (dotted(c.func) or "").split(".")[-1] != "mask_border" or rel == CRIT and q == "mask_border":
                    continue
                n += 1
                gs = guards_of(c, stop=f)
                d = Defs(f)
                okg = False
                for t, pol in gs:
                    ex = d.expand(t, c, depth=3)
                    bf = canon(ex)
                    if pol and "offset_row_col" in bf and isinstance(t, ast.Compare) and isinstance(t.ops[0], (ast.Gt, ast.NotEq)) and isinstance(t.comparators[0], ast.Constant) and t.comparators[0].value == 0:
                        okg = True
                ctx.ob("C04.BORDER", rel, c, f"{q}: mask_border guarded by offset > 0", okg, detail="with a null offset the slices [:0] / [-0:] cover the whole image: every pixel would be reset to bit 0", expected="if <offset_row_col> > 0")
                later = [s for s in mask_stores(tree, mt, rel, f) if s.st.lineno > c.lineno and not any(x is c for x in ast.walk(s.st))]
                ctx.ob("C04.BORDER", rel, c, f"{q}: mask_border is the last mask writer", not later, detail=f"flags are written after the border reset: `{later[0].text()[:100]}`" if later else "")
    ctx.floor("C04.BORDER(call sites)", n, 2)
    # every function that writes flags of a *step* on a dataset with a window offset resets the border last
    need = [("pandora/matching_cost/matching_cost.py", "AbstractMatchingCost.cv_masked"), ("pandora/validation/validation.py", "CrossCheckingAccurate.disparity_checking"), ("pandora/validation/interpolated_disparity.py", "McCnnInterpolation.interpolated_disparity")]
    for rel, q in need:
        f = tree.func(rel, q)
        has = any((dotted(c.func) or "").split(".")[-1] == "mask_border" for c in calls_in(f))
        ctx.ob("C04.BORDER", rel, f, f"{q} ends with mask_border", has, detail="border pixels may keep flags other than bit 0 after this step")


def run(ctx: Ctx) -> None:
    rule_bits(ctx)
    files = ctx.tree.py_files("pandora")
    n = check_flag_stores(ctx, "C04.FLAG-STORE", files)
    ctx.floor("C04.FLAG-STORE", n, 40)
    n = rule_who_raises(ctx)
    ctx.floor("C04.WHO-RAISES", n, 30)
    rule_skip_invalid(ctx)
    rule_range_sym(ctx)
    rule_border(ctx)
    # mask_invalid_variable_disparity_range is called by cv_masked (bit 1 for all-NaN pixels not yet flagged)
    f = ctx.tree.func("pandora/matching_cost/matching_cost.py", "AbstractMatchingCost.cv_masked")
    c = [x for x in calls_in(f) if (dotted(x.func) or "").split(".")[-1] == "mask_invalid_variable_disparity_range"]
    ctx.ob("C04.ALLNAN", "pandora/matching_cost/matching_cost.py", c[0] if c else f, "cv_masked -> mask_invalid_variable_disparity_range(cost_volume)", len(c) == 1 and not guards_of(c[0], stop=f) and not enclosing_loops(c[0]) and [canon(a) for a in c[0].args] == ["cost_volume"], detail="all-NaN pixels found after the per-pixel interval masking are no longer flagged invalid (flag <-> all-NaN <-> invalid disparity breaks)")
    g = ctx.tree.func(CRIT, "mask_invalid_variable_disparity_range")
    d = Defs(g)
    red = d.all_defs("missing_disparity_range")
    okr = len(red) == 1 and canon(red[0][1]) in ("np.min(indices_nan, axis=2)", "np.all(indices_nan, axis=2)", "indices_nan.all(axis=2)", "np.min(indices_nan, 2)")
    ctx.ob("C04.ALLNAN", CRIT, red[0][0] if red else g, f"missing_disparity_range = {canon(red[0][1]) if red else '?'}", okr, expected="an all-reduction of isnan(cost_volume) over the disparity axis", detail="'no computable cost' must mean every disparity is NaN")


SPEC = PropSpec(
    pid="C04",
    title="Validity flags, NaN costs and invalid disparities tell one coherent story",
    explanation=(
        "Static decision of the structural clauses of C04. (a) pandora/constants.py is evaluated: the 12 named flags are the 12 distinct bits 0..11, "
        "PANDORA_MSK_PIXEL_INVALID is exactly bits {0,1,6,7,8,9}, nothing >= 4096 exists. (b) Every store into a validity mask in the whole package "
        "(mask-typed targets are inferred through the resolved call graph: a `['validity_mask']` variable, a parameter bound to one at a call site, a "
        "copy of one) is classified by operator: assignments of a documented constant, carry-overs and `|=` of one documented flag are fine; `+=`/`-=` "
        "need a structural proof that the bit is clear/set on the written cells (zero-allocated mask with exclusive arms, valid-only index set plus linear "
        "evaluation of the grouped stores, saturating-counter idiom, one slice per distinct coordinate, guarded where-form); an additive store without a "
        "verified proof is a violation. (c) each file only touches the bits the documentation attributes to its step. (d) the ten consumers that must skip "
        "invalid pixels test `mask & PANDORA_MSK_PIXEL_INVALID` against 0. (e) criteria.validity_mask: three-way sign split, negative and positive branches "
        "are mirror images (decided by boolean equivalence after the mirror substitution), bit 2 excludes bit 1. (f) mask_border assigns bit 0 on four "
        "slices tiling the border, is guarded by offset > 0 and is the last mask writer of its callers."
    ),
    rule_text="instances: every flag constant, every mask store of the package (47 today), every (store, flag) pair, every consumer site, the predicates of the three branches of validity_mask, every mask_border call site; non-trivial: an edit of operator, operand, guard or constant changes the verdict",
    run=run,
    not_decided=[
        "that each bit is raised *exactly* when its documented cause holds over the interval (column arithmetic over coordinates: numeric)",
        "invalid flag <=> all costs NaN <=> disparity == invalid_disparity as a relation between three arrays (only its structural supports are checked: C04.ALLNAN here, C03.INVALID)",
    ],
    trusted=["numpy: `a[idx] op= v` with repeated indices applies once; uint16 arithmetic carries between bits", "spec/flags.json transcribed from the property statement and output.rst"],
)

R = "pandora/refinement/refinement.py"
I = "pandora/validation/interpolated_disparity.py"
V = "pandora/validation/validation.py"
MUTANTS = [
    {"id": "refinement-or-to-add", "file": R, "old": "mask[row, col] |= cst.PANDORA_MSK_PIXEL_STOPPED_INTERPOLATION", "new": "mask[row, col] += cst.PANDORA_MSK_PIXEL_STOPPED_INTERPOLATION", "count": 2},
    {"id": "filled-mismatch-or-to-add", "file": I, "old": "out_val[col, row] |= cst.PANDORA_MSK_PIXEL_FILLED_MISMATCH", "new": "out_val[col, row] += cst.PANDORA_MSK_PIXEL_FILLED_MISMATCH", "count": 2},
    {"id": "invalid-loses-bit6", "file": CONST, "old": "PANDORA_MSK_PIXEL_INVALID = 0b01111000011", "new": "PANDORA_MSK_PIXEL_INVALID = 0b01110000011"},
    {"id": "bit11-is-bit12", "file": CONST, "old": "PANDORA_MSK_PIXEL_INTERVAL_REGULARIZED = 1 << 11", "new": "PANDORA_MSK_PIXEL_INTERVAL_REGULARIZED = 1 << 12"},
    {"id": "mask_border-adds", "file": CRIT, "old": 'dataset["validity_mask"].data[:offset, :] = cst.PANDORA_MSK_PIXEL_LEFT_NODATA_OR_BORDER', "new": 'dataset["validity_mask"].data[:offset, :] |= cst.PANDORA_MSK_PIXEL_LEFT_NODATA_OR_BORDER'},
    {"id": "drop-bit_1-exclusion", "file": CRIT, "old": "        no_data_right[:, bit_1[0]] = 0\n", "new": ""},
    {"id": "literal-or-8", "file": R, "old": "                            mask[row, col] |= cst.PANDORA_MSK_PIXEL_STOPPED_INTERPOLATION\n\n        return itp_coeff, disp, mask\n\n    @staticmethod", "new": "                            mask[row, col] |= 8\n\n        return itp_coeff, disp, mask\n\n    @staticmethod"},
    {"id": "negative-branch-lt-to-le", "file": CRIT, "old": "bit_1 = np.where((col + d_max) < (col[0] + offset))", "new": "bit_1 = np.where((col + d_max) <= (col[0] + offset))"},
    {"id": "unguard-variable-range", "file": CRIT, "old": "    cv[\"validity_mask\"].data[missing_range_y, missing_range_x] = np.where(\n        condition_to_mask, masking_value, no_masking_value\n    )", "new": "    cv[\"validity_mask\"].data[missing_range_y, missing_range_x] = masking_value"},
    {"id": "counter-compared-with-constant", "file": CRIT, "old": "np.where(b_2_7 == len(range(d_min, d_max + 1)))", "new": "np.where(b_2_7 >= 1)"},
    {"id": "crosscheck-on-all-pixels", "file": V, "old": "(dataset_left[\"validity_mask\"].data[row, :] & cst.PANDORA_MSK_PIXEL_INVALID) == 0)", "new": "(dataset_left[\"validity_mask\"].data[row, :] & cst.PANDORA_MSK_PIXEL_LEFT_NODATA_OR_BORDER) == 0)"},
    {"id": "median-filter-writes-bit3", "file": "pandora/filter/median.py", "old": '        disp.attrs["filter"] = "median"', "new": '        disp["validity_mask"].data[valid] |= cst.PANDORA_MSK_PIXEL_STOPPED_INTERPOLATION\n        disp.attrs["filter"] = "median"'},
    {"id": "mask_border-unguarded", "file": "pandora/matching_cost/matching_cost.py", "old": "        if offset > 0:\n            mask_border(cost_volume)", "new": "        mask_border(cost_volume)"},
    {"id": "interp-sub-unguarded", "file": I, "old": "                if valid[col, row] & cst.PANDORA_MSK_PIXEL_MISMATCH != 0:\n                    # Mismatched pixel areas", "new": "                if valid[col, row] & cst.PANDORA_MSK_PIXEL_INVALID != 0:\n                    # Mismatched pixel areas"},
    {"id": "allnan-any-instead-of-all", "file": CRIT, "old": "missing_disparity_range = np.min(indices_nan, axis=2)", "new": "missing_disparity_range = np.max(indices_nan, axis=2)"},
    {"id": "bilateral-skips-wrong-const", "file": "pandora/filter/bilateral.py", "old": "cst.PANDORA_MSK_PIXEL_INVALID) != 0)] = np.nan", "new": "cst.PANDORA_MSK_PIXEL_OCCLUSION) != 0)] = np.nan"},
    {"id": "eq-invalid-as-or-of-names", "kind": "equiv", "file": CONST, "old": "PANDORA_MSK_PIXEL_INVALID = 0b01111000011\n", "new": "PANDORA_MSK_PIXEL_INVALID = (1 << 0) | (1 << 1) | (1 << 6) | (1 << 7) | (1 << 8) | (1 << 9)\n"},
    {"id": "eq-where-or-form", "kind": "equiv", "file": CRIT, "old": "        + cst.PANDORA_MSK_PIXEL_RIGHT_NODATA_OR_DISPARITY_RANGE_MISSING\n    )", "new": "        | cst.PANDORA_MSK_PIXEL_RIGHT_NODATA_OR_DISPARITY_RANGE_MISSING\n    )"},
    {"id": "eq-rename-counter", "kind": "equiv", "file": CRIT, "old": "b_2_7", "new": "cnt_masked", "count": 5},
    {"id": "eq-positive-branch-rewritten", "kind": "equiv", "file": CRIT, "old": "bit_1 = np.where((col + d_min) > (col[-1] - offset))", "new": "bit_1 = np.where((col[-1] - offset) < (d_min + col))"},
]
