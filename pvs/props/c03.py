"""C03 -- winner-takes-all picks each pixel's best cost inside its disparity interval."""
from __future__ import annotations

import ast
from typing import List, Optional

from ..astx import calls_in, dotted, guards_of, src, stmts_of, walk_no_nested
from ..core import AnalysisError, Ctx, PropSpec
from ..defuse import Defs
from ..flow import normal_paths
from ..rules_blocks import check_block_nest
from ..rules_effects import check_function_effects
from ..sym import boolform, canon, equivalent

D = "pandora/disparity/disparity.py"
Q = "WinnerTakesAll.to_disp"


def _is_inf(node: ast.AST, sign: int) -> bool:
    if sign < 0:
        return isinstance(node, ast.UnaryOp) and isinstance(node.op, ast.USub) and (dotted(node.operand) or "") in ("np.inf", "numpy.inf", "math.inf")
    if isinstance(node, ast.UnaryOp) and isinstance(node.op, ast.UAdd):
        node = node.operand
    return (dotted(node) or "") in ("np.inf", "numpy.inf", "math.inf")


def run(ctx: Ctx) -> None:
    tree = ctx.tree
    fn = tree.func(D, Q)
    cvp = fn.args.args[1].arg
    defs = Defs(fn)
    CV = f"{cvp}['cost_volume'].data"

    # --- NaN index set
    nan_defs = defs.all_defs("indices_nan")
    # find the name of the isnan mask, whatever it is called
    nan_name = None
    for name, ds in defs.defs.items():
        for st, val, pos in ds:
            if pos is None and canon(val) == f"np.isnan({CV})":
                nan_name = name
    if nan_name is None:
        # the mask is whatever name indexes the substitution / restore stores `CV[<name>] = ...`: its definition must be the NaN test
        idx = [st.targets[0].slice.id for st in ast.walk(fn) if isinstance(st, ast.Assign) and isinstance(st.targets[0], ast.Subscript) and canon(st.targets[0].value) == CV and isinstance(st.targets[0].slice, ast.Name)]
        cands = [(name, st, val) for name in dict.fromkeys(idx) for st, val, pos in defs.all_defs(name) if pos is None]
        if cands:
            name, st, val = cands[0]
            ctx.ob("C03.SUBST", D, st, f"{name} = {canon(val)}", False, expected=f"np.isnan({CV})", detail="the cells substituted by +/-inf for the search and restored to NaN afterwards must be exactly the NaN (non-computable) costs: any other mask (e.g. ~np.isfinite) rewrites genuine cost values of the volume and changes which pixels count as having no computable cost")
            return
        raise AnalysisError("to_disp: `indices_nan = np.isnan(cv['cost_volume'].data)` not found")
    nd = defs.all_defs(nan_name)
    ctx.ob("C03.SUBST", D, nd[0][0], f"{nan_name} = np.isnan({CV}), assigned once", len(nd) == 1, detail="the set of non-computable costs is re-bound: substitution and restore may act on different cells")

    # --- SUBST pairing
    branch = None
    for st in stmts_of(fn):
        if isinstance(st, ast.If) and "type_measure" in src(st.test):
            branch = st
    if branch is None:
        raise AnalysisError("to_disp: branch on type_measure not found")
    is_max = equivalent(boolform(branch.test), boolform(ast.parse(f"{cvp}.attrs['type_measure'] == 'max'", mode="eval").body)) is None
    is_min = equivalent(boolform(branch.test), boolform(ast.parse(f"{cvp}.attrs['type_measure'] == 'min'", mode="eval").body)) is None
    ctx.ob("C03.SUBST", D, branch, f"if {src(branch.test)}", is_max or is_min, expected="cv.attrs['type_measure'] == 'max' (or == 'min')", detail="the branch must discriminate similarity (max) from dissimilarity (min) measures")
    arms = {"max": branch.body if is_max else branch.orelse, "min": branch.orelse if is_max else branch.body}
    for kind, body in arms.items():
        sign = -1 if kind == "max" else +1
        sub = [s for s in body if isinstance(s, ast.Assign) and isinstance(s.targets[0], ast.Subscript) and canon(s.targets[0].value) == CV]
        oks = len(sub) == 1 and canon(sub[0].targets[0].slice) == nan_name and _is_inf(sub[0].value, sign)
        ctx.ob("C03.SUBST", D, sub[0] if sub else branch, f"{kind}-type measure: {src(sub[0]) if sub else 'no substitution'}", oks, expected=f"{CV}[{nan_name}] = {'-' if sign < 0 else ''}np.inf", detail="non-computable costs must be replaced by the value that can never win (-inf for a maximum, +inf for a minimum)")
        want = "argmax_split" if kind == "max" else "argmin_split"
        calls = [c for s in body for c in calls_in(s) if isinstance(c.func, ast.Attribute) and c.func.attr in ("argmax_split", "argmin_split")]
        okc = len(calls) == 1 and calls[0].func.attr == want and [canon(a) for a in calls[0].args] == [cvp]
        ctx.ob("C03.SUBST", D, calls[0] if calls else branch, f"{kind}-type measure: {src(calls[0]) if calls else 'no split call'}", okc, expected=f"self.{want}({cvp})", detail="the extremum searched must match the type of measure")

    # --- RESTORE on every normal path
    def is_cv_store(e, value_pred):
        return e[0] == "store" and isinstance(e[2], ast.Subscript) and canon(e[2].value) == CV and value_pred(e[1].value)

    np_ = normal_paths(fn)
    ctx.floor("C03.RESTORE(paths)", len(np_), 2)
    for p in np_:
        subs = [i for i, e in enumerate(p.events) if is_cv_store(e, lambda v: _is_inf(v, 1) or _is_inf(v, -1))]
        rest = [i for i, e in enumerate(p.events) if is_cv_store(e, lambda v: (dotted(v) or "") in ("np.nan", "numpy.nan", "np.NaN", "math.nan")) and canon(e[2].slice) == nan_name]
        rebinds = [i for i, e in enumerate(p.events) if e[0] == "store" and isinstance(e[2], ast.Name) and e[2].id == nan_name]
        ok = bool(subs) and bool(rest) and rest[-1] > subs[-1] and not any(subs[0] < r for r in rebinds[1:]) and len(rebinds) == 1
        others = [i for i, e in enumerate(p.events) if e[0] == "store" and isinstance(e[2], ast.Subscript) and canon(e[2].value) == CV and i not in subs and i not in rest]
        tests = "; ".join(("" if e[2] else "not ") + src(e[1])[:40] for e in p.events if e[0] == "test")
        ctx.ob("C03.RESTORE", D, fn, f"path [{tests}]: NaN restored after the substitution", ok and not others, expected=f"{CV}[{nan_name}] = np.nan after the last substitution, same index set", detail="the step does not leave the cost volume values unchanged on this path (the temporary +/-inf stay, or another in-place write exists)")
    n = check_function_effects(ctx, "C03.EFFECTS", f"{D}::{Q}")
    ctx.floor("C03.EFFECTS", n, 3)
    for q in ("WinnerTakesAll.argmin_split", "WinnerTakesAll.argmax_split"):
        from ..effects import program

        s = program(tree).summary(D, q)
        bad = [w for w in s.writes if w.root == s.params[0]]
        ctx.ob("C03.EFFECTS", D, tree.func(D, q), f"{q}: no in-place effect on its cost volume", not bad, detail=f"`{bad[0].text}` writes the cost volume" if bad else "")

    # --- INVALID: all-NaN pixels receive the configured invalid_disparity
    red = None
    for name, ds in defs.defs.items():
        for st, val, pos in ds:
            if pos is None and isinstance(val, ast.Call) and nan_name in [canon(a) for a in val.args] and "axis" in src(val) or (pos is None and isinstance(val, ast.Call) and isinstance(val.func, ast.Attribute) and canon(val.func.value) == nan_name):
                red = (name, st, val)
    if red is None:
        ctx.ob("C03.INVALID", D, fn, "all-NaN reduction over the disparity axis", False, detail="pixels with no computable cost are no longer detected")
    else:
        name, st, val = red
        ok = canon(val) in (f"np.min({nan_name}, axis=2)", f"np.all({nan_name}, axis=2)", f"{nan_name}.all(axis=2)", f"np.min({nan_name}, 2)", f"np.all({nan_name}, 2)", f"{nan_name}.min(axis=2)")
        ctx.ob("C03.INVALID", D, st, src(st), ok, expected=f"np.min / np.all of {nan_name} over axis 2", detail="a pixel is without computable cost iff *all* its costs are NaN (np.max / np.any would invalidate every pixel with one NaN)")
        st_inv = [s for s in stmts_of(fn) if isinstance(s, ast.Assign) and isinstance(s.targets[0], ast.Subscript) and canon(s.targets[0].value).endswith("['disparity_map'].data") and "invalid" in src(s.value)]
        oki = False
        if st_inv:
            idx = canon(defs.expand(st_inv[0].targets[0].slice, st_inv[0], depth=2, stop=(name,)))
            oki = idx in (f"np.where({name})", name) and canon(st_inv[0].value) == "self._invalid_disparity"
        ctx.ob("C03.INVALID", D, st_inv[0] if st_inv else fn, src(st_inv[0])[:120] if st_inv else "invalid store", oki, expected=f"disp_map['disparity_map'].data[np.where({name})] = self._invalid_disparity", detail="pixels with no computable cost must receive exactly the configured invalid_disparity")
    init = tree.func(D, "WinnerTakesAll.__init__")
    iv = [s for s in walk_no_nested(init) if isinstance(s, ast.Assign) and canon(s.targets[0]) == "self._invalid_disparity"]
    ctx.ob("C03.INVALID", D, iv[0] if iv else init, src(iv[0]) if iv else "self._invalid_disparity", bool(iv) and canon(iv[0].value) == "self.cfg['invalid_disparity']", expected="self.cfg['invalid_disparity']")

    # --- BLOCKS
    for q, red_fn in (("WinnerTakesAll.argmin_split", "np.argmin"), ("WinnerTakesAll.argmax_split", "np.argmax")):
        check_block_nest(ctx, "C03.BLOCKS", D, q, start="0")
        f = tree.func(D, q)
        d2 = Defs(f)
        cvq = f.args.args[0].arg
        stores = [s for s in walk_no_nested(f) if isinstance(s, ast.Assign) and isinstance(s.targets[0], ast.Subscript) and isinstance(s.targets[0].slice, ast.Tuple)]
        for s in stores:
            v = s.value
            ok = isinstance(v, ast.Subscript) and canon(v.value) == f"{cvq}.coords['disp'].data" and isinstance(v.slice, ast.Call) and (dotted(v.slice.func) or "") == red_fn and (canon(v.slice).endswith("axis=2)") or canon(v.slice).endswith(", 2)"))
            ctx.ob("C03.BLOCKS", D, s, f"{q}: value = {canon(v)[:110]}", ok, expected=f"{cvq}.coords['disp'].data[{red_fn}(<block>, axis=2)]", detail="the winner must be the first extremum along the disparity axis (axis 2), mapped through the disparity coordinate (ties -> lowest disparity because the axis is ascending)")
        # output allocated with the two spatial extents of the cost volume, returned
        rets = [n for n in walk_no_nested(f) if isinstance(n, ast.Return)]
        outn = stores[0].targets[0].value.id if stores and isinstance(stores[0].targets[0].value, ast.Name) else None
        okr = bool(rets) and all(canon(r.value) == outn for r in rets)
        ctx.ob("C03.BLOCKS", D, rets[0] if rets else f, f"{q}: returns {canon(rets[0].value) if rets else '?'}", okr, expected=outn or "the filled map")
        alloc = d2.all_defs(outn) if outn else []
        shp = [st for st in walk_no_nested(f) if isinstance(st, ast.Assign) and isinstance(st.targets[0], ast.Tuple) and canon(st.value) == f"{cvq}['cost_volume'].shape"]
        oka = False
        if alloc and shp:
            n0, n1 = canon(shp[0].targets[0].elts[0]), canon(shp[0].targets[0].elts[1])
            oka = canon(alloc[0][1]).startswith(f"np.zeros(({n0}, {n1})") or canon(alloc[0][1]).startswith(f"np.empty(({n0}, {n1})") or canon(alloc[0][1]).startswith(f"np.full(({n0}, {n1})")
        ctx.ob("C03.BLOCKS", D, alloc[0][0] if alloc else f, f"{q}: {src(alloc[0][0])[:90] if alloc else 'allocation'}", oka, expected="output of shape cost_volume.shape[:2]")

    # --- CARRY
    dm = None
    for st in stmts_of(fn):
        if isinstance(st, ast.Assign) and isinstance(st.value, ast.Call) and (dotted(st.value.func) or "") in ("xr.Dataset", "xarray.Dataset") and "disparity_map" in src(st.value):
            dm = st
    if dm is None:
        raise AnalysisError("to_disp: disparity dataset construction not found")
    dmn = dm.targets[0].id
    ex = canon(defs.expand(dm.value, dm, depth=2, stop=("disp",)))
    okd = "'disparity_map': (['row', 'col'], disp)" in ex and f"'row': {cvp}.coords['row']" in ex and f"'col': {cvp}.coords['col']" in ex
    ctx.ob("C03.CARRY", D, dm, f"{src(dm)[:120]}", okd, expected="Dataset({'disparity_map': (['row','col'], disp)}, coords = the cost volume's row/col)", detail="the disparity map must carry the winner array on the cost volume's grid")
    dd = defs.all_defs("disp")
    okdd = bool(dd) and all(isinstance(d[1], ast.Call) and isinstance(d[1].func, ast.Attribute) and d[1].func.attr in ("argmin_split", "argmax_split") for d in dd)
    ctx.ob("C03.CARRY", D, dd[0][0] if dd else fn, "disp comes from argmin_split/argmax_split only", okdd)
    want = {
        f"{dmn}['validity_mask']": [f"copy.deepcopy({cvp}['validity_mask'])", f"{cvp}['validity_mask'].copy(deep=True)"],
        f"{dmn}['confidence_measure']": [f"{cvp}['confidence_measure']", f"{cvp}['confidence_measure'].copy(deep=True)", f"copy.deepcopy({cvp}['confidence_measure'])"],
        f"{dmn}['disparity_interval']": [f"extract_disparity_interval_from_cost_volume({cvp})"],
        f"{dmn}.attrs": [f"{cvp}.attrs"],
    }
    for tgt, vals in want.items():
        sts = [s for s in walk_no_nested(fn) if isinstance(s, ast.Assign) and canon(s.targets[0]) == tgt]
        ok = len(sts) == 1 and canon(sts[0].value) in vals
        det = {"validity_mask": "validity flags must be carried over unaltered, as an independent (deep) copy", "confidence_measure": "confidence bands must be carried over unaltered", "disparity_interval": "the stored interval must be the one of the cost volume", "attrs": "attributes carried over"}[tgt.split("'")[1] if "'" in tgt else "attrs"]
        ctx.ob("C03.CARRY", D, sts[0] if sts else fn, f"{tgt} = {canon(sts[0].value) if sts else '?'}", ok, expected=f"{tgt} = {vals[0]}", detail=det)
        if sts and "confidence_measure" in tgt:
            gs = guards_of(sts[0], stop=fn)
            okg = len(gs) == 1 and gs[0][1] and canon(gs[0][0]) in (f"{{'confidence_measure' in {cvp}.data_vars}}", f"{{'confidence_measure' in {cvp}}}")
            ctx.ob("C03.CARRY", D, sts[0], f"confidence carried iff present: if {src(gs[0][0]) if gs else '?'}", okg)
        elif sts:
            ctx.ob("C03.CARRY", D, sts[0], f"{tgt} carried unconditionally", not guards_of(sts[0], stop=fn))
    rets = [n for n in walk_no_nested(fn) if isinstance(n, ast.Return)]
    ctx.ob("C03.CARRY", D, rets[0] if rets else fn, f"returns {canon(rets[0].value) if rets else '?'}", bool(rets) and all(canon(r.value) == dmn for r in rets), expected=dmn)
    ei = tree.func(D, "extract_disparity_interval_from_cost_volume")
    er = [n for n in walk_no_nested(ei) if isinstance(n, ast.Return)]
    p0 = ei.args.args[0].arg
    txt = canon(Defs(ei).expand(er[0].value, er[0], depth=3)) if er else ""
    oke = f"{p0}.coords['disp'].data[[0, -1]]" in txt and "['min', 'max']" in txt
    ctx.ob("C03.CARRY", D, er[0] if er else ei, f"extract_disparity_interval_from_cost_volume -> {txt[:140]}", oke, expected="coords['disp'].data[[0, -1]] labelled ['min', 'max']", detail="the stored disparity_interval must be the first and last sampled disparities, in (min, max) order")


SPEC = PropSpec(
    pid="C03",
    title="Winner-takes-all picks each pixel's best cost inside its disparity interval",
    explanation=(
        "The numerical work of the disparity step is delegated to numpy.argmin/argmax (first extremum; the disparity axis is ascending, C09.AXIS), so the property "
        "reduces to structural facts that are decided exactly: the NaN -> -inf / +inf substitution is paired with argmax / argmin in the branch on the type of measure and "
        "acts on the single index set isnan(cost_volume); on every acyclic path to a normal exit the NaN are restored on that same index set and no other in-place write to "
        "the cost volume exists (path enumeration + effect summary against the who-may-write matrix); all-NaN pixels are found by an *all*-reduction over axis 2 and receive "
        "self._invalid_disparity = cfg['invalid_disparity']; the two 100x100 block nests obey the cursor discipline (cursors start at 0, advance by the chunk's own extent once "
        "per iteration, column cursor reset per row of blocks, store slices [cursor : cursor + extent], no early exit), reduce over axis 2 and map through the disparity coordinate; "
        "validity mask deep-copied, confidence carried, disparity_interval = first/last disparity labelled min/max."
    ),
    rule_text="instances: the statements of to_disp / argmin_split / argmax_split located by their role (reaching definitions, stores into cost_volume, block nest), every acyclic path of to_disp, the effect summaries",
    run=run,
    not_decided=["numpy.argmin/argmax semantics (trusted: first extremum along the axis)", "'inside the pixel's interval' relies on out-of-interval costs being NaN (C02.NAN-CAUSES / C09.MASKING)"],
    trusted=["numpy.argmin/argmax return the first extremum; np.array_split tolerates split points past the end; slices are clamped"],
)

MUTANTS = [
    {"id": "mask-not-isfinite", "file": D, "old": '        indices_nan = np.isnan(cv["cost_volume"].data)\n\n        # Winner Takes All strategy', "new": '        indices_nan = ~np.isfinite(cv["cost_volume"].data)\n\n        # Winner Takes All strategy'},
    {"id": "swap-inf-signs", "edits": [(D, '            cv["cost_volume"].data[indices_nan] = -np.inf\n            disp = self.argmax_split(cv)', '            cv["cost_volume"].data[indices_nan] = np.inf\n            disp = self.argmax_split(cv)')]},
    {"id": "delete-restore", "file": D, "old": '            disp = self.argmin_split(cv)\n\n        cv["cost_volume"].data[indices_nan] = np.nan\n', "new": '            disp = self.argmin_split(cv)\n\n'},
    {"id": "restore-only-min", "file": D, "old": '            disp = self.argmin_split(cv)\n\n        cv["cost_volume"].data[indices_nan] = np.nan\n', "new": '            disp = self.argmin_split(cv)\n            cv["cost_volume"].data[indices_nan] = np.nan\n\n'},
    {"id": "allnan-max", "file": D, "old": "        invalid_mc = np.min(indices_nan, axis=2)\n        # Pixels where the disparity interval is missing in the right image, have a disparity value invalid_value\n        invalid_pixel = np.where(invalid_mc)\n        disp_map[\"disparity_map\"].data[invalid_pixel] = self._invalid_disparity", "new": "        invalid_mc = np.max(indices_nan, axis=2)\n        # Pixels where the disparity interval is missing in the right image, have a disparity value invalid_value\n        invalid_pixel = np.where(invalid_mc)\n        disp_map[\"disparity_map\"].data[invalid_pixel] = self._invalid_disparity"},
    {"id": "literal-invalid", "file": D, "old": 'disp_map["disparity_map"].data[invalid_pixel] = self._invalid_disparity', "new": 'disp_map["disparity_map"].data[invalid_pixel] = -9999'},
    {"id": "x-advance-wrong-axis", "file": D, "old": "                x_begin += cv_x.shape[1]", "new": "                x_begin += cv_y.shape[1]"},
    {"id": "x-reset-hoisted", "edits": [(D, "        y_begin = 0\n", "        y_begin = 0\n        x_begin = 0\n"), (D, "            x_begin = 0\n", "")]},
    {"id": "argmin-axis-1", "file": D, "old": '].data[np.argmin(cv_x, axis=2)]', "new": '].data[np.argmin(cv_x, axis=1)]'},
    {"id": "shallow-mask-copy", "file": D, "old": 'disp_map["validity_mask"] = copy.deepcopy(cv["validity_mask"])', "new": 'disp_map["validity_mask"] = cv["validity_mask"]'},
    {"id": "skip-block-before-advance", "file": D, "old": "            for row, cv_x in enumerate(cv_chunked_row):  # pylint: disable=unused-variable\n", "new": "            for row, cv_x in enumerate(cv_chunked_row):  # pylint: disable=unused-variable\n                if np.isinf(cv_x).all():\n                    continue\n"},
    {"id": "row-advance-by-inner", "file": D, "old": "            col_begin += cv_y.shape[0]", "new": "            col_begin += cv_x.shape[0]"},
    {"id": "interval-first-two", "file": D, "old": 'cost_volume.coords["disp"].data[[0, -1]]', "new": 'cost_volume.coords["disp"].data[[0, 1]]'},
    {"id": "to_disp-writes-cv-mask", "file": D, "old": '        disp_map["validity_mask"] = copy.deepcopy(cv["validity_mask"])', "new": '        cv["validity_mask"].data[invalid_pixel] |= 2\n        disp_map["validity_mask"] = copy.deepcopy(cv["validity_mask"])'},
    {"id": "eq-np-all", "kind": "equiv", "file": D, "old": "        invalid_mc = np.min(indices_nan, axis=2)\n        # Pixels where the disparity interval is missing in the right image, have a disparity value invalid_value\n        invalid_pixel = np.where(invalid_mc)\n        disp_map[\"disparity_map\"].data[invalid_pixel] = self._invalid_disparity", "new": "        invalid_mc = np.all(indices_nan, axis=2)\n        # Pixels where the disparity interval is missing in the right image, have a disparity value invalid_value\n        invalid_pixel = np.where(invalid_mc)\n        disp_map[\"disparity_map\"].data[invalid_pixel] = self._invalid_disparity"},
    {"id": "eq-chunk-128", "kind": "equiv", "edits": [(D, "np.arange(100, ncol, 100)", "np.arange(128, ncol, 128)", 2), (D, "np.arange(100, nrow, 100)", "np.arange(128, nrow, 128)", 2)]},
    {"id": "eq-rename-cursors", "kind": "equiv", "edits": [(D, "y_begin", "rb", 4), (D, "x_begin", "cb", 4)]},
    {"id": "eq-direct-iteration", "kind": "equiv", "file": D, "old": "            for row, cv_x in enumerate(cv_chunked_x):  # pylint: disable=unused-variable\n", "new": "            for cv_x in cv_chunked_x:\n"},
]
