"""C02 -- cost volume holds the configured similarity measure, NaN where not computable (structural necessary conditions)."""
from __future__ import annotations

import ast
import copy
from typing import Dict, List, Optional

from ..astx import calls_in, dotted, enclosing_loops, guards_of, kwarg, src, stmts_of, walk_no_nested
from ..core import AnalysisError, Ctx, PropSpec
from ..defuse import Defs
from ..rules_effects import check_function_effects
from ..rules_strided import check_as_strided
from ..sym import boolform, canon, complementary, equivalent, poly

MC = "pandora/matching_cost/matching_cost.py"
SAD = "pandora/matching_cost/sad_ssd.py"
CEN = "pandora/matching_cost/census.py"
ZN = "pandora/matching_cost/zncc.py"
IMG = "pandora/img_tools.py"
A = "AbstractMatchingCost"


def _e(t: str) -> ast.AST:
    return ast.parse(t, mode="eval").body


SELECTOR = "int((disp % 1) * self._subpix)"


def rule_skeleton(ctx: Ctx) -> None:
    tree = ctx.tree
    for rel, cls, mtype, left_name in ((SAD, "SadSsd", "min", "img_left"), (CEN, "Census", "min", "left"), (ZN, "Zncc", "max", "img_left")):
        f = tree.func(rel, f"{cls}.compute_cost_volume")
        il, ir, cvp = [a.arg for a in f.args.args][1:4]
        d = Defs(f)
        body = stmts_of(f)
        first = body[0]
        ok = isinstance(first, ast.Expr) and canon(first.value) == f"self.check_band_input_mc({il}, {ir})"
        ctx.ob("C02.SKELETON", rel, first, f"{cls}: band check first: {src(first)[:80]}", ok, expected=f"self.check_band_input_mc({il}, {ir})")
        sh = d.all_defs("img_right_shift")
        ctx.ob("C02.SKELETON", rel, sh[0][0] if sh else f, f"{cls}: img_right_shift = {canon(sh[0][1]) if sh else '?'}", bool(sh) and canon(sh[0][1]) == f"shift_right_img({ir}, self._subpix, self._band)", expected=f"shift_right_img({ir}, self._subpix, self._band)", detail="fractional disparities are matched against the right image resampled at 1/subpix, on the selected band")
        up = [c for c in calls_in(f) if isinstance(c.func, ast.Attribute) and c.func.attr == "update" and canon(c.func.value) == f"{cvp}.attrs"]
        ent = {}
        if up and isinstance(up[0].args[0], ast.Dict):
            ent = {k.value: v for k, v in zip(up[0].args[0].keys, up[0].args[0].values) if isinstance(k, ast.Constant)}
        ctx.ob("C02.MEASURE-TABLE", rel, up[0] if up else f, f"{cls}: type_measure = {canon(ent.get('type_measure')) if ent else '?'}", bool(ent) and canon(ent.get("type_measure")) == repr(mtype), expected=repr(mtype), detail="the reported type of measure decides whether the disparity step takes the minimum or the maximum")
        cm = ent.get("cmax")
        cmx = canon(d.expand(cm, up[0], depth=2)) if cm is not None else "?"
        if cls == "Census":
            okc = cmx == canon(_e("int(self._window_size ** 2)"))
            exp = "window_size ** 2"
        elif cls == "Zncc":
            okc = cmx == "1"
            exp = "1"
        else:
            vals = {canon(g[0][0]): canon(x[1]) for x in d.all_defs("cmax") for g in [guards_of(x[0], stop=f)] if g}
            okc = vals.get(canon(_e("self._method == 'sad'"))) == canon(_e("int(max(abs(max_left - min_right), abs(max_right - min_left)) * (self._window_size ** 2))")) and vals.get(canon(_e("self._method == 'ssd'"))) == canon(_e("int(max(abs(max_left - min_right) ** 2, abs(max_right - min_left) ** 2) * (self._window_size ** 2))"))
            exp = "sad: max|range| * w^2 ; ssd: max|range|^2 * w^2"
            cmx = str(vals)
        ctx.ob("C02.MEASURE-TABLE", rel, up[0] if up else f, f"{cls}: cmax = {cmx[:150]}", okc, expected=exp, detail="the maximal cost must match the measure")
        loops = [l for l in body if isinstance(l, ast.For) and isinstance(l.iter, ast.Call) and (dotted(l.iter.func) or "") == "enumerate" and "disparity_range" in src(l.iter)]
        if not loops:
            raise AnalysisError(f"{cls}.compute_cost_volume: disparity loop not found")
        lp = loops[-1]
        dr = d.all_defs("disparity_range")
        ctx.ob("C02.SKELETON", rel, lp, f"{cls}: for {src(lp.target)} in {src(lp.iter)} with disparity_range = {canon(dr[0][1]) if dr else '?'}", bool(dr) and canon(dr[0][1]) == f"{cvp}.coords['disp'].data" and isinstance(lp.target, ast.Tuple), expected=f"enumerate({cvp}.coords['disp'].data)", detail="one plane per sampled disparity, in axis order")
        di, dv = [canon(e) for e in lp.target.elts] if isinstance(lp.target, ast.Tuple) else ("?", "?")
        pi = [c for c in calls_in(lp) if isinstance(c.func, ast.Attribute) and c.func.attr == "point_interval"]
        sel = canon(_e(SELECTOR.replace("disp", dv)))
        ok = len(pi) == 1 and len(pi[0].args) == 3 and [canon(d.expand(a, pi[0], depth=1, stop=("img_right_shift", left_name, dv))) for a in pi[0].args] == [left_name, f"img_right_shift[{sel}]", dv]
        ctx.ob("C02.SKELETON", rel, pi[0] if pi else lp, f"{cls}: {src(pi[0]) if pi else '?'} with the image index = {canon(d.expand(pi[0].args[1], pi[0], depth=1, stop=('img_right_shift',))) if pi and len(pi[0].args) > 1 else '?'}", ok, expected=f"self.point_interval({left_name}, img_right_shift[{SELECTOR}], {dv})", detail="sub-pixel image number = frac(disparity) * subpix (Python modulo, so -0.25 -> 0.75)")
        uses = [n for n in ast.walk(lp) if isinstance(n, ast.Subscript) and canon(n.value) == "img_right_shift"]
        oku = bool(uses) and all(canon(d.expand(n.slice, n, depth=1, stop=(dv,))) == sel for n in uses)
        ctx.ob("C02.SKELETON", rel, uses[0] if uses else lp, f"{cls}: {len(uses)} uses of img_right_shift[.] inside the loop all select {sel}", oku, expected=SELECTOR)
        st = [s for s in walk_no_nested(lp) if isinstance(s, ast.Assign) and isinstance(s.targets[0], ast.Subscript) and isinstance(s.targets[0].slice, ast.Tuple) and canon(s.targets[0].slice.elts[0]) == di]
        want_hi = "p_std[1]" if cls == "Zncc" else "point_p[1]"
        ok = len(st) == 1 and canon(s_slice(st[0], 1)) == f"point_p[0]:{want_hi}:" and canon(s_slice(st[0], 2)) == "::" and canon(st[0].value).startswith("np.swapaxes(") and canon(st[0].value).endswith(", 0, 1)") and not guards_of(st[0], stop=lp)
        ctx.ob("C02.SKELETON", rel, st[0] if st else lp, f"{cls}: plane store {canon(st[0].targets[0])[:80] if st else '?'}", ok, expected=f"cv[{di}, point_p[0] : {want_hi}, :] = np.swapaxes(<cost>, 0, 1)", detail="the cost of plane k is written on the left columns that have a correspondent at that disparity")
        sw = [x for x in d.all_defs("cv") if canon(x[1]) == "np.swapaxes(cv, 0, 2)"]
        ctx.ob("C02.SKELETON", rel, sw[0][0] if sw else f, f"{cls}: final np.swapaxes(cv, 0, 2)", len(sw) == 1 and sw[0][0].lineno > lp.end_lineno, expected="(disp, col, row) -> (row, col, disp)")
        ic = d.all_defs("index_col")
        ok = len(ic) == 2 and canon(ic[0][1]) == f"{cvp}.attrs['col_to_compute']" and poly(d.expand(ic[1][1], ic[1][0], depth=2, stop=("index_col", il))) == poly(_e(f"index_col - {il}.coords['col'].data[0]"))
        ctx.ob("C02.SKELETON", rel, ic[-1][0] if ic else f, f"{cls}: column selection {[canon(x[1]) for x in ic]}", ok, expected=f"attrs['col_to_compute'] - {il}.coords['col'].data[0]", detail="columns to keep are coordinates: they become array indices only after subtracting the first column coordinate")
        fin = [s for s in body if isinstance(s, ast.Assign) and canon(s.targets[0]) == f"{cvp}['cost_volume'].data"]
        ok = len(fin) == 1 and canon(fin[0].value) == "cv[(::, index_col, ::)]"
        rets = [r for r in walk_no_nested(f) if isinstance(r, ast.Return)]
        ctx.ob("C02.SKELETON", rel, fin[0] if fin else f, f"{cls}: {src(fin[0]) if fin else '?'}; returns {canon(rets[0].value) if rets else '?'}", ok and bool(rets) and canon(rets[0].value) == cvp)
        check_function_effects(ctx, "C02.EFFECTS", f"{rel}::{cls}.compute_cost_volume")
    # cbca and cv_masked use the same selector
    for rel, q, dv, sub in (("pandora/aggregation/cbca.py", "CrossBasedCostAggregation.cost_volume_aggregation", "disparity_range[dsp]", "cv.attrs['subpixel']"), (MC, f"{A}.cv_masked", "disp", "self._subpix")):
        f = tree.func(rel, q)
        dd = Defs(f)
        ds = [x for n in dd.defs for x in dd.all_defs(n) if any(isinstance(m, ast.Mod) for m in ast.walk(x[1]))]
        want = canon(_e(f"int(({dv} % 1) * {sub})"))
        ctx.ob("C02.SKELETON", rel, ds[0][0] if ds else f, f"{q}: sub-pixel selector = {canon(ds[0][1]) if ds else '?'}", len(ds) == 1 and canon(ds[0][1]) == want, expected=want, detail="every consumer of the shifted right images must select them the same way")


def s_slice(st: ast.Assign, i: int) -> ast.AST:
    return st.targets[0].slice.elts[i]


def _anc(node):
    cur = getattr(node, "_parent", None)
    while cur is not None:
        yield cur
        cur = getattr(cur, "_parent", None)


class _LR(ast.NodeTransformer):
    def visit_Name(self, n):
        m = {"img_left": "img_right", "img_right": "img_left", "dilatate_left_mask": "dilatate_right_mask", "dilatate_right_mask": "dilatate_left_mask"}
        if n.id in m:
            return ast.copy_location(ast.Name(id=m[n.id], ctx=n.ctx), n)
        return n


def rule_pixelwise(ctx: Ctx) -> None:
    tree = ctx.tree
    init = tree.func(SAD, "SadSsd.__init__")
    tb = [s for s in walk_no_nested(init) if isinstance(s, ast.Assign) and canon(s.targets[0]) == "self._pixel_wise_methods"]
    ctx.ob("C02.MEASURE-TABLE", SAD, tb[0] if tb else init, f"SadSsd: {src(tb[0]) if tb else '?'}", bool(tb) and canon(tb[0].value) == "{'sad': self.ad_cost, 'ssd': self.sd_cost}", expected="{'sad': self.ad_cost, 'ssd': self.sd_cost}")
    for q, kind in (("SadSsd.ad_cost", "abs"), ("SadSsd.sd_cost", "sq")):
        f = tree.func(SAD, q)
        vals = [x[1] for x in Defs(f).all_defs("cost")]
        ok = bool(vals)
        for v in vals:
            inner = None
            if kind == "abs" and isinstance(v, ast.Call) and (dotted(v.func) or "") in ("abs", "np.abs") and len(v.args) == 1:
                inner = v.args[0]
            if kind == "sq" and isinstance(v, ast.BinOp) and isinstance(v.op, ast.Pow) and canon(v.right) == "2":
                inner = v.left
            if inner is None or not (isinstance(inner, ast.BinOp) and isinstance(inner.op, ast.Sub)):
                ok = False
                continue
            l, r = canon(inner.left), canon(inner.right)
            ok = ok and l.startswith("img_left['im'].data[") and l.endswith("point_p[0]:point_p[1]:)]") and r.startswith("img_right['im'].data[") and r.endswith("point_q[0]:point_q[1]:)]")
        ctx.ob("C02.MEASURE-TABLE", SAD, f, f"{q}: {'|L - R|' if kind == 'abs' else '(L - R)^2'} on left[point_p] and right[point_q] ({len(vals)} band layouts)", ok, expected="abs(left[:, p0:p1] - right[:, q0:q1])" if kind == "abs" else "(left[:, p0:p1] - right[:, q0:q1]) ** 2", detail="absolute (sad) or squared (ssd) difference between the left pixel and its correspondent")
    cc = tree.func(CEN, "Census.census_cost")
    x = Defs(cc).all_defs("xor_")
    ok = bool(x) and isinstance(x[0][1], ast.BinOp) and isinstance(x[0][1].op, ast.BitXor) and canon(x[0][1].left) == "img_left['im'].data[(::, point_p[0]:point_p[1]:)].astype('uint32')" and canon(x[0][1].right) == "img_right['im'].data[(::, point_q[0]:point_q[1]:)].astype('uint32')"
    ctx.ob("C02.MEASURE-TABLE", CEN, x[0][0] if x else cc, f"census_cost: xor of the census transforms at point_p / point_q", ok)
    rets = [r for r in walk_no_nested(cc) if isinstance(r, ast.Return)]
    ctx.ob("C02.MEASURE-TABLE", CEN, rets[0] if rets else cc, f"census_cost returns {canon(rets[0].value) if rets else '?'}", bool(rets) and canon(rets[0].value) == "list(map(self.popcount32b, xor_))", expected="popcount of the xor (Hamming distance)")
    pc = tree.func(CEN, "Census.popcount32b")
    body = [canon_stmt(s) for s in stmts_of(pc)]
    r = pc.args.args[0].arg
    want = [
        canon_stmt(ast.parse(f"{r} -= ({r} >> 1) & 0x55555555").body[0]),
        canon_stmt(ast.parse(f"{r} = ({r} & 0x33333333) + (({r} >> 2) & 0x33333333)").body[0]),
        canon_stmt(ast.parse(f"{r} = ({r} + ({r} >> 4)) & 0x0F0F0F0F").body[0]),
        canon_stmt(ast.parse(f"{r} += {r} >> 8").body[0]),
        canon_stmt(ast.parse(f"{r} += {r} >> 16").body[0]),
        canon_stmt(ast.parse(f"return {r} & 0x7F").body[0]),
    ]
    alt = len(body) == 1 and ("bit_count" in body[0] or ".count('1')" in body[0])
    if len(body) != 6 and not alt:
        raise AnalysisError("popcount32b: neither the SWAR shape nor a bit_count form")
    ctx.ob("C02.CENSUS-BITS", CEN, pc, f"popcount32b: {'; '.join(body)[:200]}", alt or body == want, expected="; ".join(want), detail="the SWAR population count needs its canonical masks (0x55555555, 0x33333333, 0x0F0F0F0F, 0x7F): a mask with a missing nibble drops the bits of one byte (window 5 uses 25 bits)")
    ct = tree.func(IMG, "census_transform")
    d = Defs(ct)
    sh = d.all_defs("shift")
    okb = bool(sh) and canon(sh[0][1]) == canon(_e("(window_size * window_size) - 1")) and any(isinstance(s, ast.AugAssign) and canon(s.target) == "shift" and isinstance(s.op, ast.Sub) and canon(s.value) == "1" for s in walk_no_nested(ct))
    ctx.ob("C02.CENSUS-BITS", IMG, sh[0][0] if sh else ct, "census_transform: bit position starts at w*w - 1 and decreases by one per window cell", okb)
    cmpn = [n for n in walk_no_nested(ct) if isinstance(n, ast.Compare) and "windows[" in src(n)]
    okc = bool(cmpn) and canon(cmpn[0]) == canon(_e("windows[:, :, row, col] > central_pixels[:, :]"))
    cp = d.all_defs("central_pixels")
    okc = okc and bool(cp) and canon(cp[0][1]) == "selected_band[(border:-border:, border:-border:)]"
    bd = d.all_defs("border")
    okc = okc and bool(bd) and canon(bd[0][1]) == canon(_e("int((window_size - 1) / 2)"))
    ctx.ob("C02.CENSUS-BITS", IMG, cmpn[0] if cmpn else ct, f"census_transform: bit = {src(cmpn[0]) if cmpn else '?'} with the window centre", okc, expected="windows[:, :, row, col] > selected_band[border:-border, border:-border] (strict)")
    lps = [l for l in walk_no_nested(ct) if isinstance(l, ast.For)]
    ctx.ob("C02.CENSUS-BITS", IMG, lps[0] if lps else ct, "census_transform: cells visited in row-major order", len(lps) == 2 and [canon(l.iter) for l in lps] == ["range(window_size)", "range(window_size)"] and [l.target.id for l in lps] == ["row", "col"])


def canon_stmt(s: ast.stmt) -> str:
    if isinstance(s, ast.AugAssign):
        return f"{canon(s.target)} {type(s.op).__name__}= {canon(s.value)}"
    if isinstance(s, ast.Assign):
        return f"{canon(s.targets[0])} = {canon(s.value)}"
    if isinstance(s, ast.Return):
        return f"return {canon(s.value)}"
    return src(s)


def rule_zero_var(ctx: Ctx) -> None:
    tree = ctx.tree
    f = tree.func(ZN, "apply_divide_standard")
    z = f.args.args[0].arg
    d = Defs(f)
    dv = d.all_defs("divide_standard")
    ok = bool(dv) and canon(dv[0][1]) in (canon(_e("np.multiply(img_left[:, p_std[0]:p_std[1]], img_right[i_right][:, q_std[0]:q_std[1]])")), canon(_e("img_left[:, p_std[0]:p_std[1]] * img_right[i_right][:, q_std[0]:q_std[1]]")))
    ctx.ob("C02.ZERO-VAR", ZN, dv[0][0] if dv else f, f"divide_standard = {canon(dv[0][1])[:110] if dv else '?'}", ok, expected="std(left window) * std(right window) on the p_std / q_std columns")
    div = [s for s in walk_no_nested(f) if isinstance(s, ast.AugAssign) and isinstance(s.op, ast.Div) and canon(s.target.value if isinstance(s.target, ast.Subscript) else s.target) == z]
    zero = [s for s in walk_no_nested(f) if isinstance(s, ast.Assign) and isinstance(s.targets[0], ast.Subscript) and canon(s.targets[0].value) == z and isinstance(s.value, ast.Constant) and s.value.value == 0]

    def pred_of(idx: ast.AST) -> Optional[ast.AST]:
        ex = d.expand(idx, f.body[-1], depth=2, stop=("divide_standard",))
        if isinstance(ex, ast.Call) and (dotted(ex.func) or "") in ("np.where", "numpy.where") and len(ex.args) == 1:
            return ex.args[0]
        return ex if isinstance(ex, (ast.Compare, ast.BoolOp, ast.UnaryOp, ast.BinOp)) else None

    p_div = pred_of(div[0].target.slice) if div and isinstance(div[0].target, ast.Subscript) else None
    p_zero = pred_of(zero[0].targets[0].slice) if zero else None
    okd = p_div is not None and equivalent(boolform(p_div), boolform(_e("divide_standard > 0"))) is None and canon(div[0].value) == canon(_e(f"divide_standard[{canon(div[0].target.slice)}]")) if div else False
    site = div[0] if div else f
    if not div:
        # the ufunc form: np.divide(zncc, divide_standard, out=zncc, where=<pred>)
        uf = [c for c in calls_in(f) if (dotted(c.func) or "") in ("np.divide", "np.true_divide") and len(c.args) >= 2 and canon(c.args[0]) == z and canon(c.args[1]) == "divide_standard" and canon(kwarg(c, "out")) == z and kwarg(c, "where") is not None]
        if uf:
            p_div = pred_of(kwarg(uf[0], "where"))
            site = uf[0]
            okd = p_div is not None and equivalent(boolform(p_div), boolform(_e("divide_standard > 0"))) is None
    ctx.ob("C02.ZERO-VAR", ZN, site, f"division where {src(p_div) if p_div is not None else '?'}: {src(site)[:90] if site is not f else 'missing'}", bool(okd), expected=f"{z}[divide_standard > 0] /= divide_standard[divide_standard > 0]")
    okz = p_div is not None and p_zero is not None and complementary(boolform(p_div), boolform(p_zero)) is None
    ctx.ob("C02.ZERO-VAR", ZN, zero[0] if zero else f, f"zero where {src(p_zero) if p_zero is not None else '?'}: {src(zero[0])[:90] if zero else 'missing'}", okz, expected=f"{z}[divide_standard <= 0] = 0, the exact complement of the divided set", detail="when a window has zero variance the zncc is 0 by definition: without the explicit zeroing the un-normalised covariance (rounding residue, possibly far outside [-1, 1]) stays in the cost volume while cmax says 1")


def rule_point_interval(ctx: Ctx) -> None:
    tree = ctx.tree
    f = tree.func(MC, f"{A}.point_interval")
    il, ir, dv = [a.arg for a in f.args.args][1:4]
    d = Defs(f)
    pp, pq = d.all_defs("point_p"), d.all_defs("point_q")
    ok = len(pp) == 3 and len(pq) == 3 and canon(pp[0][1]) == canon(_e(f"(max(0 - {dv}, 0), min(nx_left - {dv}, nx_left))")) and canon(pq[0][1]) == canon(_e(f"(max(0 + {dv}, 0), min(nx_right + {dv}, nx_right))"))
    ctx.ob("C02.FLOOR-CEIL", MC, pp[0][0] if pp else f, f"point_interval: point_p = {canon(pp[0][1]) if pp else '?'}; point_q = {canon(pq[0][1]) if pq else '?'}", ok, expected="left columns [max(-d, 0), min(nx - d, nx)), right columns [max(d, 0), min(nx + d, nx))", detail="left columns that have a correspondent at column + d inside the right image (point_p built from -d, point_q from +d)")
    nx = {n: canon(x[1]) for n in ("nx_left", "nx_right") for x in d.all_defs(n)[:1]}
    ctx.ob("C02.FLOOR-CEIL", MC, f, f"point_interval: {nx}", nx == {"nx_left": f"int({il}.sizes['col'])", "nx_right": f"int({ir}.sizes['col'])"})
    br = [s for s in stmts_of(f) if isinstance(s, ast.If)]
    ok = bool(br) and equivalent(boolform(br[0].test), boolform(_e(f"{dv} < 0"))) is None
    if ok:
        neg = {canon(s.targets[0]): canon(s.value) for s in br[0].body if isinstance(s, ast.Assign)}
        pos = {canon(s.targets[0]): canon(s.value) for s in br[0].orelse if isinstance(s, ast.Assign)}
        wn = {p: canon(_e(f"(int(ceil({p}[0])), int(ceil({p}[1])))")) for p in ("point_p", "point_q")}
        wp = {p: canon(_e(f"(int(floor({p}[0])), int(floor({p}[1])))")) for p in ("point_p", "point_q")}
        ok = neg == wn and pos == wp
    ctx.ob("C02.FLOOR-CEIL", MC, br[0] if br else f, "point_interval: negative disparity -> ceil on all four bounds, otherwise floor", ok, detail="for fractional disparities the bounds are rounded towards the side that keeps the correspondent inside the (shifted) right image")
    rets = [r for r in walk_no_nested(f) if isinstance(r, ast.Return)]
    ctx.ob("C02.FLOOR-CEIL", MC, rets[0] if rets else f, f"returns {canon(rets[0].value) if rets else '?'}", bool(rets) and canon(rets[0].value) == "(point_p, point_q)")


def rule_nan_causes(ctx: Ctx) -> None:
    tree = ctx.tree
    f = tree.func(MC, f"{A}.cv_masked")
    il, ir, cvp = [a.arg for a in f.args.args][1:4]
    d = Defs(f)
    adds = [s for s in walk_no_nested(f) if isinstance(s, ast.AugAssign) and isinstance(s.op, ast.Add) and canon(s.target.value if isinstance(s.target, ast.Subscript) else s.target) == f"{cvp}['cost_volume'].data"]
    got = sorted((canon(s.target.slice), canon(s.value)) for s in adds)
    want = sorted([("(::, p_cv, dsp)", "mask_left.data[(::, p_mask)]"), ("(::, p_cv, dsp)", "mask_right[i_mask_right].data[(::, q_mask)]")])
    ctx.ob("C02.NAN-CAUSES", MC, adds[0] if adds else f, f"cv_masked adds {got}", got == want, expected=str(want), detail="a cost is not computable when the left window (left mask at the left column) or the right window (right mask at the corresponding column, sub-pixel mask for fractional disparities) is masked: both masks must be added (NaN-for-bad, 0-for-valid) on the plane of the disparity")
    im = d.all_defs("i_mask_right")
    ctx.ob("C02.NAN-CAUSES", MC, im[0][0] if im else f, f"i_mask_right = {canon(im[0][1]) if im else '?'}", bool(im) and canon(im[0][1]) == "min(1, i_right)", expected="min(1, i_right)")
    pm = {n: canon(x[1]) for n in ("p_mask", "q_mask", "p_cv", "p_0", "q_0") for x in d.all_defs(n)[:1]}
    okp = pm == {"p_mask": "np.arange(p_0, point_p[1], self._step_col)", "q_mask": "np.arange(q_0, point_q[1], self._step_col)", "p_cv": canon(_e("(p_mask / self._step_col).astype(int)")), "p_0": "self.find_nearest_multiple_of_step(point_p[0])", "q_0": "self.find_nearest_multiple_of_step(point_q[0])"}
    ctx.ob("C02.NAN-CAUSES", MC, f, f"cv_masked column intervals {pm}", okp)
    md = [c for c in calls_in(f) if isinstance(c.func, ast.Attribute) and c.func.attr == "masks_dilatation"]
    ctx.ob("C02.NAN-CAUSES", MC, md[0] if md else f, f"{src(md[0]) if md else '?'}", len(md) == 1 and [canon(a) for a in md[0].args] == [il, ir, "self._window_size", "self._subpix"], expected=f"self.masks_dilatation({il}, {ir}, self._window_size, self._subpix)")
    g = tree.func(MC, f"{A}.masks_dilatation")
    blocks = {}
    for s in stmts_of(g):
        if isinstance(s, ast.If) and canon(s.test) in ("{'msk' in img_left.data_vars}", "{'msk' in img_right.data_vars}"):
            blocks["left" if "img_left" in canon(s.test) else "right"] = s
    if set(blocks) != {"left", "right"}:
        raise AnalysisError("masks_dilatation: left/right mask blocks not found")
    a = [canon_any(_LR().visit(copy.deepcopy(s))) for s in blocks["left"].body]
    b = [canon_any(s) for s in blocks["right"].body]
    ctx.ob("C02.NAN-CAUSES", MC, blocks["right"], "masks_dilatation: the right-mask block is the left-mask block with left <-> right", a == b, expected="; ".join(a)[:300], detail="each mask must be read with the conventions (valid_pixels, no_data_mask) of its *own* dataset: a right mask dilated with the left dataset's no-data code misses the right no-data pixels when the two codes differ")
    lb = [canon_any(s) for s in blocks["left"].body]
    okl = any("np.nan" in x and "img_left.attrs['valid_pixels']" in x and "img_left.attrs['no_data_mask']" in x for x in lb) and any("binary_dilation(" in x and "img_left['msk'].data + -img_left.attrs['no_data_mask']" in x.replace("{[", "").replace("]==0}", "") or "binary_dilation(" in x for x in lb) and any(x.startswith("dilatate_left_mask[dil] = np.nan") for x in lb)
    ctx.ob("C02.NAN-CAUSES", MC, blocks["left"], "masks_dilatation: invalid pixels (neither valid nor no-data) and dilated no-data pixels become NaN", okl)
    dil = [c for c in calls_in(g) if (dotted(c.func) or "") == "binary_dilation"]
    okd = len(dil) == 2 and all(canon(kwarg(c, "structure")) == "np.ones((window_size, window_size))" and canon(kwarg(c, "iterations")) == "1" for c in dil)
    ctx.ob("C02.NAN-CAUSES", MC, dil[0] if dil else g, "masks_dilatation: no-data dilated by a window_size x window_size square", okd, detail="a window containing a no-data pixel makes the cost of its centre not computable")
    # allocation full of NaN
    for rel, q in ((MC, f"{A}.allocate_numpy_cost_volume"), (SAD, "SadSsd.allocate_numpy_cost_volume"), (MC, f"{A}.allocate_cost_volume")):
        h = tree.func(rel, q)
        fulls = [c for c in calls_in(h) if (dotted(c.func) or "") == "np.full"]
        ok = bool(fulls) and all(canon(c.args[1]) == "np.nan" for c in fulls)
        ctx.ob("C02.NAN-CAUSES", rel, fulls[0] if fulls else h, f"{q}: cost volume allocated full of NaN", ok, detail="planes and columns that are never written (window leaving the image, no correspondent) must stay NaN")
    # SadSsd border re-NaN
    s = tree.func(SAD, "SadSsd.compute_cost_volume")
    br = [x for x in walk_no_nested(s) if isinstance(x, ast.Assign) and isinstance(x.targets[0], ast.Subscript) and canon(x.targets[0].value) == "cv" and (dotted(x.value) or "") == "np.nan"]
    got = sorted(canon(x.targets[0].slice) for x in br)
    want = sorted(["(:offset_row_col:, ::, ::)", "(-offset_row_col::, ::, ::)", "(::, :offset_row_col:, ::)", "(::, -offset_row_col::, ::)"])
    okb = got == want and all([canon(t) for t, pol in guards_of(x, stop=s)] == ["offset_row_col"] for x in br)
    ctx.ob("C02.NAN-CAUSES", SAD, br[0] if br else s, f"SadSsd: border re-NaN slices {got}", okb, expected=str(want), detail="the strided window sum writes partial sums on the four border bands: they must be reset to NaN symmetrically")


def canon_any(s: ast.stmt) -> str:
    if isinstance(s, ast.Assign):
        return f"{canon(s.targets[0])} = {canon(s.value)}"
    if isinstance(s, ast.Expr):
        return canon(s.value)
    return src(s)


def rule_shift(ctx: Ctx) -> None:
    tree = ctx.tree
    f = tree.func(IMG, "shift_right_img")
    d = Defs(f)
    dt = d.all_defs("data")
    want = "zoom(selected_band, (1, (nx_ * subpix - (subpix - 1)) / float(nx_)), order=1)[:, ind::subpix]"
    ok = bool(dt) and canon(dt[0][1]) == canon(_e(want))
    ctx.ob("C02.SHIFT", IMG, dt[0][0] if dt else f, f"shift_right_img: data = {canon(dt[0][1])[:140] if dt else '?'}", ok, expected=want, detail="linear (order=1) resampling of the columns at 1/subpix, then every subpix-th sample starting at the shift index")
    lp = [l for l in walk_no_nested(f) if isinstance(l, ast.For)]
    ctx.ob("C02.SHIFT", IMG, lp[0] if lp else f, f"shift_right_img: for {src(lp[0].target) if lp else '?'} in {src(lp[0].iter) if lp else '?'}", bool(lp) and canon(lp[0].iter) == "np.arange(1, subpix)", expected="np.arange(1, subpix)")
    first = d.all_defs("img_right_shift")
    ctx.ob("C02.SHIFT", IMG, first[0][0] if first else f, f"shift_right_img: list starts with the unshifted image: {canon(first[0][1]) if first else '?'}", bool(first) and canon(first[0][1]) == "[img_right]")
    sb = [canon(x[1]) for x in d.all_defs("selected_band")]
    ctx.ob("C02.SHIFT", IMG, f, f"shift_right_img: selected band {sb}", sb == ["img_right['im'].data", "img_right['im'].data[(band_index_right, ::, ::)]"])


def rule_band_owner(ctx: Ctx) -> int:
    """A band index computed from one dataset's band names is used on that dataset only (the two images may store
    their bands in different orders)."""
    tree = ctx.tree
    n = 0
    for rel in tree.py_files("pandora"):
        for q, fn in sorted(tree.funcs(rel).items()):
            d = Defs(fn)
            owners: Dict[str, str] = {}
            for name, ds in d.defs.items():
                for st, val, pos in ds:
                    if pos is None and isinstance(val, ast.Call) and isinstance(val.func, ast.Attribute) and val.func.attr == "index":
                        c = canon(val.func.value)
                        for coord in ("band_im", "band_classif"):
                            if c.startswith("list(") and c.endswith(f".{coord}.data)"):
                                owners[name] = c[len("list(") : -len(f".{coord}.data)")]
            if not owners:
                continue
            shifted = {name: canon(val.args[0]) for name, ds in d.defs.items() for st, val, pos in ds if isinstance(val, ast.Call) and (dotted(val.func) or "").endswith("shift_right_img") and val.args}
            for node in walk_no_nested(fn):
                if not (isinstance(node, ast.Subscript) and isinstance(node.slice, ast.Tuple) and node.slice.elts and isinstance(node.slice.elts[0], ast.Name) and node.slice.elts[0].id in owners):
                    continue
                base = node.value  # <E>["im"].data
                if not (isinstance(base, ast.Attribute) and base.attr == "data" and isinstance(base.value, ast.Subscript)):
                    continue
                e = base.value.value
                root = e
                while isinstance(root, ast.Subscript):
                    root = root.value
                r = canon(root)
                r = shifted.get(r, r)
                b = node.slice.elts[0].id
                n += 1
                ctx.ob("C02.BAND-OWNER", rel, node, f"{q}: `{canon(e)[:50]}` is indexed with `{b}`, the position of the band in `{owners[b]}`", r == owners[b], expected=f"a band index computed from `{r}`'s own band names", detail="the left and right images may store their bands in different orders: the index of the band in one image selects another band in the other")
    return n


def rule_band_guard(ctx: Ctx) -> int:
    """Contradiction rule: a function that tests `len(X["im"].data.shape) > 2` believes X may be a band-less (2-D)
    dataset -- shift_right_img returns such datasets for the fractional shifts; X.band_im exists only for 3-D images,
    so every read of X.band_im must sit inside the positive branch of that test."""
    tree = ctx.tree
    n = 0
    for rel in tree.py_files("pandora"):
        for q, fn in sorted(tree.funcs(rel).items()):
            tests = []
            for node in walk_no_nested(fn):
                if isinstance(node, ast.If) and isinstance(node.test, ast.Compare) and len(node.test.ops) == 1 and isinstance(node.test.ops[0], ast.Gt) and canon(node.test.comparators[0]) == "2":
                    l = canon(node.test.left)
                    for suffix in ("['im'].data.shape)", "['im'].shape)"):
                        if l.startswith("len(") and l.endswith(suffix):
                            tests.append((l[4 : -len(suffix)], node))
            if not tests:
                continue
            names = {x for x, _ in tests}
            for node in walk_no_nested(fn):
                if isinstance(node, ast.Attribute) and node.attr == "band_im" and canon(node.value) in names:
                    x = canon(node.value)
                    n += 1
                    inside = any(pol and any(t is test.test and tx == x for tx, test in tests) for t, pol in guards_of(node, stop=fn))
                    ctx.ob("C02.BAND-GUARD", rel, node, f"{q}: `{x}.band_im` is read {'inside' if inside else 'outside'} the branch `len({x}['im'].data.shape) > 2`", inside, expected=f"the band lookup of `{x}` only where `{x}` is known to be 3-D", detail=f"the function itself handles a 2-D `{x}` (the shifted right images of shift_right_img carry no band_im coordinate): reading `{x}.band_im` before the dimension test raises AttributeError for a selected band with subpix > 1, so no cost volume is produced for that configuration")
    return n


def rule_product_dtype(ctx: Ctx) -> int:
    """Products of image samples that feed the window means of zncc (E[xy], E[x^2]) are formed in float64: the image
    samples are float32, so x*y and x**2 above 2**24 (12-bit radiometry squared) are rounded *before* the exact float64
    window sums, and the cancellation E[xy] - E[x]E[y] then leaves errors of the order of the result itself."""
    tree = ctx.tree
    n = 0

    def promoted(e: ast.AST) -> bool:
        return isinstance(e, ast.Call) and ((isinstance(e.func, ast.Attribute) and e.func.attr == "astype" and e.args and canon(e.args[0]) in ("np.float64", "float", "'float64'")) or (dotted(e.func) or "") in ("np.float64",))

    def is_sample(e: ast.AST) -> bool:
        return "['im']" in canon(e) or canon(e) in ("selected_band",)

    for rel, q in ((ZN, "Zncc.compute_cost_volume"), (IMG, "compute_std_raster")):
        fn = tree.func(rel, q)
        for node in walk_no_nested(fn):
            if isinstance(node, ast.BinOp) and isinstance(node.op, (ast.Mult, ast.Pow)):
                ops = [node.left] if isinstance(node.op, ast.Pow) else [node.left, node.right]
                inner = [o.func.value if promoted(o) and isinstance(o.func, ast.Attribute) else (o.args[0] if promoted(o) and o.args else o) for o in ops]
                if not all(is_sample(x) for x in inner):
                    continue
                n += 1
                ctx.ob("C02.PRODUCT-DTYPE", rel, node, f"{q}: product of image samples `{canon(node)[:90]}` is formed in float64", any(promoted(o) for o in ops), expected="one operand promoted with .astype(np.float64) before the product", detail="float32 products of samples above 12 bits are rounded before the window sums: zncc then differs from the correlation coefficient by up to its own magnitude on low-contrast 16-bit imagery (|cost| > 1, constant windows not 0)")
    return n


def run(ctx: Ctx) -> None:
    ctx.floor("C02.PRODUCT-DTYPE", rule_product_dtype(ctx), 3)
    ctx.floor("C02.BAND-GUARD", rule_band_guard(ctx), 2)
    rule_skeleton(ctx)
    ctx.floor("C02.BAND-OWNER", rule_band_owner(ctx), 8)
    rule_pixelwise(ctx)
    rule_zero_var(ctx)
    rule_point_interval(ctx)
    rule_nan_causes(ctx)
    rule_shift(ctx)
    for rel, q in ((SAD, "SadSsd.pixel_wise_aggregation"), (IMG, "census_transform"), (MC, f"{A}.masks_dilatation")):
        check_as_strided(ctx, "C02.AS-STRIDED", rel, q)
    # masking by interval and index (shared with C09)
    from .c09 import run as c09run

    before = len(ctx.obligations)
    fl = dict(ctx.floors)
    c09run(ctx)
    keep = []
    for i, o in enumerate(ctx.obligations):
        if i < before:
            keep.append(o)
        elif o.rule in ("C09.INDEX", "C09.MASKING", "C09.AXIS"):
            o.rule = "C02." + o.rule[4:]
            keep.append(o)
    ctx.obligations[:] = keep
    ctx.floors = fl


SPEC = PropSpec(
    pid="C02",
    title="Cost volume holds the configured similarity measure, NaN where not computable (structural necessary conditions)",
    explanation=(
        "Thin claim: the numerical value of a cost is not decided. Decided: the three compute_cost_volume implementations share one skeleton (band check first, shift_right_img(right, subpix, band), one "
        "iteration per disparity of the axis, sub-pixel selector int((d % 1) * subpix) -- also in cv_masked and cbca --, point_interval(left, shifted right, d), plane store on point_p columns, final swapaxes, column "
        "selection = col_to_compute minus the first column coordinate); the measure table (type min/min/max, cmax per measure, sad -> |L-R|, ssd -> (L-R)^2 on the point_p / point_q slices, census -> popcount of the xor "
        "with the canonical SWAR masks, census bit order and strict comparison with the window centre); zncc divides where the product of standard deviations is > 0 and assigns literal 0 on the exact "
        "complement (finite sign table); point_interval's sign pairing and ceil/floor branches; cv_masked adds the left mask at the left columns and the right (sub-pixel) mask at the corresponding columns on the "
        "disparity's plane, masks_dilatation's right block is the left block under left<->right (each mask read with its own dataset's conventions), no-data dilated by a window square, cost volumes allocated full of "
        "NaN, SadSsd's four border bands re-NaN-ed; shift_right_img's zoom factor / order / stride; the three as_strided views are consistent; per-pixel interval masking (shared with C09)."
    ),
    rule_text="instances: the statements of 3 compute_cost_volume implementations, ad/sd/census cost functions, popcount32b, census_transform, apply_divide_standard, point_interval, cv_masked, masks_dilatation, shift_right_img, 3 as_strided sites, located by role",
    run=run,
    not_decided=["the value of every cost (window sums via as_strided, census bit patterns, zncc mean/std rasters, interpolation weights): numeric", "NaN *exactly* when not computable, as a relation over all pixels (its structural causes are checked)"],
    trusted=["scipy.ndimage.zoom(order=1) is linear interpolation; binary_dilation semantics"],
)

MUTANTS = [
    {"id": "std-raster-squares-in-float32", "file": IMG, "old": "selected_band.astype(np.float64) ** 2", "new": "selected_band**2"},
    {"id": "zncc-product-in-float32", "file": ZN, "old": '                    img_left["im"].data[:, point_p[0] : point_p[1]].astype(np.float64)\n', "new": '                    img_left["im"].data[:, point_p[0] : point_p[1]]\n'},
    {"id": "right-band-lookup-before-dimension-test", "file": SAD, "old": '            # Right image can have 3 dim if its from dataset or 2 if its from shift_right_image function\n            if len(img_right["im"].data.shape) > 2:\n                band_index_right = list(img_right.band_im.data).index(self._band)\n                cost = abs(', "new": '            band_index_right = list(img_right.band_im.data).index(self._band)\n            # Right image can have 3 dim if its from dataset or 2 if its from shift_right_image function\n            if len(img_right["im"].data.shape) > 2:\n                cost = abs('},
    {"id": "ceil-floor-swapped-one-branch", "file": MC, "old": "            point_p = (int(ceil(point_p[0])), int(ceil(point_p[1])))\n", "new": "            point_p = (int(floor(point_p[0])), int(floor(point_p[1])))\n"},
    {"id": "delete-border-renan-slice", "file": SAD, "old": "            cv[:, -offset_row_col:, :] = np.nan\n", "new": ""},
    {"id": "zero-var-lt", "file": ZN, "old": "zncc[np.where(divide_standard <= 0)] = 0", "new": "zncc[np.where(divide_standard < 0)] = 0"},
    {"id": "census-type-max", "file": CEN, "old": '                "type_measure": "min",', "new": '                "type_measure": "max",'},
    {"id": "zncc-cmax-0", "file": ZN, "old": '"cmax": 1,  # Maximal cost', "new": '"cmax": 0,  # Maximal cost'},
    {"id": "swap-window-strides", "file": SAD, "old": "strides_windows = (str_row, str_col, str_disp, str_col, str_row)", "new": "strides_windows = (str_row, str_col, str_disp, str_row, str_col)"},
    {"id": "census-selector-without-mod", "file": CEN, "old": "i_right = int((disp % 1) * self._subpix)", "new": "i_right = int(disp * self._subpix) % self._subpix"},
    {"id": "drop-right-mask-addition", "file": MC, "old": '                if q_mask.size > 0:\n                    cost_volume["cost_volume"].data[:, p_cv, dsp] += mask_right[i_mask_right].data[:, q_mask]\n', "new": ""},
    {"id": "masking-ge", "file": MC, "old": 'cost_volume.coords["disp"].data[dsp] > disp_max,', "new": 'cost_volume.coords["disp"].data[dsp] >= disp_max,'},
    {"id": "zoom-order-0", "file": IMG, "old": "(1, (nx_ * subpix - (subpix - 1)) / float(nx_)), order=1)[:, ind::subpix]", "new": "(1, (nx_ * subpix - (subpix - 1)) / float(nx_)), order=0)[:, ind::subpix]"},
    {"id": "right-mask-left-nodata-code", "file": MC, "old": '                img_right["msk"].data == img_right.attrs["no_data_mask"],', "new": '                img_right["msk"].data == img_left.attrs["no_data_mask"],'},
    {"id": "popcount-mask-nibble", "file": CEN, "old": "row = (row + (row >> 4)) & 0x0F0F0F0F", "new": "row = (row + (row >> 4)) & 0x000F0F0F"},
    {"id": "zero-var-np-divide", "file": ZN, "old": "    valid = np.where(divide_standard > 0)\n    zncc[valid] /= divide_standard[valid]\n\n    # Otherwise zncc is equal to 0\n    zncc[np.where(divide_standard <= 0)] = 0\n", "new": "    np.divide(zncc, divide_standard, out=zncc, where=divide_standard > 0)\n"},
    {"id": "col-offset-dropped", "file": ZN, "old": '        index_col = index_col - img_left.coords["col"].data[0]  # If first col coordinate is not 0\n', "new": ""},
    {"id": "ssd-abs", "file": SAD, "old": '            cost = (\n                img_left["im"].data[:, point_p[0] : point_p[1]] - img_right["im"].data[:, point_q[0] : point_q[1]]\n            ) ** 2', "new": '            cost = abs(\n                img_left["im"].data[:, point_p[0] : point_p[1]] - img_right["im"].data[:, point_q[0] : point_q[1]]\n            )'},
    {"id": "ssd-right-band-from-left-index", "file": SAD, "old": '                    - img_right["im"].data[band_index_right, :, point_q[0] : point_q[1]]\n                ) ** 2', "new": '                    - img_right["im"].data[band_index_left, :, point_q[0] : point_q[1]]\n                ) ** 2'},
    {"id": "eq-ufunc-divide-keeps-zeroing", "kind": "equiv", "file": ZN, "old": "    valid = np.where(divide_standard > 0)\n    zncc[valid] /= divide_standard[valid]\n", "new": "    np.divide(zncc, divide_standard, out=zncc, where=divide_standard > 0)\n"},
    {"id": "eq-rename-i_right", "kind": "equiv", "edits": [(CEN, "i_right", "k_shift", 3)]},
    {"id": "eq-swap-window-dims-of-square-sum", "kind": "equiv", "file": SAD, "old": "strides_windows = (str_row, str_col, str_disp, str_col, str_row)", "new": "strides_windows = (str_col, str_row, str_disp, str_col, str_row)"},
    {"id": "eq-sum-axis-keyword", "kind": "equiv", "file": SAD, "old": "np.sum(aggregation_window, (0, 1), dtype=np.float64)", "new": "np.sum(aggregation_window, axis=(0, 1), dtype=np.float64)"},
    {"id": "eq-zero-var-not-gt", "kind": "equiv", "file": ZN, "old": "zncc[np.where(divide_standard <= 0)] = 0", "new": "zncc[np.where(~(divide_standard > 0))] = 0"},
]
