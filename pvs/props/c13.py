"""C13 -- results are local (structural necessary conditions: coordinates vs positions, centred windows, relative accesses)."""
from __future__ import annotations

import ast

from ..astx import calls_in, dotted, src
from ..core import AnalysisError, Ctx, PropSpec, borrow
from ..rules_blocks import check_block_nest
from ..rules_coord import check_coord_discipline, check_global_exits, check_position_parity, global_exit_self_example, has_coord_source, parity_self_example
from ..rules_strided import check_as_strided

MC = "pandora/matching_cost/matching_cost.py"
SAD = "pandora/matching_cost/sad_ssd.py"
CEN = "pandora/matching_cost/census.py"
ZN = "pandora/matching_cost/zncc.py"
CB = "pandora/aggregation/cbca.py"
MED = "pandora/filter/median.py"
BIL = "pandora/filter/bilateral.py"
VAL = "pandora/validation/validation.py"
CRIT = "pandora/criteria.py"
COM = "pandora/common.py"
IMG = "pandora/img_tools.py"
DSP = "pandora/disparity/disparity.py"
REF = "pandora/refinement"

LOCAL_STEP_FILES = (MC, SAD, CEN, ZN, CB, MED, BIL, VAL, CRIT, COM, DSP, "pandora/refinement/refinement.py", "pandora/refinement/vfit.py", "pandora/refinement/quadratic.py", "pandora/filter/filter.py", "pandora/aggregation/aggregation.py")


def run(ctx: Ctx) -> None:
    tree = ctx.tree
    # ---- COORD-TAINT: every function of the package that reads a row/col coordinate
    ns = nc = nf = 0
    for rel in tree.py_files("pandora"):
        for q, fn in sorted(tree.funcs(rel).items()):
            if has_coord_source(fn):
                nf += 1
                a, b = check_coord_discipline(ctx, "C13.COORD-TAINT", rel, q)
                ns += a
                nc += b
    ctx.count("C13.COORD-TAINT(functions reading coordinates)", nf)
    ctx.floor("C13.COORD-TAINT(functions)", nf, 12)
    ctx.floor("C13.COORD-TAINT(positions)", ns, 15)
    ctx.floor("C13.COORD-TAINT(comparisons)", nc, 5)
    # the three sanitised column selections must be among the decided positions
    sel = [o for o in ctx.obligations if o.rule == "C13.COORD-TAINT" and "position `index_col`" in o.construct or (o.rule == "C13.COORD-TAINT" and o.function.endswith("compute_cost_volume") and "of `cv[...]`" in o.construct and "disp_index" not in o.construct)]
    ctx.floor("C13.COORD-TAINT(column selections)", len(sel), 3)

    # ---- PARITY: no modulo of a position in the local steps
    if not parity_self_example():
        raise AnalysisError("C13.PARITY: the positive example (`col % 2` on a range index) is no longer recognised")
    np_ = 0
    for rel in LOCAL_STEP_FILES:
        for q in sorted(tree.funcs(rel)):
            np_ += check_position_parity(ctx, "C13.PARITY", rel, q)
    ctx.floor("C13.PARITY(modulo sites)", np_, 6)

    # ---- GLOBAL-EXIT: no early exit of a local step decided by a whole-image aggregate
    if not global_exit_self_example():
        raise AnalysisError("C13.GLOBAL-EXIT: the positive example is no longer recognised")
    ng = 0
    for rel in (CRIT, MC, SAD, CEN, ZN, MED, BIL, VAL):
        for q in sorted(tree.funcs(rel)):
            ng += 1
            check_global_exits(ctx, "C13.GLOBAL-EXIT", rel, q)
    ctx.ob("C13.GLOBAL-EXIT", CRIT, tree.module(CRIT), f"{ng} functions of the local steps scanned for aggregate-guarded early exits", True)
    ctx.floor("C13.GLOBAL-EXIT(functions)", ng, 40)

    # ---- ACCUMULATE: prefix sums (integral images) are exact for integer-valued inputs only in float64
    from ..defuse import Defs
    from ..rules_dtype import F64, accumulator_sites, dtype_of
    from ..sym import canon

    na = 0
    for rel in tree.py_files("pandora"):
        for q, fn in sorted(tree.funcs(rel).items()):
            sites = accumulator_sites(fn)
            if not sites:
                continue
            d = Defs(fn)
            seen = set()
            for node, kind, arr in sites:
                k = dtype_of(arr, d, node)
                key = (q, canon(arr))
                if key in seen:
                    continue
                seen.add(key)
                na += 1
                ctx.ob("C13.ACCUMULATE", rel, node, f"{q}: running sum `{canon(arr)}` accumulates in float64", k == F64, expected="a float64 accumulator (np.zeros without dtype, dtype=np.float64)", detail=f"the {'cumulative sum' if kind == 'cumsum' else 'recurrence A[i] = A[i-1] + x'} starts at the image border and is kept in {k}: its partial sums grow with the distance to the border, so beyond 2**24 they are rounded differently depending on where the image (or the crop) starts -- window sums obtained by difference are then not bit-identical between a tile and the whole image")
    # the sad/ssd window sum: np.sum over the float32 window view must accumulate in float64
    pw = tree.func(SAD, "SadSsd.pixel_wise_aggregation")
    sums = [c for c in calls_in(pw) if (dotted(c.func) or "") in ("np.sum", "np.nansum")]
    for c in sums:
        na += 1
        dk = next((k.value for k in c.keywords if k.arg == "dtype"), None)
        ctx.ob("C13.ACCUMULATE", SAD, c, f"SadSsd.pixel_wise_aggregation: `{src(c)[:80]}` accumulates in float64", dk is not None and canon(dk) in ("np.float64", "float"), expected="np.sum(window, (0, 1), dtype=np.float64)", detail="a float32 accumulation of the window costs is exact only below 2**24: for squared differences of 12/16-bit images the sum depends on the order of the rows, so a vertical flip (or another block layout) changes costs and winner-takes-all disparities")
    ctx.floor("C13.ACCUMULATE", na, 4)

    # ---- ODD-WINDOW (shared with C10; K1 is a known finding)
    from .c10 import rule_kernel, rule_odd_window

    k = rule_odd_window(ctx, "C13.ODD-WINDOW")
    ctx.floor("C13.ODD-WINDOW", k, 3)

    # ---- RELATIVE: the property's own anchors, decided by the rules that pin those constructs
    for rel, q in ((SAD, "SadSsd.pixel_wise_aggregation"), (COM, "sliding_window"), (IMG, "census_transform"), (MC, "AbstractMatchingCost.masks_dilatation")):
        check_as_strided(ctx, "C13.RELATIVE(as_strided)", rel, q)
    n = borrow(ctx, lambda c: (rule_kernel(c, MED, "MedianFilter.median_filter", "self._filter_size", "radius"), rule_kernel(c, BIL, "BilateralFilter.filter_bilateral", "win_width", "offset")), {"C10.KERNEL": "C13.RELATIVE(kernel)"})
    ctx.floor("C13.RELATIVE(kernel)", n, 4)
    check_block_nest(ctx, "C13.RELATIVE(blocks)", MED, "MedianFilter.median_filter", start="radius", reduce_hint="np.nanmedian(disp_x, axis=(2, 3))")
    check_block_nest(ctx, "C13.RELATIVE(blocks)", BIL, "BilateralFilter.filter_bilateral", start="offset")
    for q in ("WinnerTakesAll.argmin_split", "WinnerTakesAll.argmax_split"):
        if tree.has_func(DSP, q):
            check_block_nest(ctx, "C13.RELATIVE(blocks)", DSP, q, start="0")
    from .c11 import rule_arms

    n = borrow(ctx, rule_arms, {"C11.ARMS": "C13.RELATIVE(arms)"})
    ctx.floor("C13.RELATIVE(arms)", n, 20)
    from .c04 import rule_range_sym

    n = borrow(ctx, rule_range_sym, {"C04.RANGE-SYM": "C13.RELATIVE(range)"})
    ctx.floor("C13.RELATIVE(range)", n, 6)
    from .c07 import run as c07run

    n = borrow(ctx, c07run, {"C07.ROUND": "C13.RELATIVE(round)", "C07.INSIDE": "C13.RELATIVE(round)"})
    ctx.floor("C13.RELATIVE(round)", n, 1)


SPEC = PropSpec(
    pid="C13",
    title="Results are local: a pixel depends on its neighbourhood, not on its position (structural necessary conditions)",
    explanation=(
        "Thin claim. Crop invariance / bit-identical tiles / flip commutation are metamorphic relations over pixel values and are NOT decided. Decided, as necessary conditions whose breach makes the result depend "
        "on the framing: (a) an affine-space typing (coordinate C, first coordinate C0, index I, displacement D) of every function of the package that reads a row/col coordinate or attrs['col_to_compute']: no "
        "coordinate is used as an array position (only coordinate minus first coordinate), and a coordinate is compared only with coordinates (col[0] + offset, col[-1] - offset), never with an index, a count or a "
        "constant; (b) no modulo / floor division / parity of a row or column position in the local steps (zero sites today; a positive example is re-recognised on every run); (c) every window size handed to "
        "sliding_window is provably odd -- K1 (bilateral) is a known finding; (d) the property's anchors are relative accesses: the four as_strided views take their strides from the array that is passed and slide by "
        "N-(w-1); the median/bilateral kernels build their windows on the input (never on the buffer being written) and start at int(w/2); block cursors cannot shift a window; the four cbca arms follow one template; "
        "criteria.validity_mask compares with col[0]/col[-1]; the cross-checking correspondent is np.rint(index + disparity) tested against [0, nb_col); (e) every running sum that starts at the image border "
        "(np.cumsum / np.nancumsum inputs, loop recurrences A[i] = A[i-1] + x) is kept in float64 -- K2 (cbca's float32 integral images) is a known finding."
    ),
    rule_text="instances: 14 functions reading coordinates (about 30 positions, 11 comparisons), every modulo site of 16 files, 4 window-size sites, 4 as_strided sites, 2 kernels, 4 block nests, 4 arms, validity_mask's 3 branches, 1 correspondent",
    run=run,
    not_decided=["whole-image vs crop equality and vertical-flip commutation of a pipeline (values)", "the extent of the dependency cone", "interprocedural flow of coordinates through parameters (today no in-package helper receives a coordinate array)"],
    trusted=["xarray aligns by coordinate (xr.align, xr.where)", "schema-validated odd window sizes (decided under C05)"],
)

MUTANTS = [
    {"id": "right-mask-early-return-on-global-aggregate", "file": CRIT, "old": "    r_mask = xr.where(\n        (r_mask != img_right.attrs[\"no_data_mask\"]) & (r_mask != img_right.attrs[\"valid_pixels\"]),", "new": "    if not dil.any():\n        return\n    r_mask = xr.where(\n        (r_mask != img_right.attrs[\"no_data_mask\"]) & (r_mask != img_right.attrs[\"valid_pixels\"]),"},
    {"id": "window-sum-in-float32", "file": SAD, "old": "np.sum(aggregation_window, (0, 1), dtype=np.float64).astype(np.float32)", "new": "np.sum(aggregation_window, (0, 1))"},
    {"id": "mean-raster-accumulates-in-image-dtype", "file": IMG, "old": '        r_mean = np.r_[np.zeros((1, nx_)), img["im"].data]\n', "new": '        r_mean = np.r_[np.zeros((1, nx_), dtype=img["im"].dtype), img["im"].data]\n'},
    {"id": "eq-mean-raster-explicit-float64", "kind": "equiv", "file": IMG, "old": '        r_mean = np.r_[np.zeros((1, nx_)), img["im"].data]\n', "new": '        r_mean = np.r_[np.zeros((1, nx_), dtype=np.float64), img["im"].data]\n'},
    {"id": "col-offset-dropped-sad", "file": SAD, "old": '        index_col = index_col - img_left.coords["col"].data[0]  # If first col coordinate is not 0\n', "new": ""},
    {"id": "col-offset-dropped-census", "file": CEN, "old": '        index_col = index_col - img_left.coords["col"].data[0]  # If first col coordinate is not 0\n', "new": ""},
    {"id": "criteria-len-instead-of-last-coord", "file": CRIT, "old": "(col + d_max > (col[-1]) - offset)),", "new": "(col + d_max > (len(col) - 1) - offset)),"},
    {"id": "criteria-zero-instead-of-first-coord", "file": CRIT, "old": "bit_1 = np.where((col + d_max) < (col[0] + offset))", "new": "bit_1 = np.where((col + d_max) < (0 + offset))"},
    {"id": "criteria-coordinate-as-position", "file": CRIT, "old": "    cv[\"validity_mask\"].data[:, bit_1] += cst.PANDORA_MSK_PIXEL_RIGHT_NODATA_OR_DISPARITY_RANGE_MISSING", "new": "    cv[\"validity_mask\"].data[:, col[bit_1]] += cst.PANDORA_MSK_PIXEL_RIGHT_NODATA_OR_DISPARITY_RANGE_MISSING"},
    {"id": "median-windows-on-output", "file": MED, "old": "sliding_window(data, (self._filter_size, self._filter_size))", "new": "sliding_window(data_median, (self._filter_size, self._filter_size))"},
    {"id": "arm-bound-off-by-one", "file": CB, "old": "max(col - len_arms, -1)", "new": "max(col - len_arms - 1, -1)", "count": 1},
    {"id": "sliding-window-strides-of-other-array", "file": SAD, "old": "str_disp, str_col, str_row = cost_volume.strides", "new": "str_disp, str_col, str_row = np.empty(cost_volume.shape, dtype=np.float32).strides"},
    {"id": "parity-dependent-arm", "file": CB, "old": "            if np.isfinite(image[col, row]):", "new": "            if np.isfinite(image[col, row]) and row % 2 == 0:", "count": 1},
    {"id": "crosscheck-floor", "file": VAL, "old": 'col_right = col_left + np.rint(dataset_left["disparity_map"].data[row, col_left]).astype(int)', "new": 'col_right = col_left + np.floor(dataset_left["disparity_map"].data[row, col_left]).astype(int)'},
    {"id": "crosscheck-rounds-the-sum", "file": VAL, "old": 'col_right = col_left + np.rint(dataset_left["disparity_map"].data[row, col_left]).astype(int)', "new": 'col_right = np.rint(col_left + dataset_left["disparity_map"].data[row, col_left]).astype(int)'},
    {"id": "crosscheck-coordinate-columns", "file": VAL, "old": "            col_left = np.arange(nb_col, dtype=np.int64)\n", "new": '            col_left = dataset_left.coords["col"].data.astype(np.int64)\n'},
    {"id": "median-start-zero", "file": MED, "old": "        y_begin = radius\n", "new": "        y_begin = 0\n"},
    {"id": "eq-index-via-named-first", "kind": "equiv", "file": ZN, "old": '        index_col = index_col - img_left.coords["col"].data[0]  # If first col coordinate is not 0\n', "new": '        first_col = img_left.coords["col"].data[0]\n        index_col = index_col - first_col\n'},
    {"id": "eq-criteria-col-alias", "kind": "equiv", "edits": [(CRIT, '    col = cv.coords["col"].data\n', '    col = cv["cost_volume"].coords["col"].data\n', 1)]},
    {"id": "eq-criteria-flip-comparison", "kind": "equiv", "file": CRIT, "old": "bit_1 = np.where((col + d_max) < (col[0] + offset))", "new": "bit_1 = np.where((col[0] + offset) > (col + d_max))"},
]
