"""C08 -- right-image products equal the left products of the mirrored problem."""
from __future__ import annotations

from ..core import Ctx, PropSpec
from ..rules_sm import SM, rule_gating, rule_mirror, rule_neg_swap


def run(ctx: Ctx) -> None:
    n = rule_mirror(ctx, "C08.MIRROR")
    ctx.floor("C08.MIRROR", n, 9)
    n = rule_neg_swap(ctx, "C08.NEG-SWAP")
    ctx.floor("C08.NEG-SWAP", n, 5)
    n = rule_gating(ctx, "C08.GATING")
    ctx.floor("C08.GATING", n, 10)
    # cross-checking without filling does not touch the left disparities
    from ..rules_effects import rule_no_disp_write

    rule_no_disp_write(ctx, "C08.NO-DISP-WRITE")


SPEC = PropSpec(
    pid="C08",
    title="Right-image products equal the left products of the mirrored problem",
    explanation=(
        "C08 holds by construction when (i) every step callback applies the *same* step object to the right data with the roles of the two "
        "images exchanged, (ii) the right interval is (-max, -min) of the left one, (iii) right products are only ever stored under the "
        "validation guard. The check decides exactly that: in every run callback the statements of the `if self.right_disp_map == ...` block "
        "must equal the image of the left product statements under the attribute substitution sigma = {left_img<->right_img, left_cv<->right_cv, "
        "left_disparity<->right_disparity, disp_min<->right_disp_min, disp_max<->right_disp_max, dmin_user<->dmin_user_right, dmax_user<->"
        "dmax_user_right} (statements compared as canonical forms, log lines and the shared step instantiation excluded); the guard must compare "
        "with a registered validation method name; the three places deriving the right interval must negate-and-swap; every store to "
        "right_cv/right_disparity is guarded or an empty initialisation; cross-checking has no in-place effect on either disparity map."
    ),
    rule_text="instances: every run callback named in _transitions_run that touches a left/right product attribute (mirror), every assignment deriving a right interval (neg-swap), every store to right products (gating); non-trivial: has a sigma image that an edit can break",
    run=run,
    not_decided=[
        "that each step function is itself role-symmetric internally (e.g. criteria.validity_mask computing bits for the right geometry) -- numeric, see C02/C04",
        "bit-identity of right products with the left products of an actually mirrored run (a relation between two executions)",
    ],
    trusted=["step objects are deterministic functions of their arguments (C18)", "registry names extracted from @AbstractValidation.register_subclass decorators"],
)

MUTANTS = [
    {"id": "left-and-right-outputs-share-one-dataset", "file": "pandora/state_machine.py", "old": "        self.left_disparity = xr.Dataset()\n        self.right_disparity = xr.Dataset()\n", "new": "        self.left_disparity = self.right_disparity = xr.Dataset()\n"},
    {"id": "swap-args-right-aggregation", "file": SM, "old": "aggregation_.cost_volume_aggregation(self.right_img, self.left_img, self.right_cv)", "new": "aggregation_.cost_volume_aggregation(self.left_img, self.right_img, self.right_cv)"},
    {"id": "right-cv_masked-with-left-interval", "file": SM, "old": "                self.right_cv,\n                self.right_disp_min,\n                self.right_disp_max,", "new": "                self.right_cv,\n                self.disp_min,\n                self.right_disp_max,"},
    {"id": "delete-right-refinement", "file": SM, "old": '        if self.right_disp_map == "cross_checking_accurate":\n            refinement_.subpixel_refinement(self.right_cv, self.right_disparity)\n', "new": ""},
    {"id": "right_disp_min-neg-min", "file": SM, "old": "            self.right_disp_min = -self.disp_max\n            self.right_disp_max = -self.disp_min", "new": "            self.right_disp_min = -self.disp_min\n            self.right_disp_max = -self.disp_max"},
    {"id": "main-neg-without-swap", "file": "pandora/__init__.py", "old": '[-cfg["input"]["left"]["disp"][1], -cfg["input"]["left"]["disp"][0]]', "new": '[-cfg["input"]["left"]["disp"][0], -cfg["input"]["left"]["disp"][1]]'},
    {"id": "guard-typo", "file": SM, "old": '        if self.right_disp_map == "cross_checking_accurate":\n            self.right_disparity = disparity_.to_disp', "new": '        if self.right_disp_map == "cross_checking":\n            self.right_disparity = disparity_.to_disp'},
    {"id": "second-check-left-first", "file": SM, "old": "self.right_disparity = validation_.disparity_checking(self.right_disparity, self.left_disparity)", "new": "self.right_disparity = validation_.disparity_checking(self.left_disparity, self.right_disparity)"},
    {"id": "single-scale-else-neg-min", "file": SM, "old": '                self.right_disp_min = -left_img["disparity"].sel(band_disp="max").data', "new": '                self.right_disp_min = -left_img["disparity"].sel(band_disp="min").data'},
    {"id": "right-disparity-unguarded", "file": SM, "old": '        if self.right_disp_map == "cross_checking_accurate":\n            self.right_disparity = disparity_.to_disp(self.right_cv, self.right_img, self.left_img)', "new": '        if self.right_cv is not None:\n            self.right_disparity = disparity_.to_disp(self.right_cv, self.right_img, self.left_img)'},
    {"id": "right-filter-on-left", "file": SM, "old": "            filter_.filter_disparity(self.right_disparity)", "new": "            filter_.filter_disparity(self.left_disparity)"},
    {"id": "right-user-interval-not-scaled", "file": SM, "old": "            self.dmax_user_right = self.dmax_user_right * self.scale_factor\n", "new": ""},
    {"id": "confidence-right-images-not-swapped", "file": SM, "old": "self.right_disparity, self.right_img, self.left_img, self.right_cv\n", "new": "self.right_disparity, self.left_img, self.right_img, self.right_cv\n"},
    {"id": "eq-rename-step-object", "kind": "equiv", "edits": [(SM, '        aggregation_ = aggregation.AbstractAggregation(**cfg["pipeline"]', '        agg = aggregation.AbstractAggregation(**cfg["pipeline"]'), (SM, "        aggregation_.cost_volume_aggregation(self.left_img", "        agg.cost_volume_aggregation(self.left_img"), (SM, "            aggregation_.cost_volume_aggregation(self.right_img", "            agg.cost_volume_aggregation(self.right_img")]},
    {"id": "eq-log-line", "kind": "equiv", "file": SM, "old": "        self.left_disparity = disparity_.to_disp(self.left_cv, self.left_img, self.right_img)\n", "new": "        self.left_disparity = disparity_.to_disp(self.left_cv, self.left_img, self.right_img)\n        logging.info(\"left disparity done\")\n"},
    {"id": "eq-keyword-args", "kind": "equiv", "edits": [(SM, "self.left_disparity = disparity_.to_disp(self.left_cv, self.left_img, self.right_img)", "self.left_disparity = disparity_.to_disp(self.left_cv, img_right=self.right_img, img_left=self.left_img)"), (SM, "self.right_disparity = disparity_.to_disp(self.right_cv, self.right_img, self.left_img)", "self.right_disparity = disparity_.to_disp(self.right_cv, img_left=self.right_img, img_right=self.left_img)")]},
]
