"""C17 -- malformed inputs are refused up front; well-formed inputs never are."""
from __future__ import annotations

import ast
from typing import Any, Dict, List, Optional, Tuple

from ..astx import calls_in, const_eval, dotted, enclosing_loops, guards_of, module_assign, src, stmts_of, walk_no_nested
from ..core import AnalysisError, Ctx, PropSpec
from ..defuse import Defs
from ..flow import normal_paths, paths_of
from ..jsonchk import accepts, compare_with_spec, kind_of, parse_checker, representatives
from ..sym import B, boolform, canon, equivalent
from .c05 import params_spec

CC = "pandora/check_configuration.py"
INIT = "pandora/__init__.py"


def _e(t: str) -> ast.AST:
    return ast.parse(t, mode="eval").body


def _raises_under(fn: ast.AST, want_test: str, names: Dict[str, str] = None) -> Tuple[bool, Optional[ast.If], str]:
    """An `if <test>: raise` whose test is equivalent to want_test."""
    want = boolform(_e(want_test))
    for st in walk_no_nested(fn):
        if isinstance(st, ast.If) and any(isinstance(x, ast.Raise) for x in st.body):
            if equivalent(boolform(st.test), want) is None:
                return True, st, src(st.test)
    return False, None, ""


def rule_dataset(ctx: Ctx) -> None:
    tree = ctx.tree
    cd = tree.func(CC, "check_dataset")
    ds = cd.args.args[0].arg
    # refusals and checks that must be reached on every normal path, in order
    ok, st, _ = _raises_under(cd, f"'im' not in {ds}")
    ctx.ob("C17.DATASET", CC, st or cd, f"check_dataset refuses a dataset without image: {src(st.test) if st else 'missing'}", ok, expected=f"if 'im' not in {ds}: raise")
    ok, st, _ = _raises_under(cd, f"np.isnan({ds}['im'].data).all()")
    ctx.ob("C17.DATASET", CC, st or cd, f"check_dataset refuses an all-NaN image: {src(st.test) if st else 'missing'}", ok, expected=f"if np.isnan({ds}['im'].data).all(): raise", detail="'not entirely NaN' means all(): any() would refuse every image with one NaN sample, and dropping the test accepts empty images")
    paths = normal_paths(cd, loop_iters=(0, 1, 2))
    ctx.floor("C17.DATASET(paths)", len(paths), 2)
    for p in paths:
        names = [dotted(e[1].func) or "" for e in p.events if e[0] == "call"]
        has_disp = any(e[0] == "test" and e[2] and canon(e[1]) == f"{{'disparity' in {ds}}}" for e in p.events)
        need = ["check_band_names", "check_attributes"] + (["check_disparities_from_dataset"] if has_disp else [])
        miss = [x for x in need if x not in names]
        ctx.ob("C17.DATASET", CC, cd, f"check_dataset path ({'with' if has_disp else 'without'} disparity, {names.count('check_shape')} other variable(s)) calls {need}", not miss, detail=f"{miss} is not reached on this path: a malformed dataset is accepted")
    dcall = [c for c in calls_in(cd) if (dotted(c.func) or "") == "check_disparities_from_dataset"]
    okd = len(dcall) == 1 and canon(dcall[0].args[0]) == f"{ds}['disparity']" and [canon(t) for t, pol in guards_of(dcall[0], stop=cd)] == [f"{{'disparity' in {ds}}}"]
    ctx.ob("C17.DATASET", CC, dcall[0] if dcall else cd, f"check_dataset: disparity checked iff present: {src(dcall[0]) if dcall else '?'}", okd)
    sh = [c for c in calls_in(cd) if (dotted(c.func) or "") == "check_shape"]
    oks = False
    det = "no check_shape call"
    if sh:
        lp = enclosing_loops(sh[0])
        if lp and isinstance(lp[0], ast.For):
            it = lp[0].iter
            # every data variable except 'im'
            txt = canon(it)
            good = txt in (f"filter(lambda i: i != 'im', {ds})", f"filter(lambda i: i != 'im', {ds}.data_vars)")
            if not good and isinstance(it, (ast.ListComp, ast.GeneratorExp)) and canon(it.generators[0].iter) in (ds, f"{ds}.data_vars") and len(it.generators[0].ifs) == 1:
                good = equivalent(boolform(it.generators[0].ifs[0]), boolform(_e(f"{src(it.generators[0].target)} != 'im'"))) is None
            v = lp[0].target.id if isinstance(lp[0].target, ast.Name) else "?"
            args = {k.arg: canon(k.value) for k in sh[0].keywords}
            pos = [canon(a) for a in sh[0].args]
            okargs = (args.get("dataset") == ds and args.get("ref") == "'im'" and args.get("test") in (f"str({v})", v)) or pos[:3] in ([ds, "'im'", f"str({v})"], [ds, "'im'", v])
            oks = good and okargs and not guards_of(sh[0], stop=lp[0])
            det = f"for {v} in {txt[:80]}: {src(sh[0])}"
    ctx.ob("C17.DATASET", CC, sh[0] if sh else cd, f"check_dataset: every variable other than the image is checked against its grid: {det[:150]}", oks, expected=f"for every variable of {ds} except 'im': check_shape({ds}, 'im', variable)", detail="every other variable (disparity, mask, classification, segmentation, anything else) must be on the image's row/column grid: a fixed list of names lets other variables through")
    at = [c for c in calls_in(cd) if (dotted(c.func) or "") == "check_attributes"]
    d = Defs(cd)
    okat = False
    got = "?"
    if at:
        a = at[0].args[1] if len(at[0].args) > 1 else next((k.value for k in at[0].keywords if k.arg == "attribute_list"), None)
        ex = d.expand(a, at[0], depth=2) if a is not None else None
        try:
            val = const_eval(ex) if ex is not None else None
        except Exception:  # pylint: disable=broad-except
            val = None
            if isinstance(ex, ast.Call) and (dotted(ex.func) or "") == "set" and ex.args:
                try:
                    val = set(const_eval(ex.args[0]))
                except Exception:  # pylint: disable=broad-except
                    val = None
        got = sorted(val) if val is not None else canon(ex)
        okat = val is not None and set(val) == {"no_data_img", "valid_pixels", "no_data_mask", "crs", "transform"}
    ctx.ob("C17.DATASET", CC, at[0] if at else cd, f"check_dataset: mandatory attributes {got}", okat, expected="{'no_data_img', 'valid_pixels', 'no_data_mask', 'crs', 'transform'}")
    # helpers
    cs = tree.func(CC, "check_shape")
    a0, a1, a2 = [x.arg for x in cs.args.args][:3]
    ok, st, _ = _raises_under(cs, f"{a0}[{a1}].data.shape[-2:] != {a0}[{a2}].data.shape[-2:]")
    ctx.ob("C17.DATASET", CC, st or cs, f"check_shape: {src(st.test) if st else 'missing'}", ok, expected="refuse iff the last two axes differ")
    ca = tree.func(CC, "check_attributes")
    d2 = Defs(ca)
    miss = d2.all_defs("attribute")
    okca = bool(miss) and canon(miss[0][1]) == f"{ca.args.args[1].arg} + -set({ca.args.args[0].arg}.attrs)" or (bool(miss) and canon(miss[0][1]).replace(" ", "") in (f"{ca.args.args[1].arg}+-set({ca.args.args[0].arg}.attrs)",))
    rs = [s for s in walk_no_nested(ca) if isinstance(s, ast.If) and any(isinstance(x, ast.Raise) for x in s.body)]
    okca = okca and bool(rs) and canon(rs[0].test) == "attribute"
    ctx.ob("C17.DATASET", CC, ca, f"check_attributes: missing = {canon(miss[0][1]) if miss else '?'}; refuse iff non-empty", okca, expected="attribute_list - set(dataset.attrs) non-empty -> raise")
    cb = tree.func(CC, "check_band_names")
    b0 = cb.args.args[0].arg
    rs = [s for s in walk_no_nested(cb) if isinstance(s, ast.If) and any(isinstance(x, ast.Raise) for x in s.body)]
    okcb = bool(rs) and canon(rs[0].test).replace(" ", "") == f"('band_im'in{b0}.coordsandnotall((isinstance(band,str)forbandin{b0}.coords['band_im'].data)))".replace(" ", "") or (bool(rs) and "'band_im' in" in src(rs[0].test) and "not all(" in src(rs[0].test) and "isinstance(band, str)" in src(rs[0].test))
    ctx.ob("C17.DATASET", CC, rs[0] if rs else cb, f"check_band_names: {src(rs[0].test)[:120] if rs else 'missing'}", okcb, expected="band_im present and not all names are str -> raise")
    cdd = tree.func(CC, "check_disparities_from_dataset")
    dp = cdd.args.args[0].arg
    for want, what in ((f"'band_disp' not in {dp}.coords", "band_disp coordinate"), (f"({dp}.sel(band_disp='min').data > {dp}.sel(band_disp='max').data).any()", "min <= max everywhere (strict >, any())")):
        ok, st, _ = _raises_under(cdd, want)
        ctx.ob("C17.DATASET", CC, st or cdd, f"check_disparities_from_dataset: {what}: {src(st.test)[:110] if st else 'missing'}", ok, expected=f"if {want}: raise", detail="refusal iff min > max somewhere: >= would refuse well-formed grids with min == max, all() would accept crossed grids")
    sub = [s for s in walk_no_nested(cdd) if isinstance(s, ast.If) and "issubset" in src(s.test) and any(isinstance(x, ast.Raise) for x in s.body)]
    oksub = bool(sub) and canon(sub[0].test) == "{!({'max', 'min'}.issubset(band_disp))}" or (bool(sub) and src(sub[0].test).replace('"', "'") in ("not {'min', 'max'}.issubset(band_disp)", "not {'max', 'min'}.issubset(band_disp)"))
    ctx.ob("C17.DATASET", CC, sub[0] if sub else cdd, f"check_disparities_from_dataset: min and max bands: {src(sub[0].test) if sub else 'missing'}", oksub, expected="not {'min', 'max'}.issubset(band_disp) -> raise")
    # check_datasets
    cds = tree.func(CC, "check_datasets")
    l, r = [x.arg for x in cds.args.args][:2]
    calls = [canon(c.args[0]) for c in calls_in(cds) if (dotted(c.func) or "") == "check_dataset"]
    ctx.ob("C17.DATASET", CC, cds, f"check_datasets checks {calls}", sorted(calls) == sorted([l, r]), expected=f"check_dataset({l}) and check_dataset({r})")
    ok, st, _ = _raises_under(cds, f"'disparity' not in {l}")
    ctx.ob("C17.DATASET", CC, st or cds, f"check_datasets: disparity mandatory on the left: {src(st.test) if st else 'missing'}", ok)
    ok, st, _ = _raises_under(cds, f"{l}['im'].data.shape[-2:] != {r}['im'].data.shape[-2:]")
    ctx.ob("C17.DATASET", CC, st or cds, f"check_datasets: same image size: {src(st.test)[:100] if st else 'missing'}", ok)


def rule_input(ctx: Ctx) -> None:
    tree = ctx.tree
    spec = params_spec()["input"]
    named = {"rasterio_can_open": lambda v: v is None or isinstance(v, str), "rasterio_can_open_mandatory": lambda v: isinstance(v, str)}
    base = module_assign(tree, CC, "input_configuration_schema")
    if not isinstance(base, ast.Dict):
        raise AnalysisError("input_configuration_schema is no longer a dict literal")
    sides = {k.value: v for k, v in zip(base.keys, base.values) if isinstance(k, ast.Constant)}
    for side in ("left", "right"):
        node = sides.get(side)
        if not isinstance(node, ast.Dict):
            raise AnalysisError(f"input_configuration_schema['{side}'] is not a dict literal")
        ent = {k.value: v for k, v in zip(node.keys, node.values) if isinstance(k, ast.Constant)}
        ctx.ob("C17.INPUT-TABLE", CC, node, f"input schema [{side}] keys {sorted(ent)}", set(ent) == set(spec["keys"]), expected=str(sorted(spec["keys"])))
        for k, kspec in spec["keys"].items():
            if k not in ent:
                continue
            chk = parse_checker(ent[k])
            reps = representatives([ent[k]], extra_strings=["left.tif"])
            diff, cnt = compare_with_spec(chk, kspec["kinds"], kspec.get("pred"), reps, named=named)
            ctx.count("representatives_evaluated", cnt)
            det = ""
            if diff is not None:
                v, a, b = diff
                det = f"value {v!r} ({kind_of(v)}) is {'accepted' if a else 'rejected'} by the code but must be {'accepted' if b else 'rejected'}"
            ctx.ob("C17.INPUT-TABLE", CC, ent[k], f"input.{side}.{k}: {chk.text()[:100]}", diff is None, expected=f"kinds {kspec['kinds']}", detail=det)
    # defaults
    dflt = module_assign(tree, CC, "default_short_configuration_input")
    try:
        dv = const_eval(dflt)
    except Exception as exc:  # pylint: disable=broad-except
        raise AnalysisError("default_short_configuration_input is not a literal") from exc
    ctx.ob("C17.INPUT-TABLE", CC, dflt, f"input defaults {dv.get('input')}", dv.get("input") == spec["defaults"], expected=str(spec["defaults"]))
    # schema selection over kinds(left disp) x kinds(right disp)
    cis = tree.func(CC, "check_input_section")
    chain = [s for s in stmts_of(cis) if isinstance(s, ast.If) and "isinstance" in src(s.test)]
    if not chain:
        raise AnalysisError("check_input_section: schema selection not found")
    sel: List[Tuple[Optional[Tuple[str, str]], str]] = []  # ((side, type), variant)

    def variant_of(body) -> str:
        for s in body:
            if isinstance(s, ast.Assign) and isinstance(s.value, ast.Name):
                return s.value.id
        raise AnalysisError("check_input_section: branch does not select a schema variant")

    cur = chain[0]
    while True:
        t = cur.test
        if not (isinstance(t, ast.Call) and (dotted(t.func) or "") == "isinstance" and isinstance(t.args[1], ast.Name)):
            raise AnalysisError("check_input_section: selection test is not isinstance(<disp>, <type>)")
        subj = canon(t.args[0])
        side = "left" if "['left']['disp']" in subj else "right" if "['right']['disp']" in subj else None
        if side is None:
            raise AnalysisError("check_input_section: selection subject is not a disparity")
        sel.append(((side, t.args[1].id), variant_of(cur.body)))
        if len(cur.orelse) == 1 and isinstance(cur.orelse[0], ast.If) and "isinstance" in src(cur.orelse[0].test):
            cur = cur.orelse[0]
        else:
            sel.append((None, variant_of(cur.orelse)))
            break
    variants: Dict[str, Dict[str, Any]] = {}
    for _, vn in sel:
        node = module_assign(tree, CC, vn)
        if not isinstance(node, ast.Dict):
            raise AnalysisError(f"{vn} is not a dict literal")
        vs = {}
        for k, v in zip(node.keys, node.values):
            if isinstance(k, ast.Constant) and isinstance(v, ast.Dict):
                for kk, vv in zip(v.keys, v.values):
                    if isinstance(kk, ast.Constant) and kk.value == "disp":
                        vs[k.value] = parse_checker(vv)
                ctx.ob("C17.INPUT-TABLE", CC, v, f"{vn}[{k.value}] overrides exactly the 'disp' entry", [kk.value for kk in v.keys if isinstance(kk, ast.Constant)] == ["disp"], detail="the variants are merged into the shared input schema with .update(): a variant with another key set leaves entries of a previous check behind")
        variants[vn] = vs
        # the integer form is a *pair*: json_checker's [int, int] alone means "non-empty list of ints"
        for k, v in zip(node.keys, node.values):
            if isinstance(k, ast.Constant) and isinstance(v, ast.Dict):
                for kk, vv in zip(v.keys, v.values):
                    if isinstance(kk, ast.Constant) and kk.value == "disp" and any(isinstance(x, ast.List) for x in ast.walk(vv)):
                        haslen = any(isinstance(x, ast.Compare) and isinstance(x.left, ast.Call) and (dotted(x.left.func) or "") == "len" and len(x.ops) == 1 and isinstance(x.ops[0], ast.Eq) and canon(x.comparators[0]) == "2" for x in ast.walk(vv))
                        ctx.ob("C17.INPUT-TABLE", CC, vv, f"{vn}[{k.value}]['disp'] = {canon(vv)[:90]} accepts a list of exactly two integers", haslen, expected="And([int, int], lambda input: len(input) == 2)", detail="a json_checker list rule [int, int] accepts every non-empty list of ints: [-60, 0, 5] passes the check and add_disparity silently drops everything after the second element")
    types = {"list": list, "str": str, "int": int, "float": float, "dict": dict}
    reps_l = {"list": [-60, 0], "str": "grid.tif", "None": None, "other": 5}
    accepted = set()
    for lk, lv in reps_l.items():
        for rk, rv in reps_l.items():
            chosen = None
            for cond, vn in sel:
                if cond is None:
                    chosen = vn
                    break
                side, ty = cond
                val = lv if side == "left" else rv
                if isinstance(val, types.get(ty, object)) and not isinstance(val, bool):
                    chosen = vn
                    break
            v = variants[chosen]
            if accepts(v["left"], lv, named) and accepts(v["right"], rv, named):
                accepted.add((lk, rk))
    want = {tuple(x) for x in spec["disp_table"]["accepted"]}
    ctx.ob("C17.INPUT-TABLE", CC, chain[0], f"accepted (left disp, right disp) kinds: {sorted(accepted)}", accepted == want, expected=str(sorted(want)), detail=f"wrongly accepted {sorted(accepted - want)}, wrongly refused {sorted(want - accepted)}")
    ctx.extra["disp_kind_pairs_evaluated"] = len(reps_l) ** 2
    # the merged schema is validated, then the custom checks run for both sides
    upd = [c for c in calls_in(cis) if isinstance(c.func, ast.Attribute) and c.func.attr == "update"]
    oku = sorted(canon(c.func.value) for c in upd) == ["input_configuration_schema['left']", "input_configuration_schema['right']"] and all(not guards_of(c, stop=cis) for c in upd)
    ctx.ob("C17.INPUT-TABLE", CC, upd[0] if upd else cis, "check_input_section merges the selected variant into both sides of the input schema, unconditionally", oku)
    val = [c for c in calls_in(cis) if isinstance(c.func, ast.Attribute) and c.func.attr == "validate"]
    okv = len(val) == 1 and canon(val[0].args[0]) == "cfg" and not guards_of(val[0], stop=cis)
    ctx.ob("C17.INPUT-TABLE", CC, val[0] if val else cis, f"check_input_section: {src(val[0]) if val else 'validate missing'}", okv, expected="checker.validate(cfg)")
    dc = [c for c in calls_in(cis) if (dotted(c.func) or "") == "check_disparities_from_input"]
    got = sorted(tuple(canon(a) for a in c.args) for c in dc)
    wantc = sorted([("cfg['input']['left']['disp']", "cfg['input']['left']['img']"), ("cfg['input']['right']['disp']", "cfg['input']['right']['img']")])
    ctx.ob("C17.INPUT-TABLE", CC, dc[0] if dc else cis, f"check_input_section: check_disparities_from_input on {got}", got == wantc and all(not guards_of(c, stop=cis) for c in dc), expected=str(wantc))
    ci = [c for c in calls_in(cis) if (dotted(c.func) or "") == "check_images"]
    ctx.ob("C17.INPUT-TABLE", CC, ci[0] if ci else cis, f"check_input_section: {src(ci[0]) if ci else 'check_images missing'}", len(ci) == 1 and canon(ci[0].args[0]) == "cfg['input']" and not guards_of(ci[0], stop=cis))
    cdf = tree.func(CC, "check_disparities_from_input")
    dp = cdf.args.args[0].arg
    ok, st, _ = _raises_under(cdf, f"isinstance({dp}, list) and {dp}[1] < {dp}[0]")
    ctx.ob("C17.INPUT-TABLE", CC, st or cdf, f"check_disparities_from_input (interval): {src(st.test) if st else 'missing'}", ok, expected=f"isinstance({dp}, list) and {dp}[1] < {dp}[0] -> raise", detail="refusal iff max < min (strict): [3, 3] is a well-formed interval")
    for want, what in (("disparity_reader.count != 2", "2-band grid"), ("(disparity_reader.width != img_left_.width) or (disparity_reader.height != img_left_.height)", "grid of the image size"), ("(disparity_reader.read(1) > disparity_reader.read(2)).any()", "min <= max everywhere (strict >, any())")):
        ok, st, _ = _raises_under(cdf, want)
        gs = [canon(t) for t, pol in guards_of(st, stop=cdf)] if st else []
        okg = gs == [f"isinstance({dp}, str)"] or gs == [canon(_e(f"isinstance({dp}, str)"))]
        ctx.ob("C17.INPUT-TABLE", CC, st or cdf, f"check_disparities_from_input (grid): {what}: {src(st.test)[:100] if st else 'missing'}", ok and okg, expected=f"if isinstance({dp}, str): if {want}: raise", detail="the list form and the grid form must apply the same rule (refuse iff min > max somewhere)")
    cim = tree.func(CC, "check_images")
    uc = cim.args.args[0].arg
    first = [c for c in calls_in(cim) if (dotted(c.func) or "") == "check_image_dimension" and not enclosing_loops(c)]
    ctx.ob("C17.INPUT-TABLE", CC, first[0] if first else cim, f"check_images: left and right images have the same size: {src(first[0]) if first else 'missing'}", len(first) == 1 and [canon(a) for a in first[0].args] == ["left_", "right_"])
    loops = [l for l in walk_no_nested(cim) if isinstance(l, ast.For)]
    okl = False
    if loops:
        lp = loops[0]
        v = lp.target.id if isinstance(lp.target, ast.Name) else "?"
        it = Defs(cim).expand(lp.iter, lp, depth=2)
        okl = canon(it) in ("['mask', 'classif', 'segm']", "('mask', 'classif', 'segm')")
        ifs = [s for s in lp.body if isinstance(s, ast.If)]
        # two independent ifs (not if/elif), one per side
        okl = okl and len(ifs) == 2 and all(not s.orelse for s in ifs)
        for s, side, ref in zip(ifs, ("left", "right"), ("left_", "right_")):
            wt = boolform(_e(f"{v} in {uc}['{side}'] and {uc}['{side}'][{v}] is not None"))
            okl = okl and equivalent(boolform(s.test), wt) is None
            cc = [c for c in calls_in(s) if (dotted(c.func) or "") == "check_image_dimension"]
            okl = okl and len(cc) == 1 and canon(cc[0].args[0]) == ref and canon(cc[0].args[1]) == f"rasterio_open({uc}['{side}'][{v}])"
    ctx.ob("C17.INPUT-TABLE", CC, loops[0] if loops else cim, "check_images: mask / classif / segm of each side, when given, have the size of that side's image (two independent tests per kind)", okl, detail="a right auxiliary raster must be size-checked whether or not the left side has one of the same kind (if/elif skips it)")
    cid = tree.func(CC, "check_image_dimension")
    i1, i2 = [x.arg for x in cid.args.args][:2]
    ok, st, _ = _raises_under(cid, f"({i1}.width != {i2}.width) or ({i1}.height != {i2}.height)")
    ctx.ob("C17.INPUT-TABLE", CC, st or cid, f"check_image_dimension: {src(st.test) if st else 'missing'}", ok)


def rule_before(ctx: Ctx) -> None:
    tree = ctx.tree
    mn = tree.func(INIT, "main")
    for p in normal_paths(mn):
        names = [(dotted(e[1].func) or "") for e in p.events if e[0] == "call"]
        def idx(n):
            return names.index(n) if n in names else -1
        ok = 0 <= idx("check_conf") < idx("run") and 0 <= idx("check_datasets") < idx("run")
        ctx.ob("C17.BEFORE-MATCHING", INIT, mn, "main: check_conf and check_datasets precede run on every path", ok, detail="refusal must happen before any matching starts")
    cc = tree.func(CC, "check_conf")
    for p in normal_paths(cc):
        names = [(dotted(e[1].func) or "") for e in p.events if e[0] == "call"]
        ok = "check_input_section" in names and "check_pipeline_section" in names and names.index("check_input_section") < names.index("check_pipeline_section")
        ctx.ob("C17.BEFORE-MATCHING", CC, cc, "check_conf: check_input_section then check_pipeline_section", ok)


def run(ctx: Ctx) -> None:
    rule_dataset(ctx)
    rule_input(ctx)
    rule_before(ctx)


SPEC = PropSpec(
    pid="C17",
    title="Malformed inputs are refused up front; well-formed inputs never are",
    explanation=(
        "Decides the decision structure of both checkers. Dataset checking: every acyclic path of check_dataset passes through the band-name, all-NaN (all()), disparity (iff present), "
        "shape (a loop over every variable except the image) and attribute checks; each refusal's predicate is compared by boolean equivalence with the documented one (strict `>` with any() for crossed "
        "disparities, `!=` on the last two axes, the set of five mandatory attributes, band names all str, min/max bands). Input section: each entry of the input schema is evaluated with the json_checker "
        "model over the value-space partition (nodata int|NaN, mask/classif/segm str|None, img str); the schema-selection chain is evaluated over kinds(left disp) x kinds(right disp) and must accept exactly "
        "{(list, None), (str, None), (str, str)}; each variant overrides exactly the 'disp' entry; validation is followed by check_disparities_from_input on both sides (max < min strict for lists; 2 bands, "
        "image size and min > max anywhere for grids) and check_images (two independent per-side tests for mask/classif/segm). main checks configuration and datasets before run."
    ),
    rule_text="instances: every refusal test and must-call of the 8 dataset-check functions (paths with 0/1/2 extra variables), every entry of the input schema, the 16 (left, right) disparity kind pairs, the refusals of the 4 input-check functions",
    run=run,
    not_decided=["anything that depends on file contents beyond 'the check is called' (readable path, raster size)", "`[int, int]` also accepts integer lists of other lengths (json_checker's list rule; observation, not armed)"],
    trusted=["json_checker 2.0.0 model (pvs/jsonchk.py)", "rasterio_can_open accepts str|None, rasterio_can_open_mandatory accepts str (file readability is library behaviour)"],
)

MUTANTS = [
    {"id": "disparity-list-of-any-length", "file": CC, "old": '        "disp": And([int, int], lambda input: len(input) == 2),\n', "new": '        "disp": [int, int],\n'},
    {"id": "min-ge-max-refused", "file": CC, "old": '(disparity.sel(band_disp="min").data > disparity.sel(band_disp="max").data).any()', "new": '(disparity.sel(band_disp="min").data >= disparity.sel(band_disp="max").data).any()'},
    {"id": "drop-shape-loop", "file": CC, "old": '    for data_var in filter(lambda i: i != "im", dataset):\n        check_shape(dataset=dataset, ref="im", test=str(data_var))\n', "new": ""},
    {"id": "shape-loop-fixed-list", "file": CC, "old": '    for data_var in filter(lambda i: i != "im", dataset):\n        check_shape(dataset=dataset, ref="im", test=str(data_var))\n', "new": '    for data_var in ("msk", "classif", "segm"):\n        if data_var in dataset:\n            check_shape(dataset=dataset, ref="im", test=str(data_var))\n'},
    {"id": "attrs-lose-crs", "file": CC, "old": '{"no_data_img", "valid_pixels", "no_data_mask", "crs", "transform"}', "new": '{"no_data_img", "valid_pixels", "no_data_mask", "transform"}'},
    {"id": "right-dataset-unchecked", "file": CC, "old": "    check_dataset(left)\n    check_dataset(right)\n", "new": "    check_dataset(left)\n"},
    {"id": "accept-list-list", "file": CC, "old": 'input_configuration_schema_integer_disparity: Mapping = {\n    "left": {\n        "disp": And([int, int], lambda input: len(input) == 2),\n    },\n    "right": {\n        "disp": (lambda input: input is None),', "new": 'input_configuration_schema_integer_disparity: Mapping = {\n    "left": {\n        "disp": [int, int],\n    },\n    "right": {\n        "disp": Or([int, int], lambda input: input is None),'},
    {"id": "nodata-or-int-float", "file": CC, "old": '        "nodata": Or(int, lambda input: np.isnan(input)),\n        "mask": And(Or(str, lambda input: input is None), rasterio_can_open),\n        "classif": And(Or(str, lambda x: x is None), rasterio_can_open),\n        "segm": And(Or(str, lambda x: x is None), rasterio_can_open),\n    },\n    "right"', "new": '        "nodata": Or(int, float),\n        "mask": And(Or(str, lambda input: input is None), rasterio_can_open),\n        "classif": And(Or(str, lambda x: x is None), rasterio_can_open),\n        "segm": And(Or(str, lambda x: x is None), rasterio_can_open),\n    },\n    "right"'},
    {"id": "check_datasets-after-run", "file": INIT, "old": "    # Check datasets: shape, format and content\n    check_datasets(img_left, img_right)\n\n    # Run the Pandora pipeline\n    left, right = run(pandora_machine, img_left, img_right, cfg)\n", "new": "    # Run the Pandora pipeline\n    left, right = run(pandora_machine, img_left, img_right, cfg)\n\n    # Check datasets: shape, format and content\n    check_datasets(img_left, img_right)\n"},
    {"id": "allnan-any", "file": CC, "old": 'if np.isnan(dataset["im"].data).all():', "new": 'if np.isnan(dataset["im"].data).any():'},
    {"id": "right-aux-elif", "file": CC, "old": '        if img in user_cfg["right"] and user_cfg["right"][img] is not None:', "new": '        elif img in user_cfg["right"] and user_cfg["right"][img] is not None:'},
    {"id": "grid-min-ge-max", "file": CC, "old": "if (disparity_reader.read(1) > disparity_reader.read(2)).any():", "new": "if (disparity_reader.read(1) >= disparity_reader.read(2)).any():"},
    {"id": "interval-le", "file": CC, "old": "if isinstance(disparity, list) and disparity[1] < disparity[0]:", "new": "if isinstance(disparity, list) and disparity[1] <= disparity[0]:"},
    {"id": "left-disparity-optional", "file": CC, "old": '    if "disparity" not in left:\n        raise AttributeError("left dataset must have disparity DataArray")\n', "new": ""},
    {"id": "eq-set-constructor", "kind": "equiv", "file": CC, "old": '{"no_data_img", "valid_pixels", "no_data_mask", "crs", "transform"}', "new": 'set(["crs", "transform", "no_data_img", "valid_pixels", "no_data_mask"])'},
    {"id": "eq-reorder-checks", "kind": "equiv", "file": CC, "old": "    # Check the dataset content\n    check_dataset(left)\n    check_dataset(right)\n", "new": "    # Check the dataset content\n    check_dataset(right)\n    check_dataset(left)\n"},
    {"id": "eq-lt-rewritten", "kind": "equiv", "file": CC, "old": "if isinstance(disparity, list) and disparity[1] < disparity[0]:", "new": "if isinstance(disparity, list) and disparity[0] > disparity[1]:"},
]
