"""C15 -- a multiscale step really processes num_scales scales, coarse to fine (structural clauses)."""
from __future__ import annotations

import ast
from typing import Dict, List, Optional, Set, Tuple

from ..astx import calls_in, dotted, guards_of, kwarg, self_attr, src, stmts_of, walk_no_nested
from ..core import AnalysisError, Ctx, PropSpec
from ..defuse import Defs
from ..effects import program
from ..rules_blocks import check_block_nest
from ..rules_effects import check_function_effects, rule_inputs
from ..rules_flags import flag_constants, flag_name
from ..rules_sm import MACHINE, SM, machine_methods, rule_mirror
from ..sym import boolform, canon, equivalent, poly

INIT = "pandora/__init__.py"
CC = "pandora/check_configuration.py"
IMG = "pandora/img_tools.py"
FZP = "pandora/multiscale/fixed_zoom_pyramid.py"
MS = "pandora/multiscale/multiscale.py"
STEPS = {"matching_cost", "aggregation", "optimization", "semantic_segmentation", "cost_volume_confidence", "disparity", "filter", "refinement", "validation", "multiscale"}
INTERVAL_ATTRS = {"disp_min", "disp_max", "right_disp_min", "right_disp_max", "dmin_user", "dmax_user", "dmin_user_right", "dmax_user_right"}


def _e(t: str) -> ast.AST:
    return ast.parse(t, mode="eval").body


def _level(fn: ast.AST, name: str) -> Set[str]:
    """'top' when the parameter is subscripted with 'pipeline'/'input', 'pipeline' when subscripted with a step name
    or tested for a step name."""
    out: Set[str] = set()
    for n in walk_no_nested(fn):
        if isinstance(n, ast.Subscript) and isinstance(n.value, ast.Name) and n.value.id == name and isinstance(n.slice, ast.Constant):
            if n.slice.value in ("pipeline", "input"):
                out.add("top")
            elif n.slice.value in STEPS:
                out.add("pipeline")
        if isinstance(n, ast.Compare) and len(n.ops) == 1 and isinstance(n.ops[0], (ast.In, ast.NotIn)) and isinstance(n.comparators[0], ast.Name) and n.comparators[0].id == name and isinstance(n.left, ast.Constant):
            if n.left.value in STEPS:
                out.add("pipeline")
            elif n.left.value in ("pipeline", "input"):
                out.add("top")
    return out


def rule_cfg_level(ctx: Ctx) -> int:
    """Config-path typing: every call passes the configuration level its callee uses."""
    tree = ctx.tree
    prog = program(tree)
    n = 0
    for rel in (INIT, CC, SM):
        for q, fn in sorted(tree.funcs(rel).items()):
            params = [a.arg for a in fn.args.args]
            lv = {p: _level(fn, p) for p in params}
            for p, s in lv.items():
                if len(s) > 1:
                    n += 1
                    ctx.ob("C15.CFG-LEVEL", rel, fn, f"{q}: parameter `{p}` is used both as the whole configuration and as the pipeline section", False, detail="a key looked up at the wrong level is never found: the step it configures silently does nothing")
            for c in calls_in(fn):
                for crel, cq, shift in prog.resolve_call(rel, fn, c, {}):
                    cfn = prog.funcs[(crel, cq)]
                    cparams = [a.arg for a in cfn.args.args][shift:]
                    for i, a in enumerate(c.args):
                        if i >= len(cparams) or isinstance(a, ast.Starred):
                            continue
                        want = _level(cfn, cparams[i])
                        if not want:
                            continue
                        got: Set[str] = set()
                        if isinstance(a, ast.Name) and a.id in lv:
                            got = lv[a.id]
                        elif isinstance(a, ast.Subscript) and isinstance(a.value, ast.Name) and isinstance(a.slice, ast.Constant) and a.slice.value == "pipeline":
                            got = {"pipeline"}
                        if not got:
                            continue
                        n += 1
                        ctx.ob("C15.CFG-LEVEL", rel, c, f"{q} -> {cq}({cparams[i]}=<{canon(a)}>): caller passes {sorted(got)}, callee uses {sorted(want)}", got == want, detail="the callee looks its keys up at another level of the configuration than the one it is given: the lookup always fails (e.g. 'multiscale' searched at the top level, where only 'input' and 'pipeline' live, so every multiscale pipeline runs one scale)", expected="same configuration level on both sides")
    return n


def rule_arity(ctx: Ctx) -> int:
    """Every instantiation of a registry family passes the positional arguments its __new__ requires."""
    tree = ctx.tree
    prog = program(tree)
    n = 0
    for rel in tree.py_files("pandora"):
        for q, fn in sorted(tree.funcs(rel).items()):
            for c in calls_in(fn):
                d = dotted(c.func) or ""
                if not d.split(".")[-1].startswith("Abstract") or d.endswith("register_subclass"):
                    continue
                r = prog.resolve_symbol(rel, d)
                if not r or r[0] != "class":
                    continue
                new = prog.find_method(r[1], r[2], "__new__")
                if new is None:
                    continue
                nf = prog.funcs[new]
                pos = [a.arg for a in nf.args.args][1:]
                req = len(pos) - len(nf.args.defaults)
                given = len([a for a in c.args if not isinstance(a, ast.Starred)])
                kws = {k.arg for k in c.keywords if k.arg}
                missing = [p for p in pos[:req][given:] if p not in kws]
                has_star = any(isinstance(a, ast.Starred) for a in c.args)
                n += 1
                ctx.ob("C15.ARITY", rel, c, f"{q}: {d}({given} positional, **cfg) vs __new__({', '.join(pos)})", has_star or (not missing and given <= len(pos)), detail=f"the constructor requires {pos[:req]}: this call omits {missing} and raises TypeError as soon as it is reached (hidden from the type checker by `# type: ignore`)", expected=f"{req} positional argument(s) before the configuration")
    return n


def run(ctx: Ctx) -> None:
    tree = ctx.tree
    n = rule_cfg_level(ctx)
    ctx.floor("C15.CFG-LEVEL", n, 2)
    n = rule_arity(ctx)
    ctx.floor("C15.ARITY", n, 15)
    from ..rules_sm import rule_step_key

    ctx.floor("C15.STEP-KEY(functions)", rule_step_key(ctx, "C15.STEP-KEY"), 40)

    # ---- read_multiscale_params / pandora.run
    rm = tree.func(CC, "read_multiscale_params")
    p0 = rm.args.args[0].arg
    top = [s for s in stmts_of(rm) if isinstance(s, ast.If)]
    dm = Defs(rm)
    # the multiscale step is selected among the keys of the *pipeline* section, by its family name (any suffix);
    # the exact-key form `'multiscale' in cfg['pipeline']` is at the right level too (C15.STEP-KEY reports it)
    sel_name, sel_ok, sel_txt = None, False, "?"
    for name, ds in dm.defs.items():
        for st, val, pos in ds:
            if isinstance(val, (ast.ListComp, ast.GeneratorExp)) and len(val.generators) == 1 and isinstance(val.generators[0].target, ast.Name):
                g = val.generators[0]
                v = g.target.id
                sel_name, sel_txt = name, src(val)
                sel_ok = canon(g.iter) == f"{p0}['pipeline']" and canon(val.elt) == v and len(g.ifs) == 1 and equivalent(boolform(g.ifs[0]), boolform(_e(f"{v}.split('.')[0] == 'multiscale'"))) is None
    inst = [c for c in calls_in(rm) if (dotted(c.func) or "").endswith("AbstractMultiscale")]
    if sel_name is not None:
        okt = sel_ok and bool(top) and canon(top[0].test) in (sel_name, f"{{[-len({sel_name})]<0}}", f"{{!([len({sel_name})]==0)}}")
        ctx.ob("C15.CFG-LEVEL", CC, top[0] if top else rm, f"read_multiscale_params: {sel_name} = {sel_txt[:110]}; if {src(top[0].test) if top else '?'}", okt, expected=f"[step for step in {p0}['pipeline'] if step.split('.')[0] == 'multiscale'], tested for emptiness", detail="the multiscale step lives in the pipeline section and is recognised by the part of its name before the dot")
        oki = len(inst) == 1 and any(k.arg is None and canon(k.value) == f"{p0}['pipeline'][{sel_name}[0]]" for k in inst[0].keywords)
        ctx.ob("C15.CFG-LEVEL", CC, inst[0] if inst else rm, f"read_multiscale_params: {src(inst[0])[:110] if inst else '?'}", oki, expected=f"AbstractMultiscale(left, right, **{p0}['pipeline'][{sel_name}[0]])")
    else:
        okt = bool(top) and equivalent(boolform(top[0].test), boolform(_e(f"'multiscale' in {p0}['pipeline']"))) is None
        ctx.ob("C15.CFG-LEVEL", CC, top[0] if top else rm, f"read_multiscale_params: if {src(top[0].test) if top else '?'}", okt, expected=f"'multiscale' in {p0}['pipeline']", detail="the multiscale step lives in the pipeline section")
        oki = len(inst) == 1 and any(k.arg is None and canon(k.value) == f"{p0}['pipeline']['multiscale']" for k in inst[0].keywords)
        ctx.ob("C15.CFG-LEVEL", CC, inst[0] if inst else rm, f"read_multiscale_params: {src(inst[0])[:110] if inst else '?'}", oki, expected=f"AbstractMultiscale(left, right, **{p0}['pipeline']['multiscale'])")
    rets = [r for r in walk_no_nested(rm) if isinstance(r, ast.Return)]
    d = Defs(rm)
    okr = bool(rets) and isinstance(rets[0].value, ast.Tuple) and [canon(e) for e in rets[0].value.elts] == ["num_scales", "scale_factor"]
    ns = [canon(x[1]) for x in d.all_defs("num_scales")]
    sf = [canon(x[1]) for x in d.all_defs("scale_factor")]
    okr = okr and sorted(ns) == sorted(["multiscale_.cfg['num_scales']", "1"]) and sorted(sf) == sorted(["multiscale_.cfg['scale_factor']", "1"])
    ctx.ob("C15.CFG-LEVEL", CC, rets[0] if rets else rm, f"read_multiscale_params returns (num_scales {ns}, scale_factor {sf})", okr, expected="(cfg num_scales | 1, cfg scale_factor | 1) in that order")

    # ---- pyramid
    rp = tree.func(SM, f"{MACHINE}.run_prepare")
    li, ri = rp.args.args[2].arg, rp.args.args[3].arg
    pc = [c for c in calls_in(rp) if (dotted(c.func) or "") == "prepare_pyramid"]
    okp = len(pc) == 1 and [canon(a) for a in pc[0].args] in ([li, ri, "self.num_scales", "scale_factor"], [li, ri, "self.num_scales", "self.scale_factor"], [li, ri, "num_scales", "scale_factor"])
    ctx.ob("C15.PYRAMID", SM, pc[0] if pc else rp, f"run_prepare: {src(pc[0]) if pc else '?'}", okp, expected="prepare_pyramid(left_img, right_img, num_scales, scale_factor)", detail="argument order: images, then the number of scales, then the scale factor")
    par = getattr(pc[0], "_parent", None) if pc else None
    okt = isinstance(par, ast.Assign) and isinstance(par.targets[0], ast.Tuple) and [canon(e) for e in par.targets[0].elts] == ["self.img_left_pyramid", "self.img_right_pyramid"]
    ctx.ob("C15.PYRAMID", SM, par if par is not None else rp, "run_prepare: (self.img_left_pyramid, self.img_right_pyramid) = prepare_pyramid(...)", okt)
    gs = guards_of(pc[0], stop=rp) if pc else []
    okg = len(gs) == 1 and gs[0][1] and equivalent(boolform(gs[0][0]), boolform(_e("self.num_scales > 1"))) is None
    ctx.ob("C15.PYRAMID", SM, pc[0] if pc else rp, f"run_prepare: pyramid built iff {src(gs[0][0]) if gs else '?'}", okg, expected="self.num_scales > 1")
    for fnq, fn in (("run_prepare", rp), ("run_multiscale", machine_methods(tree)["run_multiscale"])):
        pops = {canon(s.targets[0]): canon(s.value) for s in walk_no_nested(fn) if isinstance(s, ast.Assign) and self_attr(s.targets[0]) in ("left_img", "right_img") and "pop" in src(s.value)}
        okpop = pops == {"self.left_img": "self.img_left_pyramid.pop(0)", "self.right_img": "self.img_right_pyramid.pop(0)"}
        ctx.ob("C15.PYRAMID", SM, fn, f"{fnq}: next level = {pops}", okpop, expected="self.left_img = self.img_left_pyramid.pop(0); self.right_img = self.img_right_pyramid.pop(0)", detail="levels must be consumed from the front of the coarse-to-fine lists, the same level for both images")
    pp = tree.func(IMG, "prepare_pyramid")
    a = [x.arg for x in pp.args.args]
    pg = [c for c in calls_in(pp) if (dotted(c.func) or "") == "pyramid_gaussian"]
    okpg = len(pg) == 2 and all(canon(kwarg(c, "max_layer")) == f"-1 + {a[2]}" and canon(kwarg(c, "downscale")) == a[3] for c in pg) and [canon(c.args[0]) for c in pg] == ["img_left_fill", "img_right_fill"]
    ctx.ob("C15.PYRAMID", IMG, pg[0] if pg else pp, f"prepare_pyramid: pyramid_gaussian(max_layer={canon(kwarg(pg[0], 'max_layer')) if pg else '?'}, downscale={canon(kwarg(pg[0], 'downscale')) if pg else '?'}) x{len(pg)}", okpg, expected=f"max_layer={a[2]} - 1, downscale={a[3]} for the left and the right image", detail="num_scales levels including the original, each level scale_factor times smaller")
    mp = [c for c in calls_in(pp) if (dotted(c.func) or "") == "masks_pyramid"]
    okmp = len(mp) == 2 and all([canon(x) for x in c.args][1:] == [a[3], a[2]] for c in mp)
    ctx.ob("C15.PYRAMID", IMG, mp[0] if mp else pp, f"prepare_pyramid: masks_pyramid(msk, {a[3]}, {a[2]}) x{len(mp)}", okmp, expected="masks decimated with the same factor and number of scales")
    rets = [r for r in walk_no_nested(pp) if isinstance(r, ast.Return)]
    okrv = bool(rets) and canon(rets[0].value) == "(pyramid_left[::-1], pyramid_right[::-1])"
    ctx.ob("C15.PYRAMID", IMG, rets[0] if rets else pp, f"prepare_pyramid returns {canon(rets[0].value) if rets else '?'}", okrv, expected="(pyramid_left[::-1], pyramid_right[::-1])", detail="the lists must be ordered from the coarsest level to the original images")
    cv = [c for c in calls_in(pp) if (dotted(c.func) or "") == "convert_pyramid_to_dataset"]
    okcv = len(cv) == 2 and [canon(x) for x in cv[0].args] == [a[0], "images_left", "masks_left"] and [canon(x) for x in cv[1].args] == [a[1], "images_right", "masks_right"]
    ctx.ob("C15.PYRAMID", IMG, cv[0] if cv else pp, "prepare_pyramid: convert_pyramid_to_dataset(img, images, masks) for left then right", okcv)
    cp = tree.func(IMG, "convert_pyramid_to_dataset")
    io = cp.args.args[0].arg
    first = [s for s in walk_no_nested(cp) if isinstance(s, ast.If) and "index" in src(s.test)]
    okf = bool(first) and equivalent(boolform(first[0].test), boolform(_e("index == 0"))) is None and any(isinstance(x, ast.Expr) and canon(x.value) == f"pyramid.append({io})" for x in first[0].body) and any(isinstance(x, ast.Continue) for x in first[0].body)
    ctx.ob("C15.PYRAMID", IMG, first[0] if first else cp, "convert_pyramid_to_dataset: level 0 is the caller's dataset itself", okf, expected=f"if index == 0: pyramid.append({io}); continue", detail="the last scale must run on the original images (with their disparity, classification, ...), so that the returned maps have the original size and content")
    mk = tree.func(IMG, "masks_pyramid")
    dec = [s for s in walk_no_nested(mk) if isinstance(s, ast.Assign) and "::" in canon(s.value)]
    okd = bool(dec) and canon(dec[0].value) == f"tmp_msk[(::{mk.args.args[1].arg}, ::{mk.args.args[1].arg})]"
    lp = [s for s in walk_no_nested(mk) if isinstance(s, ast.For)]
    okd = okd and bool(lp) and canon(lp[0].iter) == f"range(-1 + {mk.args.args[2].arg})"
    ctx.ob("C15.PYRAMID", IMG, dec[0] if dec else mk, f"masks_pyramid: {src(dec[0]) if dec else '?'} for {src(lp[0].iter) if lp else '?'}", okd, expected="num_scales - 1 decimations by scale_factor on both axes")
    # coordinate names used through attribute access exist
    known = {"band_im", "band_classif", "band_disp"}
    for rel in (IMG, SM, "pandora/matching_cost/matching_cost.py"):
        for q, fn in sorted(tree.funcs(rel).items()):
            for node in walk_no_nested(fn):
                if isinstance(node, ast.Attribute) and node.attr.startswith("band") and isinstance(node.value, ast.Name):
                    ctx.ob("C15.BANDS", rel, node, f"{q}: coordinate `{src(node)}`", node.attr in known, expected=f"one of {sorted(known)}", detail="image datasets carry band_im / band_classif / band_disp: another name raises AttributeError on multiband inputs")

    # ---- scaling of the intervals
    multi = [s for s in stmts_of(rp) if isinstance(s, ast.If) and "num_scales" in src(s.test) and ">" in src(s.test)]
    if not multi:
        raise AnalysisError("run_prepare: multiscale branch not found")
    mb = multi[0].body
    for attr, band in (("disp_min", "min"), ("disp_max", "max")):
        ss = [s for s in mb if isinstance(s, ast.Assign) and self_attr(s.targets[0]) == attr]
        want = poly(_e(f"{li}['disparity'].sel(band_disp='{band}') / (self.scale_factor ** self.num_scales)"))
        exv = Defs(rp).expand(ss[0].value, ss[0], depth=2) if ss else None
        ok = len(ss) == 1 and isinstance(exv, ast.BinOp) and isinstance(exv.op, ast.Div) and poly(exv) == want and not any(isinstance(x, ast.BinOp) and isinstance(x.op, ast.FloorDiv) for x in ast.walk(exv))
        ctx.ob("C15.SCALING", SM, ss[0] if ss else rp, f"run_prepare: {src(ss[0])[:120] if ss else '?'}", ok, expected=f"{li}['disparity'].sel(band_disp='{band}') / (scale_factor ** num_scales)  (true division, once)", detail="the first matching_cost_prepare multiplies by scale_factor, so the coarsest level searches the user interval / scale_factor^(num_scales-1); a floor division or another exponent changes every level's interval")
    alias = {canon(s.targets[0]): canon(s.value) for s in mb if isinstance(s, ast.Assign) and self_attr(s.targets[0]) in ("dmin_user", "dmax_user", "dmin_user_right", "dmax_user_right", "right_disp_min", "right_disp_max")}
    okal = alias == {"self.dmin_user": "self.disp_min", "self.dmax_user": "self.disp_max", "self.right_disp_min": "-self.disp_max", "self.right_disp_max": "-self.disp_min", "self.dmin_user_right": "self.right_disp_min", "self.dmax_user_right": "self.right_disp_max"}
    ctx.ob("C15.SCALING", SM, multi[0], f"run_prepare: user intervals {alias}", okal, expected="dmin_user = disp_min, dmax_user = disp_max, right = (-max, -min), right user = right")
    # the interval attributes alias each other after run_prepare: never update them in place
    for name, fn in machine_methods(tree).items():
        for st in walk_no_nested(fn):
            if isinstance(st, ast.AugAssign) and self_attr(st.target) in INTERVAL_ATTRS:
                ctx.ob("C15.SCALING", SM, st, f"{name}: `{src(st)}`", False, detail="run_prepare binds the user interval to the same object as the searched interval (self.dmin_user = self.disp_min): an in-place update scales both, so the user interval is scaled twice per level", expected="self.x = self.x * self.scale_factor (a new object)")
    mcp = machine_methods(tree)["matching_cost_prepare"]
    rmu = machine_methods(tree)["run_multiscale"]
    for fn, attrs in ((mcp, ("disp_min", "disp_max", "right_disp_min", "right_disp_max")), (rmu, ("dmin_user", "dmax_user", "dmin_user_right", "dmax_user_right"))):
        for a_ in attrs:
            ss = [s for s in walk_no_nested(fn) if isinstance(s, ast.Assign) and len(s.targets) == 1 and self_attr(s.targets[0]) == a_]
            ok = len(ss) == 1 and poly(ss[0].value) == poly(_e(f"self.{a_} * self.scale_factor"))
            ctx.ob("C15.SCALING", SM, ss[0] if ss else fn, f"{fn.name}: {src(ss[0]) if ss else a_ + ' not rescaled'}", ok, expected=f"self.{a_} = self.{a_} * self.scale_factor, exactly once per level", detail="each level multiplies the interval of the coarser level by scale_factor exactly once")
    dr = [c for c in calls_in(rmu) if isinstance(c.func, ast.Attribute) and c.func.attr == "disparity_range"]
    okdr = len(dr) == 2 and [canon(x) for x in dr[0].args] == ["self.left_disparity", "self.dmin_user", "self.dmax_user"]
    par = getattr(dr[0], "_parent", None) if dr else None
    okdr = okdr and isinstance(par, ast.Assign) and isinstance(par.targets[0], ast.Tuple) and [canon(e) for e in par.targets[0].elts] == ["self.disp_min", "self.disp_max"]
    ctx.ob("C15.SCALING", SM, dr[0] if dr else rmu, f"run_multiscale: {src(par)[:130] if par is not None else '?'}", okdr, expected="self.disp_min, self.disp_max = multiscale_.disparity_range(self.left_disparity, self.dmin_user, self.dmax_user)")
    k = rule_mirror(ctx, "C15.MIRROR", only=["run_multiscale", "matching_cost_prepare"])
    ctx.floor("C15.MIRROR", k, 2)

    # ---- disparity_range
    f = tree.func(FZP, "FixedZoomPyramid.disparity_range")
    dp, dmn, dmx = [x.arg for x in f.args.args][1:4]
    d = Defs(f)
    check_block_nest(ctx, "C15.BLOCKS", FZP, "FixedZoomPyramid.disparity_range", start="offset")
    # the two range maps hold sub-pixel bounds: they must be floating point (an integer map truncates toward zero)
    from ..rules_dtype import F32, F64, dtype_of

    fd = Defs(f)
    for name in ("disp_min_range", "disp_max_range"):
        al = fd.all_defs(name)
        if not al:
            raise AnalysisError(f"disparity_range: allocation of {name} not found")
        k = dtype_of(al[0][1], fd, al[0][0])
        okk = k in (F32, F64) or (k.startswith("like:") and "disparity_map" in k)
        if k == "?":
            raise AnalysisError(f"disparity_range: dtype of `{name} = {src(al[0][1])[:80]}` cannot be classified")
        ctx.ob("C15.RANGE", FZP, al[0][0], f"{name} allocated as {k}: {src(al[0][1])[:80]}", okk, expected="np.full_like(disparity map, ...) or an explicit float dtype", detail="the map receives nanmin/nanmax of sub-pixel coarse disparities -/+ marge: stored in an integer array they are truncated toward zero before up-scaling, so the finer level searches a shifted interval")
    od = d.all_defs("offset")
    ctx.ob("C15.RANGE", FZP, od[0][0] if od else f, f"offset = {canon(od[0][1]) if od else '?'}", bool(od) and canon(od[0][1]) == f"int(-1/2 + 1/2*{dp}.attrs['window_size'])", expected="int((window_size - 1) / 2)")
    sw = [c for c in calls_in(f) if (dotted(c.func) or "") == "sliding_window"]
    oksw = len(sw) == 1 and canon(sw[0].args[0]) == "tmp_disp_map" and canon(sw[0].args[1]) == f"({dp}.attrs['window_size'], {dp}.attrs['window_size'])"
    ctx.ob("C15.RANGE", FZP, sw[0] if sw else f, f"{src(sw[0]) if sw else 'sliding_window'}", oksw, expected="windows of the matching window size over the map with invalid disparities set to NaN")
    stores = [s for s in walk_no_nested(f) if isinstance(s, ast.Assign) and isinstance(s.targets[0], ast.Subscript) and isinstance(s.targets[0].slice, ast.Tuple) and all(isinstance(e, ast.Slice) for e in s.targets[0].slice.elts)]
    got = {canon(s.targets[0].value): canon(s.value) for s in stores}
    okst = len(got) == 2 and any(k.startswith("disp_min") and "np.nanmin(" in v and v.endswith("-self._marge") or k.startswith("disp_min") and v.startswith("-self._marge + np.nanmin(") for k, v in got.items())
    vmin = got.get("disp_min_range", "")
    vmax = got.get("disp_max_range", "")
    okst = poly_eq(vmin_node(stores, "disp_min_range"), "np.nanmin(disp_chunked_x[row], axis=(2, 3)) - self._marge") and poly_eq(vmin_node(stores, "disp_max_range"), "np.nanmax(disp_chunked_x[row], axis=(2, 3)) + self._marge")
    ctx.ob("C15.RANGE", FZP, stores[0] if stores else f, f"min range = {vmin[:70]} ; max range = {vmax[:70]}", okst, expected="nanmin(window) - marge for the min, nanmax(window) + marge for the max, over the window axes (2, 3)", detail="the interval searched at the finer level is [min - marge, max + marge] of the valid coarse disparities in the window")
    inv = [s for s in walk_no_nested(f) if isinstance(s, ast.Assign) and isinstance(s.targets[0], ast.Subscript) and canon(s.targets[0].slice) == "invalid_ind"]
    gi = {canon(s.targets[0].value): canon(s.value) for s in inv}
    # the whole interval of the level, *not truncated*: at a coarse level the user bounds are fractions (user / factor**k)
    # and int() rounds them toward zero, so after the multiplication by the factor the finer level misses up to
    # factor - 1 disparities at the end of the interval
    whole = ({"disp_min_range": f"float(np.nanmin({dmn}))", "disp_max_range": f"float(np.nanmax({dmx}))"}, {"disp_min_range": f"np.nanmin({dmn})", "disp_max_range": f"np.nanmax({dmx})"})
    oki = gi in whole
    ctx.ob("C15.RANGE", FZP, inv[0] if inv else f, f"invalid pixels get {gi}", oki, expected=f"the whole interval of the level, untruncated: (float(np.nanmin({dmn})), float(np.nanmax({dmx})))", detail="invalid or border coarse pixels must search the whole user interval of the level; `int(...)` truncates a fractional coarse bound toward zero (user [-5, 1] with factor 2 becomes [-4, 0] at the finer level)")
    # nothing else rewrites the range maps: allocation, block stores, the invalid fallback, the up-sampling
    for name in ("disp_min_range", "disp_max_range"):
        defs_n = fd.all_defs(name)
        extra = [x for x in defs_n[1:] if not (isinstance(x[1], ast.Call) and (dotted(x[1].func) or "").split(".")[-1] == "zoom")]
        # in-place rewrites: <ufunc>(..., out=map), map op= ..., map[<anything but the block slices / invalid_ind>] = ...
        for c in calls_in(f):
            if any(k.arg == "out" and canon(k.value) == name for k in c.keywords):
                extra.append((c, c, None))
        for st2 in walk_no_nested(f):
            if isinstance(st2, ast.AugAssign) and canon(st2.target) == name:
                extra.append((st2, st2.value, None))
            if isinstance(st2, ast.Assign) and isinstance(st2.targets[0], ast.Subscript) and canon(st2.targets[0].value) == name and canon(st2.targets[0].slice) not in ("invalid_ind", "(y_begin:y_end:, x_begin:x_end:)"):
                extra.append((st2, st2.value, None))
        ctx.ob("C15.RANGE", FZP, extra[0][0] if extra else defs_n[0][0], f"{name} is re-bound only by the up-sampling ({len(defs_n) - 1} re-binding(s))", not extra, expected=f"{name} = zoom({name}, ...) as the only re-binding", detail=f"`{src(extra[0][0])[:90] if extra else ''}` post-processes the range map (clipping, rounding, ...): the interval handed to the finer level is no longer scale_factor x [min - marge, max + marge] of the window")
    zm = [c for c in calls_in(f) if (dotted(c.func) or "").split(".")[-1] == "zoom"]
    okz = len(zm) == 2 and all(canon(kwarg(c, "order")) == "0" and canon(kwarg(c, "mode")) == "'nearest'" and canon(c.args[1]) == "self._scale_factor" for c in zm)
    ctx.ob("C15.RANGE", FZP, zm[0] if zm else f, f"range maps up-sampled by {src(zm[0])[:80] if zm else '?'}", okz, expected="zoom(map, self._scale_factor, order=0, mode='nearest')", detail="order-0 replication of each coarse pixel; with scipy's default mode='constant' (cval=0) the last output sample can fall just outside the array for factors that are not powers of two and the last row / column of the grids becomes [0, 0]")
    ii = d.all_defs("invalid_ind")
    okii = bool(ii) and canon(ii[0][1]) == "np.where(np.isnan(tmp_disp_map))"
    ctx.ob("C15.RANGE", FZP, ii[0][0] if ii else f, f"invalid_ind = {canon(ii[0][1]) if ii else '?'}", okii, expected="np.where(np.isnan(tmp_disp_map))")
    tm = d.all_defs("tmp_disp_map")
    ctx.ob("C15.RANGE", FZP, tm[0][0] if tm else f, f"tmp_disp_map = {canon(tm[0][1]) if tm else '?'}", bool(tm) and canon(tm[0][1]) == f"self.mask_invalid_disparities({dp})", expected=f"self.mask_invalid_disparities({dp})")
    zs = [c for c in calls_in(f) if (dotted(c.func) or "") == "zoom"]
    okz = len(zs) == 2 and all(canon(c.args[1]) == "self._scale_factor" and canon(kwarg(c, "order")) == "0" for c in zs) and {canon(c.args[0]) for c in zs} == {"disp_min_range", "disp_max_range"}
    ctx.ob("C15.RANGE", FZP, zs[0] if zs else f, f"upsampling: {[src(c) for c in zs]}", okz, expected="zoom(range, self._scale_factor, order=0) for both maps", detail="nearest-neighbour upsampling by scale_factor: a finer pixel inherits the interval of its geometric parent, not an interpolation")
    rets = [r for r in walk_no_nested(f) if isinstance(r, ast.Return)]
    ctx.ob("C15.RANGE", FZP, rets[-1] if rets else f, f"returns {[canon(r.value) for r in rets]}", bool(rets) and all(canon(r.value) == "(disp_min_range, disp_max_range)" for r in rets), expected="(min, max) in that order")
    init = tree.func(FZP, "FixedZoomPyramid.__init__")
    ia = {canon(s.targets[0]): canon(s.value) for s in walk_no_nested(init) if isinstance(s, ast.Assign)}
    ctx.ob("C15.RANGE", FZP, init, f"FixedZoomPyramid parameters {ia}", ia.get("self._num_scales") == "self.cfg['num_scales']" and ia.get("self._scale_factor") == "self.cfg['scale_factor']" and ia.get("self._marge") == "self.cfg['marge']", expected="num_scales / scale_factor / marge from the completed configuration")
    mi = tree.func(MS, "AbstractMultiscale.mask_invalid_disparities")
    consts = flag_constants(tree)
    tests = [n for n in walk_no_nested(mi) if isinstance(n, ast.BinOp) and isinstance(n.op, ast.BitAnd) and (flag_name(n.left, consts) == "PANDORA_MSK_PIXEL_INVALID" or flag_name(n.right, consts) == "PANDORA_MSK_PIXEL_INVALID")]
    ctx.ob("C15.RANGE", MS, tests[0] if tests else mi, "mask_invalid_disparities tests `mask & PANDORA_MSK_PIXEL_INVALID`", bool(tests), detail="every invalid coarse pixel (including those rejected by a cross-check placed before the multiscale step) must fall back to the whole user interval")
    cp2 = Defs(mi).all_defs("filtered_disp_map")
    ctx.ob("C15.RANGE", MS, cp2[0][0] if cp2 else mi, f"mask_invalid_disparities works on {canon(cp2[0][1]) if cp2 else '?'}", bool(cp2) and canon(cp2[0][1]) == f"{mi.args.args[0].arg}['disparity_map'].data.copy()", expected="a copy of the disparity map")

    # ---- inputs
    for key in (f"{IMG}::prepare_pyramid", f"{IMG}::fill_nodata_image", f"{IMG}::convert_pyramid_to_dataset", f"{FZP}::FixedZoomPyramid.disparity_range"):
        check_function_effects(ctx, "C15.INPUTS", key)
    rule_inputs(ctx, "C15.INPUTS")
    # driver (steps after multiscale run once, at full resolution): shared with C01
    from .c01 import rule_driver, rule_scale

    rule_driver(ctx)
    rule_scale(ctx)
    for o in ctx.obligations:
        if o.rule.startswith("C01."):
            o.rule = "C15." + o.rule[4:]


def vmin_node(stores, name):
    for s in stores:
        if canon(s.targets[0].value) == name:
            return s.value
    return None


def poly_eq(node, text: str) -> bool:
    return node is not None and poly(node) == poly(_e(text))


SPEC = PropSpec(
    pid="C15",
    title="A multiscale step really processes num_scales scales, coarse to fine (structural clauses)",
    explanation=(
        "Decides where the multiscale parameters are looked up, the order and bookkeeping of the pyramid, the def-use of the interval scaling and the window logic of disparity_range; not the content "
        "of the Gaussian pyramid. Config-path typing: every function parameter holding a configuration is typed 'top' (subscripted with 'pipeline'/'input') or 'pipeline' (subscripted or tested with step "
        "names) and every resolved call passes the level its callee uses; every Abstract* instantiation passes the positional arguments its __new__ requires. prepare_pyramid(left, right, num_scales, "
        "scale_factor): max_layer = num_scales-1, downscale = scale_factor for both images, level 0 is the caller's dataset, lists reversed to coarse->fine, levels popped from the front for both images. "
        "Intervals: true division by scale_factor**num_scales once in run_prepare, one multiplication by scale_factor per level for the searched and the user interval (never in place: the attributes alias "
        "each other), right side mirrored. disparity_range: windows of the matching window size, nanmin - marge / nanmax + marge over axes (2,3) under the block cursor discipline, invalid pixels "
        "(mask & INVALID) get the whole user interval, order-0 zoom by scale_factor. Inputs untouched (effect summaries). Driver loop and scale counter shared with C01."
    ),
    rule_text="instances: every resolved call passing a configuration, every Abstract* instantiation (20), the statements of read_multiscale_params, run_prepare, matching_cost_prepare, run_multiscale, prepare_pyramid, convert_pyramid_to_dataset, masks_pyramid, disparity_range located by role",
    run=run,
    not_decided=["content of the Gaussian pyramid (skimage)", "'at most one pixel from the geometric parent' (scipy.ndimage.zoom order 0 semantics)", "sizes shrink by scale_factor per level (skimage)"],
    trusted=["skimage.transform.pyramid_gaussian(max_layer, downscale) yields max_layer+1 levels, finest first", "scipy.ndimage.zoom(order=0) replicates"],
)

MUTANTS = [
    {"id": "range-maps-clipped-in-place", "file": FZP, "old": "        if self._scale_factor == 1:\n            return disp_min_range, disp_max_range\n", "new": "        np.clip(disp_max_range, float(np.nanmin(disp_min)), float(np.nanmax(disp_max)), out=disp_max_range)\n        if self._scale_factor == 1:\n            return disp_min_range, disp_max_range\n"},
    {"id": "range-maps-clipped-to-user-interval", "file": FZP, "old": "        if self._scale_factor == 1:\n            return disp_min_range, disp_max_range\n", "new": "        disp_min_range = np.clip(disp_min_range, np.nanmin(disp_min), np.nanmax(disp_max))\n        if self._scale_factor == 1:\n            return disp_min_range, disp_max_range\n"},
    {"id": "whole-interval-truncated-toward-zero", "file": FZP, "old": "        disp_min_range[invalid_ind] = float(np.nanmin(disp_min))\n", "new": "        disp_min_range[invalid_ind] = int(np.nanmin(disp_min))\n"},
    {"id": "zoom-default-constant-mode", "file": FZP, "old": 'disp_max_range = zoom(disp_max_range, self._scale_factor, order=0, mode="nearest")', "new": "disp_max_range = zoom(disp_max_range, self._scale_factor, order=0)"},
    {"id": "range-maps-integer-typed", "file": FZP, "old": '        disp_min_range = np.full_like(disp["disparity_map"].data, float(np.nanmin(disp_min)))\n', "new": '        disp_min_range = np.full((ncol, nrow), int(np.nanmin(disp_min)))\n'},
    {"id": "eq-range-maps-explicit-float32", "kind": "equiv", "file": FZP, "old": '        disp_min_range = np.full_like(disp["disparity_map"].data, float(np.nanmin(disp_min)))\n', "new": '        disp_min_range = np.full((ncol, nrow), float(np.nanmin(disp_min)), dtype=np.float32)\n'},
    {"id": "multiscale-looked-up-by-bare-name", "file": "pandora/check_configuration.py", "old": '    multiscale_steps = [step for step in cfg["pipeline"] if step.split(".")[0] == "multiscale"]\n    if multiscale_steps:\n', "new": '    multiscale_steps = ["multiscale"] if "multiscale" in cfg["pipeline"] else []\n    if multiscale_steps:\n'},
    {"id": "multiscale-selected-at-top-level", "file": "pandora/check_configuration.py", "old": '    multiscale_steps = [step for step in cfg["pipeline"] if step.split(".")[0] == "multiscale"]\n', "new": '    multiscale_steps = [step for step in cfg if step.split(".")[0] == "multiscale"]\n'},
    {"id": "drop-reverse", "file": IMG, "old": "return pyramid_left[::-1], pyramid_right[::-1]", "new": "return pyramid_left, pyramid_right"},
    {"id": "exponent-minus-one", "file": SM, "old": 'self.disp_min = left_img["disparity"].sel(band_disp="min") / (self.scale_factor**self.num_scales)', "new": 'self.disp_min = left_img["disparity"].sel(band_disp="min") / (self.scale_factor ** (self.num_scales - 1))'},
    {"id": "floor-division", "file": SM, "old": 'self.disp_max = left_img["disparity"].sel(band_disp="max") / (self.scale_factor**self.num_scales)', "new": 'self.disp_max = left_img["disparity"].sel(band_disp="max") // (self.scale_factor**self.num_scales)'},
    {"id": "in-place-scaling", "file": SM, "old": "        self.disp_min = self.disp_min * self.scale_factor\n", "new": "        self.disp_min *= self.scale_factor\n"},
    {"id": "zoom-order-1", "file": FZP, "old": 'disp_min_range = zoom(disp_min_range, self._scale_factor, order=0, mode="nearest")', "new": 'disp_min_range = zoom(disp_min_range, self._scale_factor, order=1, mode="nearest")'},
    {"id": "marge-plus-on-both", "file": FZP, "old": "np.nanmin(disp_chunked_x[row], axis=(2, 3)) - self._marge", "new": "np.nanmin(disp_chunked_x[row], axis=(2, 3)) + self._marge"},
    {"id": "pyramid-args-swapped", "file": SM, "old": "left_img, right_img, self.num_scales, scale_factor\n", "new": "left_img, right_img, scale_factor, self.num_scales\n"},
    {"id": "drop-copy-fill-nodata", "file": IMG, "old": '            img = dataset["im"].data.copy()\n            msk = dataset["msk"].data.copy()', "new": '            img = dataset["im"].data\n            msk = dataset["msk"].data'},
    {"id": "pop-last", "file": SM, "old": "        self.left_img = self.img_left_pyramid.pop(0)\n        self.right_img = self.img_right_pyramid.pop(0)\n\n        # Update the current scale for the next state", "new": "        self.left_img = self.img_left_pyramid.pop()\n        self.right_img = self.img_right_pyramid.pop()\n\n        # Update the current scale for the next state"},
    {"id": "multiscale-without-images", "file": CC, "old": "        multiscale_ = multiscale.AbstractMultiscale(\n            left_img, right_img, **cfg[\"pipeline\"][multiscale_steps[0]]\n        )  # type: ignore", "new": "        multiscale_ = multiscale.AbstractMultiscale(**cfg[\"pipeline\"][multiscale_steps[0]])  # type: ignore"},
    {"id": "invalid-list-without-8-9", "file": MS, "old": "            if val & cst.PANDORA_MSK_PIXEL_INVALID != 0:", "new": "            if val & (cst.PANDORA_MSK_PIXEL_LEFT_NODATA_OR_BORDER | cst.PANDORA_MSK_PIXEL_RIGHT_NODATA_OR_DISPARITY_RANGE_MISSING | cst.PANDORA_MSK_PIXEL_IN_VALIDITY_MASK_LEFT | cst.PANDORA_MSK_PIXEL_IN_VALIDITY_MASK_RIGHT) != 0:"},
    {"id": "band-coordinate-typo", "file": IMG, "old": '"band_im": list(img_orig.band_im.data),', "new": '"band_im": list(img_orig.band.data),'},
    {"id": "level0-not-original", "file": IMG, "old": "        if index == 0:\n            pyramid.append(img_orig)\n            continue\n", "new": ""},
    {"id": "eq-hoist-power", "kind": "equiv", "edits": [(SM, '            self.disp_min = left_img["disparity"].sel(band_disp="min") / (self.scale_factor**self.num_scales)\n            self.disp_max = left_img["disparity"].sel(band_disp="max") / (self.scale_factor**self.num_scales)', '            down = self.scale_factor**self.num_scales\n            self.disp_min = left_img["disparity"].sel(band_disp="min") / down\n            self.disp_max = left_img["disparity"].sel(band_disp="max") / down')]},
    {"id": "eq-scale-factor-first", "kind": "equiv", "file": SM, "old": "        self.disp_min = self.disp_min * self.scale_factor\n", "new": "        self.disp_min = self.scale_factor * self.disp_min\n"},
]
