"""C12 -- confidence bands follow their definitions, bracket the winner, only add bands (structural clauses)."""
from __future__ import annotations

import ast
from typing import Dict, List, Optional

from ..astx import calls_in, class_constants, dotted, enclosing_loops, guards_of, src, stmts_of, walk_no_nested
from ..core import AnalysisError, Ctx, PropSpec
from ..defuse import Defs
from ..rules_effects import check_function_effects
from ..rules_par import rule_prange, rule_switch
from ..rules_sm import SM, machine_methods, rule_mirror
from ..sym import boolform, canon, equivalent, poly

CVC = "pandora/cost_volume_confidence/cost_volume_confidence.py"
AMB = "pandora/cost_volume_confidence/ambiguity.py"
RSK = "pandora/cost_volume_confidence/risk.py"
IB = "pandora/cost_volume_confidence/interval_bounds.py"
STD = "pandora/cost_volume_confidence/std_intensity.py"
IT = "pandora/interval_tools.py"


def _e(t: str) -> ast.AST:
    return ast.parse(t, mode="eval").body


def rule_append(ctx: Ctx) -> None:
    tree = ctx.tree
    f = tree.func(CVC, "AbstractCostVolumeConfidence.allocate_confidence_map")
    name, cmap, dp, cv = [a.arg for a in f.args.args][:4]
    d = Defs(f)
    pre = [x for x in d.all_defs(name)]
    ctx.ob("C12.APPEND", CVC, pre[0][0] if pre else f, f"band name = {canon(pre[0][1]) if pre else '?'}", bool(pre) and canon(pre[0][1]) == f"'confidence_from_' + {name}" and not guards_of(pre[0][0], stop=f), expected=f"'confidence_from_' + {name}")
    for ds in (cv, dp):
        upd = [s for s in walk_no_nested(f) if isinstance(s, ast.If) and canon(s.test) in (f"{{'confidence_measure' in {ds}.data_vars}}", f"{{'confidence_measure' in {ds}}}")]
        if not upd:
            ctx.ob("C12.APPEND", CVC, f, f"{ds}: update branch when a confidence map already exists", False, detail="an existing confidence_measure is overwritten instead of extended")
            continue
        u = upd[0]
        blk = u.body
        txt = {canon(s.targets[0]): s for s in blk if isinstance(s, ast.Assign)}
        shp = [s for s in blk if isinstance(s, ast.Assign) and isinstance(s.targets[0], ast.Tuple)]
        nb = canon(shp[0].targets[0].elts[2]) if shp and len(shp[0].targets[0].elts) == 3 else "?"
        al = [s for s in blk if isinstance(s, ast.Assign) and canon(s.targets[0]) == "conf_measure"]
        okal = bool(al) and canon(al[0].value).startswith("np.full((nb_row, nb_col, 1 + " + nb + ")")
        ctx.ob("C12.APPEND", CVC, al[0] if al else u, f"{ds}: new array {canon(al[0].value)[:80] if al else '?'}", okal, expected=f"np.full((nb_row, nb_col, {nb} + 1), ...)", detail="a confidence step adds exactly one plane per band")
        old = txt.get("conf_measure[(::, ::, :-1:)]")
        new = txt.get("conf_measure[(::, ::, -1)]")
        ctx.ob("C12.APPEND", CVC, old or u, f"{ds}: existing bands copied to [..., :-1]: {src(old) if old else 'missing'}", old is not None and canon(old.value) == f"{ds}['confidence_measure'].data", expected=f"conf_measure[:, :, :-1] = {ds}['confidence_measure'].data", detail="every existing band must be left exactly as it was")
        ctx.ob("C12.APPEND", CVC, new or u, f"{ds}: new band stored last: {src(new) if new else 'missing'}", new is not None and canon(new.value) == cmap, expected=f"conf_measure[:, :, -1] = {cmap}")
        ind = [s for s in blk if isinstance(s, ast.Assign) and canon(s.targets[0]) == "indicator"]
        vals = [canon(s.value) for s in ind]
        okind = vals in ([f"np.copy({ds}.coords['indicator'])", f"np.append(indicator, {name})"], [f"np.append({ds}.coords['indicator'], {name})"], [f"list({ds}.coords['indicator'].data) + [{name}]"], [f"[*{ds}.coords['indicator'].data, {name}]"])
        ctx.ob("C12.APPEND", CVC, ind[0] if ind else u, f"{ds}: indicator list = {vals}", okind, expected=f"np.append(copy of {ds}.coords['indicator'], {name})", detail="the indicator coordinate is the old list plus the new (full) name: writing the name into an array of the old fixed-width string dtype truncates it, so stacked bands lose their suffix or collide")
        da = [s for s in blk if isinstance(s, ast.Assign) and canon(s.targets[0]) == f"{ds}['confidence_measure']"]
        okda = bool(da) and "data=conf_measure" in canon(da[0].value) and "dims=['row', 'col', 'indicator']" in canon(da[0].value) and "coords=coords_confidence_measure" in canon(da[0].value)
        cc = [s for s in blk if isinstance(s, ast.Assign) and canon(s.targets[0]) == "coords_confidence_measure"]
        okda = okda and bool(cc) and canon(cc[0].value) == f"[{ds}.coords['row'], {ds}.coords['col'], indicator]"
        ctx.ob("C12.APPEND", CVC, da[0] if da else u, f"{ds}: rebuilt as (row, col, indicator) with the extended indicator list", okda)
        # create branch
        first = [s for s in ast.walk(ast.Module(body=u.orelse, type_ignores=[])) if isinstance(s, ast.Assign) and canon(s.targets[0]) == "coords_confidence_measure"]
        okf = bool(first) and canon(first[0].value) == f"[{ds}.coords['row'], {ds}.coords['col'], [{name}]]"
        ctx.ob("C12.APPEND", CVC, first[0] if first else u, f"{ds}: first band creates the variable with indicator [{name}]", okf)
    rets = [r for r in walk_no_nested(f) if isinstance(r, ast.Return)]
    ctx.ob("C12.APPEND", CVC, rets[0] if rets else f, f"returns {canon(rets[0].value) if rets else '?'}", bool(rets) and canon(rets[0].value) == f"({dp}, {cv})")


def rule_names(ctx: Ctx) -> None:
    tree = ctx.tree
    spec = {
        (AMB, "Ambiguity"): ({"_method": "ambiguity"}, {"self._indicator": "self._method + str(self.cfg['indicator'])"}, [("self._indicator", "ambiguity")]),
        (RSK, "Risk"): ({"_method_max": "risk_max", "_method_min": "risk_min"}, {"self._indicator_max": "self._method_max + str(self.cfg['indicator'])", "self._indicator_min": "self._method_min + str(self.cfg['indicator'])"}, [("self._indicator_max", "risk_max"), ("self._indicator_min", "risk_min")]),
        (IB, "IntervalBounds"): ({"_method": "interval_bounds"}, {"self._indicator_inf": "self._method + '_inf' + str(self.cfg['indicator'])", "self._indicator_sup": "self._method + '_sup' + str(self.cfg['indicator'])"}, [("self._indicator_inf", "interval_bound_inf"), ("self._indicator_sup", "interval_bound_sup")]),
        (STD, "StdIntensity"): ({"_method": "intensity_std"}, {"self._indicator": "self._method + self.cfg['indicator']"}, [("self._indicator", "confidence_measure")]),
    }
    for (rel, cls), (consts, inits, allocs) in spec.items():
        cc = class_constants(tree.cls(rel, cls))
        for k, v in consts.items():
            ctx.ob("C12.NAMES", rel, tree.cls(rel, cls), f"{cls}.{k} = {cc.get(k)!r}", cc.get(k) == v, expected=repr(v), detail="the band name documented for this measure")
        init = tree.func(rel, f"{cls}.__init__")
        got = {canon(s.targets[0]): s for s in walk_no_nested(init) if isinstance(s, ast.Assign)}
        for k, v in inits.items():
            st = got.get(k)
            ok = st is not None and canon(st.value) in (canon(_e(v)), canon(_e(v.replace("str(self.cfg['indicator'])", "self.cfg['indicator']"))))
            ctx.ob("C12.NAMES", rel, st or init, f"{cls}: {k} = {canon(st.value) if st else '?'}", ok, expected=v, detail="band name = measure name + suffix taken from the step name")
        cp = tree.func(rel, f"{cls}.confidence_prediction")
        calls = [c for c in calls_in(cp) if isinstance(c.func, ast.Attribute) and c.func.attr == "allocate_confidence_map"]
        calls.sort(key=lambda c: c.lineno)
        gota = [(canon(c.args[0]), canon(c.args[1])) for c in calls]
        ok = gota == allocs and all([canon(a) for a in c.args[2:]] == ["disp", "cv"] for c in calls)
        ctx.ob("C12.NAMES", rel, calls[0] if calls else cp, f"{cls}.confidence_prediction appends {gota}", ok, expected=str(allocs), detail="each band must be stored under its own name, in the documented order, in both datasets")
        rets = [r for r in walk_no_nested(cp) if isinstance(r, ast.Return)]
        ctx.ob("C12.NAMES", rel, rets[0] if rets else cp, f"{cls}.confidence_prediction returns {canon(rets[0].value) if rets else '?'}", bool(rets) and canon(rets[0].value) == "(disp, cv)")
        for c in calls:
            par = getattr(c, "_parent", None)
            ok = isinstance(par, ast.Assign) and isinstance(par.targets[0], ast.Tuple) and [canon(e) for e in par.targets[0].elts] == ["disp", "cv"]
            ctx.ob("C12.NAMES", rel, c, f"{cls}: result of allocate_confidence_map re-bound to (disp, cv)", ok, detail="allocate_confidence_map returns new datasets when it extends an existing map: dropping them loses the band")
    # suffix from the step name
    cb = machine_methods(tree)["cost_volume_confidence_run"]
    step = cb.args.args[2].arg
    entry = f"cfg['pipeline'][{step}]['indicator']"
    body = stmts_of(cb)
    cd = Defs(cb)

    def npath(t: ast.AST, at: ast.AST) -> str:
        """canonical path of a store target with local aliases of configuration sub-dictionaries expanded"""
        if isinstance(t, ast.Name):
            return t.id
        return canon(cd.expand(t, at, depth=3, stop=("cfg", step)))

    ifs = [s for s in body if isinstance(s, ast.If) and "split" in src(s)]
    ok = False
    if ifs and len(ifs[0].body) == 1 and isinstance(ifs[0].body[0], ast.Assign) and not ifs[0].orelse:
        tgt = npath(ifs[0].body[0].targets[0], ifs[0].body[0])  # the configuration entry itself, or a local stored into it afterwards
        init = [s for s in body if isinstance(s, ast.Assign) and npath(s.targets[0], s) == tgt and s.lineno < ifs[0].lineno]
        ok = (
            bool(init)
            and canon(init[-1].value) == "''"
            and equivalent(boolform(ifs[0].test), boolform(_e(f"'.' in {step}"))) is None
            and canon(ifs[0].body[0].value) == canon(_e(f"'.' + {step}.split('.', 1)[1]"))
        )
        if tgt != entry:
            fin = [s for s in body if isinstance(s, ast.Assign) and npath(s.targets[0], s) == entry and s.lineno > ifs[0].lineno]
            ok = ok and len(fin) == 1 and canon(fin[0].value) == tgt
    ctx.ob("C12.NAMES", SM, ifs[0] if ifs else cb, "cost_volume_confidence_run: indicator suffix '' or '.' + everything after the first dot of the step name", ok, expected=f"'' ; if '.' in {step}: '.' + {step}.split('.', 1)[1]", detail="several confidence steps are told apart by the suffix of their step name; the suffix may itself contain dots (`cost_volume_confidence.v1.2`): taking it only when the name has exactly two parts gives such a step the un-suffixed band name, a duplicate")
    k = rule_mirror(ctx, "C12.MIRROR", only=["cost_volume_confidence_run"])
    ctx.floor("C12.MIRROR", k, 1)


def rule_kernels(ctx: Ctx) -> None:
    tree = ctx.tree
    # NaN costs are masked to -inf in the ambiguity and risk kernels, all-NaN pixels have an explicit branch
    for rel, q, sentinel in ((AMB, "Ambiguity.compute_ambiguity", "etas.shape[0]*nb_disps"), (AMB, "Ambiguity.compute_ambiguity_and_sampled_ambiguity", "etas.shape[0]*nb_disps"), (RSK, "Risk.compute_risk", "np.nan"), (RSK, "Risk.compute_risk_and_sampled_risk", "np.nan")):
        f = tree.func(rel, q)
        g = [s for s in walk_no_nested(f) if isinstance(s, ast.If) and canon(s.test) == "np.isnan(normalized_min_cost)"]
        oks = bool(g) and any(isinstance(x, ast.Assign) and canon(x.value).replace(" ", "") in (sentinel, "nb_disps*etas.shape[0]") for x in g[0].body)
        ctx.ob("C12.ALLNAN", rel, g[0] if g else f, f"{q}: all-NaN pixels handled by `if np.isnan(normalized_min_cost)` -> {sentinel}", oks, detail="pixels without any computable cost need their documented sentinel instead of going through the arithmetic")
        m = [s for s in walk_no_nested(f) if isinstance(s, ast.Assign) and isinstance(s.targets[0], ast.Subscript) and canon(s.targets[0]) == "normalized_cv[np.isnan(normalized_cv)]"]
        okm = len(m) == 1 and canon(m[0].value) == "-np.inf"
        ctx.ob("C12.NANMASK", rel, m[0] if m else f, f"{q}: NaN costs of a pixel are masked to {canon(m[0].value) if m else '?'}", okm, expected="-np.inf", detail="a missing cost must count as 'within eta of the best' (ambiguity grows) and keep its disparity in the spread: with +inf the spread ignores it while the sampled ambiguity still counts it, and risk_min = mean(1 + spread - count) can become negative")
        nm = [d_ for d_ in Defs(f).all_defs("normalized_min_cost")]
        okn = bool(nm) and poly(nm[0][1]) == poly(_e("(np.nanmin(cv[row, col, :]) - min_cost) / (max_cost - min_cost)")) or (bool(nm) and poly(nm[0][1]) == poly(_e("(np.nanmin(cv[row, col, :]) - min_cost) / diff_cost")))
        ctx.ob("C12.DEFS", rel, nm[0][0] if nm else f, f"{q}: normalised best cost = {canon(nm[0][1])[:100] if nm else '?'}", okn, expected="(nanmin(cv[row, col, :]) - min_cost) / (max_cost - min_cost)")
    for rel, q in ((RSK, "Risk.compute_risk"), (RSK, "Risk.compute_risk_and_sampled_risk")):
        f = tree.func(rel, q)
        st = {canon(s.targets[0]): canon(s.value) for s in walk_no_nested(f) if isinstance(s, ast.Assign) and isinstance(s.targets[0], ast.Subscript) and canon(s.targets[0]) in ("risk_max[(row, col)]", "risk_min[(row, col)]") and "nanmean" in canon(s.value)}
        ok = st.get("risk_max[(row, col)]") == canon(_e("np.nanmean(max_disp - min_disp)")) and st.get("risk_min[(row, col)]") == canon(_e("np.nanmean((1 + (max_disp - min_disp)) - sampled_ambiguity[row, col, :])"))
        ctx.ob("C12.DEFS", rel, f, f"{q}: risk_max / risk_min = {st}", ok, expected="nanmean(max - min) / nanmean(1 + (max - min) - sampled_ambiguity)", detail="risk_max is the eta-mean of the disparity spread, risk_min the eta-mean of 1 + spread - count")
    rp = tree.func(RSK, "Risk.confidence_prediction")
    sa = [c for c in calls_in(rp) if isinstance(c.func, ast.Attribute) and c.func.attr == "compute_ambiguity_and_sampled_ambiguity"]
    cr = [c for c in calls_in(rp) if isinstance(c.func, ast.Attribute) and c.func.attr == "compute_risk"]
    ok = len(sa) == 1 and [canon(a) for a in sa[0].args] == ["cv['cost_volume'].data", "self._eta_min", "self._eta_max", "self._eta_step"] and len(cr) == 1 and [canon(a) for a in cr[0].args] == ["cv['cost_volume'].data", "sampled_ambiguity", "self._eta_min", "self._eta_max", "self._eta_step"]
    ctx.ob("C12.DEFS", RSK, cr[0] if cr else rp, "Risk: the sampled ambiguity and the risk use the same cost volume and the same eta sampling", ok)
    # interval bounds
    ibp = tree.func(IB, "IntervalBounds.confidence_prediction")
    tf = [s for s in stmts_of(ibp) if isinstance(s, ast.If) and "type_measure" in src(s.test)]
    ok = bool(tf) and equivalent(boolform(tf[0].test), boolform(_e("cv.attrs['type_measure'] == 'min'"))) is None and canon(tf[0].body[0].value) == "-1" and canon(tf[0].orelse[0].value) == "1"
    for rel_m, qm in ((AMB, "Ambiguity.confidence_prediction"), (RSK, "Risk.confidence_prediction")):
        fm = tree.func(rel_m, qm)
        reads = [n for n in ast.walk(fm) if isinstance(n, ast.Constant) and n.value == "type_measure"]
        ctx.ob("C12.TYPE-FACTOR", rel_m, fm, f"{qm} takes the type of measure into account", bool(reads), expected="the pixel's *best* cost: the minimum for 'min' measures, the maximum for 'max' measures (e.g. costs negated when cv.attrs['type_measure'] == 'max')", detail="the kernels always count / spread the disparities whose cost is within eta of the pixel's *minimum*: for a similarity measure (zncc) the bands describe the worst candidate instead of the best")
    ctx.ob("C12.TYPE-FACTOR", IB, tf[0] if tf else ibp, "interval bounds: type_factor = -1 for 'min' measures, +1 otherwise", ok, detail="the possibility of a disparity grows when its cost gets better: the sign must follow the type of measure")
    k = tree.func(IB, "IntervalBounds.compute_interval_bounds")
    d = Defs(k)
    ps = d.all_defs("possibility")
    okp = bool(ps) and poly(ps[0][1]) == poly(_e("type_factor * norm_cv + 1 - np.nanmax(type_factor * norm_cv)"))
    ctx.ob("C12.DEFS", IB, ps[0][0] if ps else k, f"possibility = {canon(ps[0][1])[:90] if ps else '?'}", okp, expected="type_factor * norm_cv + 1 - nanmax(type_factor * norm_cv)")
    mk = d.all_defs("mask")
    ctx.ob("C12.DEFS", IB, mk[0][0] if mk else k, f"mask = {canon(mk[0][1]) if mk else '?'}", bool(mk) and equivalent(boolform(mk[0][1]), boolform(_e("sorted_poss >= possibility_threshold"))) is None, expected="possibility >= possibility_threshold")
    idx = {n: [canon(x[1]) for x in d.all_defs(n)] for n in ("min_idx", "max_idx")}
    ok = idx["min_idx"] == ["np.nanmin(argsorted_poss[mask])", "max(0, -1 + min_idx)"] and idx["max_idx"] == ["np.nanmax(argsorted_poss[mask])", "min(-1 + n_disp, 1 + max_idx)"]
    ctx.ob("C12.DEFS", IB, k, f"bounds = extreme indices reaching the threshold, widened by one sample (clipped): {idx}", ok, expected="nanmin / nanmax of the selected indices; max(0, i-1) / min(n_disp-1, i+1)")
    wid = [s for s in walk_no_nested(k) if isinstance(s, ast.If) and "possibility[" in src(s.test)]
    okw = len(wid) == 2 and sorted(canon(s.test) for s in wid) == sorted([canon(_e("possibility[min_idx] == 1")), canon(_e("possibility[max_idx] == 1"))])
    ctx.ob("C12.DEFS", IB, wid[0] if wid else k, "widening only when the bound is the best disparity (possibility == 1)", okw)
    an = [s for s in walk_no_nested(k) if isinstance(s, ast.If) and canon(s.test) == canon(_e("mask.sum() != 0"))]
    oka = bool(an) and any(isinstance(x, ast.Assign) and canon(x.value) == "(np.nan, np.nan)" for x in an[0].orelse)
    ctx.ob("C12.ALLNAN", IB, an[0] if an else k, "compute_interval_bounds: all-NaN pixels get (NaN, NaN)", oka)
    dsp = {n: [canon(x[1]) for x in d.all_defs(n)] for n in ("min_disp", "max_disp")}
    okd = "disp_interval[min_idx]" in dsp["min_disp"] and "disp_interval[max_idx]" in dsp["max_disp"]
    ctx.ob("C12.DEFS", IB, k, f"bounds mapped through the disparity axis: {dsp}", okd)
    cc = [c for c in calls_in(ibp) if isinstance(c.func, ast.Attribute) and c.func.attr == "compute_interval_bounds"]
    okc = len(cc) == 1 and [canon(a) for a in cc[0].args] == ["cv['cost_volume'].data", "cv['disp'].data.astype(np.float32)", "self._possibility_threshold", "type_factor"]
    ctx.ob("C12.DEFS", IB, cc[0] if cc else ibp, f"{src(cc[0])[:140] if cc else '?'}", okc)


def rule_regularise(ctx: Ctx) -> None:
    tree = ctx.tree
    g = tree.func(IT, "create_connected_graph")
    top = [s for s in stmts_of(g) if isinstance(s, ast.If) and "depth" in src(s.test)]
    ok0 = bool(top) and equivalent(boolform(top[0].test), boolform(_e("depth == 0"))) is None and canon(top[0].body[0].value).startswith("np.eye(n_segments")
    ctx.ob("C12.REGULARISE", IT, top[0] if top else g, "create_connected_graph: depth 0 -> identity graph", ok0, expected="np.eye(n_segments)")
    diag = [s for s in walk_no_nested(g) if isinstance(s, ast.Assign) and canon(s.targets[0]) == "aggregated_graph[(i, i)]"]
    okd = len(diag) == 1 and canon(diag[0].value) in ("1", "True") and len(enclosing_loops(diag[0])) == 1 and not [t for t, pol in guards_of(diag[0], stop=g) if t is not top[0].test] if top else False
    ctx.ob("C12.REGULARISE", IT, diag[0] if diag else g, f"create_connected_graph: every segment is connected to itself: {src(diag[0]) if diag else 'missing'}", okd, expected="aggregated_graph[i, i] = 1 for every i, unconditionally", detail="a segment regularised from its neighbours alone can get a *narrower* interval: with quantile 1 regularisation may only widen, which needs the segment's own pixels in the aggregate")
    gr = tree.func(IT, "graph_regularization")
    st = {canon(s.targets[0].value): canon(s.value) for s in walk_no_nested(gr) if isinstance(s, ast.Assign) and isinstance(s.targets[0], ast.Subscript) and "nanquantile" in canon(s.value)}
    ok = st.get("interval_inf_reg") == canon(_e("np.nanquantile(agg_inf, 1 - quantile)")) and st.get("interval_sup_reg") == canon(_e("np.nanquantile(agg_sup, quantile)"))
    ctx.ob("C12.REGULARISE", IT, gr, f"graph_regularization: {st}", ok, expected="inf <- nanquantile(agg_inf, 1 - quantile); sup <- nanquantile(agg_sup, quantile)", detail="with quantile 1 the lower bound becomes the minimum and the upper bound the maximum over the connected segments")
    rd = {canon(s.targets[0].value): canon(s.value) for s in walk_no_nested(gr) if isinstance(s, ast.Assign) and isinstance(s.targets[0], ast.Subscript) and canon(s.targets[0].value) in ("agg_inf", "agg_sup")}
    okr = rd.get("agg_inf", "").startswith("interval_inf[") and rd.get("agg_sup", "").startswith("interval_sup[")
    ctx.ob("C12.REGULARISE", IT, gr, f"graph_regularization aggregates the un-regularised bounds: {rd}", okr, detail="reading the arrays being written would make the result depend on the segment order (and on the prange schedule)")
    cp = {n: canon(x[1]) for n in ("interval_inf_reg", "interval_sup_reg") for x in Defs(gr).all_defs(n)[:1]}
    ctx.ob("C12.REGULARISE", IT, gr, f"outputs start as copies: {cp}", cp == {"interval_inf_reg": "interval_inf.copy()", "interval_sup_reg": "interval_sup.copy()"})
    ir = tree.func(IT, "interval_regularization")
    gc = [c for c in calls_in(ir) if (dotted(c.func) or "") == "create_connected_graph"]
    rc = [c for c in calls_in(ir) if (dotted(c.func) or "") == "graph_regularization"]
    ok = len(gc) == 1 and [canon(a) for a in gc[0].args] == ["border_left", "border_right", "vertical_depth"] and len(rc) == 1 and [canon(a) for a in rc[0].args] == ["interval_inf", "interval_sup", "border_left", "border_right", "graph", "quantile_regularization"]
    ctx.ob("C12.REGULARISE", IT, rc[0] if rc else ir, "interval_regularization wires the graph and the quantile in order", ok)


def run(ctx: Ctx) -> None:
    rule_append(ctx)
    rule_names(ctx)
    for key in (f"{AMB}::Ambiguity.confidence_prediction", f"{RSK}::Risk.confidence_prediction", f"{IB}::IntervalBounds.confidence_prediction", f"{STD}::StdIntensity.confidence_prediction"):
        check_function_effects(ctx, "C12.EFFECTS", key)
    n = rule_prange(ctx, "C12.PRANGE", files=[AMB, RSK, IB, IT])
    ctx.floor("C12.PRANGE", n, 5)
    from ..rules_par import rule_ieee

    ctx.floor("C12.IEEE", rule_ieee(ctx, "C12.IEEE", files=(AMB, RSK, IB, IT)), 4)
    rule_switch(ctx, "C12.SWITCH")
    rule_kernels(ctx)
    rule_regularise(ctx)


SPEC = PropSpec(
    pid="C12",
    title="Confidence bands follow their definitions, bracket the winner, only add bands (structural clauses)",
    explanation=(
        "Decides the bookkeeping and the structural supports of the confidence steps, not their numerical definitions. allocate_confidence_map (both the cost-volume and the disparity half): prefix "
        "'confidence_from_', new array with one more plane, old planes copied to [..., :-1], new plane last, indicator list = old list + the new full name built by np.append (a fixed-width dtype would "
        "truncate it), first band creates the variable, the two datasets are returned. Names: the class constants, the measure-name + suffix expressions and the (name, array) pairs passed to "
        "allocate_confidence_map are the documented ones in the documented order, results re-bound to (disp, cv); the suffix is '.' + second part of the step name iff it has exactly one dot; the right pass "
        "mirrors the left. Effect summaries: no in-place effect on cost volume, disparity, mask or images. Kernels: schedule independence (prange rule) and switch; explicit all-NaN branch with the documented "
        "sentinel; NaN costs masked to -inf; risk_max / risk_min / possibility / bounds / widening expressions as canonical forms; type factor -1 for min measures. Regularisation: the graph always contains the "
        "segment itself, the lower bound takes the 1-quantile quantile and the upper the quantile, values are read from the un-regularised arrays."
    ),
    rule_text="instances: both halves of allocate_confidence_map, 4 classes (constants, names, allocation calls), 8 prange loops, 4 ambiguity/risk kernels, the interval-bounds kernel, the two graph functions",
    run=run,
    not_decided=["the numerical definitions (ambiguity count, risk means, percentile normalisation)", "0 <= risk_min <= risk_max, inf <= winner <= sup as inequalities over values", "'quantile 1 only widens' as a value statement (its structural reasons are checked)"],
    trusted=["numpy.append returns a new array whose string dtype is wide enough"],
)

MUTANTS = [
    {"id": "dotted-suffix-dropped", "file": SM, "old": '        if "." in input_step:\n            cfg["pipeline"][input_step]["indicator"] = "." + input_step.split(".", 1)[1]\n', "new": '        if len(input_step.split(".")) == 2:\n            cfg["pipeline"][input_step]["indicator"] = "." + input_step.split(".")[1]\n'},
    {"id": "overwrite-last-band", "file": CVC, "old": "conf_measure = np.full((nb_row, nb_col, nb_indicator + 1), np.nan, dtype=np.float32)", "new": "conf_measure = np.full((nb_row, nb_col, nb_indicator), np.nan, dtype=np.float32)", "count": 2},
    {"id": "drop-old-band-copy", "file": CVC, "old": '                conf_measure[:, :, :-1] = cv["confidence_measure"].data\n', "new": ""},
    {"id": "prefix-confidence_", "file": CVC, "old": 'name_confidence_measure = "confidence_from_" + name_confidence_measure', "new": 'name_confidence_measure = "confidence_" + name_confidence_measure'},
    {"id": "suffix-from-first-part", "file": SM, "old": 'cfg["pipeline"][input_step]["indicator"] = "." + input_step.split(".", 1)[1]', "new": 'cfg["pipeline"][input_step]["indicator"] = "." + input_step.split(".")[0]'},
    {"id": "risk-min-under-max-name", "file": RSK, "old": "disp, cv = self.allocate_confidence_map(self._indicator_max, risk_max, disp, cv)", "new": "disp, cv = self.allocate_confidence_map(self._indicator_max, risk_min, disp, cv)"},
    {"id": "ambiguity-writes-cv", "file": AMB, "old": "        disp, cv = self.allocate_confidence_map(self._indicator, ambiguity, disp, cv)", "new": '        cv["cost_volume"].data[np.isnan(cv["cost_volume"].data)] = 0\n        disp, cv = self.allocate_confidence_map(self._indicator, ambiguity, disp, cv)'},
    {"id": "one-minus-quantile-on-both", "file": IT, "old": "            agg_sup, quantile\n", "new": "            agg_sup, 1 - quantile\n"},
    {"id": "self-link-only-when-alone", "file": IT, "old": "            aggregated_graph[i, i] = 1\n", "new": "            if not list_lines.any():\n                aggregated_graph[i, i] = 1\n"},
    {"id": "risk-nan-to-plus-inf", "file": RSK, "old": "normalized_cv[np.isnan(normalized_cv)] = -np.inf", "new": "normalized_cv[np.isnan(normalized_cv)] = np.inf", "count": 2},
    {"id": "indicator-fixed-width", "file": CVC, "old": '                indicator = np.copy(cv.coords["indicator"])\n                indicator = np.append(indicator, name_confidence_measure)\n', "new": '                old_indicator = cv.coords["indicator"].data\n                indicator = np.empty(nb_indicator + 1, dtype=old_indicator.dtype)\n                indicator[:-1] = old_indicator\n                indicator[-1] = name_confidence_measure\n'},
    {"id": "type-factor-swapped", "file": IB, "old": '        if cv.attrs["type_measure"] == "min":\n            type_factor = -1.0', "new": '        if cv.attrs["type_measure"] == "max":\n            type_factor = -1.0'},
    {"id": "result-not-rebound", "file": STD, "old": "        disp, cv = self.allocate_confidence_map(self._indicator, confidence_measure, disp, cv)", "new": "        self.allocate_confidence_map(self._indicator, confidence_measure, disp, cv)"},
    {"id": "eq-rename-local", "kind": "equiv", "file": RSK, "old": "        disp, cv = self.allocate_confidence_map(self._indicator_max, risk_max, disp, cv)\n        disp, cv = self.allocate_confidence_map(self._indicator_min, risk_min, disp, cv)", "new": "        disp, cv = self.allocate_confidence_map(self._indicator_max, risk_max, disp, cv)\n        # second band\n        disp, cv = self.allocate_confidence_map(self._indicator_min, risk_min, disp, cv)"},
    {"id": "eq-append-without-copy", "kind": "equiv", "file": CVC, "old": '                indicator = np.copy(cv.coords["indicator"])\n                indicator = np.append(indicator, name_confidence_measure)\n', "new": '                indicator = np.append(cv.coords["indicator"], name_confidence_measure)\n'},
]
