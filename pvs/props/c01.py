"""C01 -- accepted pipelines are exactly the documented automaton and run as written."""
from __future__ import annotations

import ast
import json
import os
from typing import Dict, List, Optional, Tuple

from ..astx import arg_or_kw, calls_in, dotted, enclosing_loops, guards_of, self_attr, src, stmts_of, walk_no_nested
from ..automata import DEAD, DFA, distinguish
from ..core import VERIF, AnalysisError, Ctx, PropSpec
from ..flow import normal_paths, paths_of
from ..rules_sm import MACHINE, SM, machine_methods, rule_mirror, run_callbacks, table_rows, transition_table
from ..sym import boolform, canon, equivalent

INIT = "pandora/__init__.py"


def _spec() -> dict:
    with open(os.path.join(VERIF, "spec", "automaton.json"), "r", encoding="utf-8") as fh:
        return json.load(fh)


def _sources(row: dict, states: List[str]) -> List[str]:
    s = row.get("source")
    if s == "*":
        return list(states)
    if isinstance(s, list):
        return list(s)
    return [s]


def _row_text(row: dict) -> str:
    return "{" + ", ".join(f"{k}: {row[k]!r}" for k in sorted(row)) + "}"


# --------------------------------------------------------------------------------------
def rule_tables(ctx: Ctx) -> None:
    tree = ctx.tree
    spec = _spec()
    states = spec["states"]
    allowed = {"trigger", "source", "dest", "after", "prepare", "conditions", "unless", "before"}
    tabs = {}
    for name in ("_transitions_run", "_transitions_check"):
        rows, node = transition_table(tree, name)
        tabs[name] = (rows, node)
        for r, rn in zip(rows, table_rows(node)):
            ok = (
                set(r) <= allowed
                and isinstance(r.get("trigger"), str)
                and all(isinstance(s, str) for s in _sources(r, states))
                and (isinstance(r.get("dest"), str) or r.get("dest") is None)
            )
            ctx.ob("C01.TABLE", SM, rn, f"{name} row {_row_text(r)}", ok, detail="row is not {trigger, source, dest, after/prepare/conditions} over string constants")
    ctx.floor("C01.TABLE", sum(len(t[0]) for t in tabs.values()), 12)

    spec_check = DFA(spec["initial"], [])
    for sym, s, d in spec["check"]:
        spec_check.add(s, sym, d)
    alphabet = sorted({sym for sym, _, _ in spec["check"]})

    def build(rows, node, prefix: str, guard_value: Optional[bool]) -> DFA:
        d = DFA(spec["initial"], alphabet)
        for r, rn in zip(rows, table_rows(node)):
            trig = r["trigger"]
            if prefix:
                if not trig.startswith(prefix):
                    ctx.ob("C01.LANG-CHECK", SM, rn, f"trigger {trig!r}", False, detail=f"check-phase trigger does not start with {prefix!r}: check_conf fires 'check_<step>' so this transition can never be taken")
                    continue
                trig = trig[len(prefix) :]
            guarded = "conditions" in r or "unless" in r
            for s in _sources(r, states):
                dest = r.get("dest")
                if dest is None:
                    dest = s
                if guarded and guard_value is False:
                    dest = s  # transitions 0.9: a false condition leaves the state unchanged, no error
                d.add(s, trig, dest)
        return d

    rows_c, node_c = tabs["_transitions_check"]
    rows_r, node_r = tabs["_transitions_run"]

    def culprit(rows, node, word, prefix, dfa=None, ref=None):
        """row to blame for a distinguishing word: the row of the first symbol after which the code and the
        documented machine are in different states (else the last symbol)."""
        last = word[-1]
        if dfa is not None and ref is not None:
            a, b = dfa.initial, ref.initial
            for w in word:
                a, b = dfa.step(a, w), ref.step(b, w)
                if a != b:
                    last = w
                    break
        for r, rn in zip(rows, table_rows(node)):
            if r["trigger"] == prefix + last:
                return rn, _row_text(r)
        return node, f"(no row for trigger {prefix + last!r})"

    # check language == spec language
    dfa_c = build(rows_c, node_c, "check_", None)
    word, nst, ntr = distinguish(dfa_c, spec_check)
    ctx.extra["states"] = nst
    ctx.extra["transitions"] = ntr
    for nd in dfa_c.nondet:
        ctx.ob("C01.LANG-CHECK", SM, node_c, f"two transitions for {nd[1]!r} from {nd[0]!r}", False, detail=f"destinations {nd[2]!r} and {nd[3]!r}: only the first one registered is ever taken")
    if word is None:
        ctx.ob("C01.LANG-CHECK", SM, node_c, "L(_transitions_check) == L(documented machine)", True)
    else:
        rn, rt = culprit(rows_c, node_c, word, "check_", dfa_c, spec_check)
        st_c, st_s = dfa_c.initial, spec_check.initial
        for w in word:
            st_c, st_s = dfa_c.step(st_c, w), spec_check.step(st_s, w)
        who = "accepted by the code, rejected by the documented machine" if st_c != DEAD else "rejected by the code, accepted by the documented machine"
        ctx.ob("C01.LANG-CHECK", SM, rn, f"word \"{' '.join(word)}\" {who}; row {rt}", False, detail=f"shortest distinguishing pipeline: {' -> '.join(word)}", expected="the documented automaton (spec/automaton.json)")

    # run language, for both values of the multiscale guard
    for gv, label in ((True, "not last scale"), (False, "last scale")):
        spec_run = DFA(spec["initial"], alphabet)
        for sym, s, d in spec["check"]:
            if sym in spec["run_divergence"]:
                s2, d2 = spec["run_divergence"][sym]["guard_true" if gv else "guard_false"]
                spec_run.add(s2, sym, d2)
            else:
                spec_run.add(s, sym, d)
        dfa_r = build(rows_r, node_r, "", gv)
        word, nst2, ntr2 = distinguish(dfa_r, spec_run)
        ctx.extra["states"] += nst2
        ctx.extra["transitions"] += ntr2
        if word is None:
            ctx.ob("C01.LANG-RUN", SM, node_r, f"L(_transitions_run | {label}) == L(documented machine)", True)
        else:
            rn, rt = culprit(rows_r, node_r, word, "", dfa_r, spec_run)
            ctx.ob("C01.LANG-RUN", SM, rn, f"word \"{' '.join(word)}\" distinguishes the run table ({label}) from the documented machine; row {rt}", False, detail=f"shortest distinguishing pipeline: {' -> '.join(word)}")
        # the guarded transitions are exactly the documented ones
    for r, rn in zip(rows_r, table_rows(node_r)):
        g = "conditions" in r or "unless" in r
        want = r["trigger"] in spec["run_divergence"]
        ctx.ob("C01.LANG-RUN", SM, rn, f"guard on run transition {r['trigger']!r}: {r.get('conditions', r.get('unless'))!r}", g == want and ("unless" not in r), detail="only the multiscale transition is conditional (conditions=is_not_last_scale)" if g != want else "")
        if g and want:
            ctx.ob("C01.LANG-RUN", SM, rn, f"multiscale condition callback {r.get('conditions')!r}", r.get("conditions") == "is_not_last_scale" or r.get("conditions") == ["is_not_last_scale"], detail="the condition of the multiscale transition must be the last-scale test")
    for r, rn in zip(rows_c, table_rows(node_c)):
        ctx.ob("C01.LANG-CHECK", SM, rn, f"check transition {r['trigger']!r} unconditional", "conditions" not in r and "unless" not in r, detail="a conditional check transition would silently skip the step's check")

    # CHECK ~ RUN : per symbol, same sources, same dest except documented divergence
    by_c: Dict[str, List[Tuple[str, str]]] = {}
    by_r: Dict[str, List[Tuple[str, str]]] = {}
    for r in rows_c:
        if r["trigger"].startswith("check_"):
            for s in _sources(r, states):
                by_c.setdefault(r["trigger"][6:], []).append((s, r.get("dest") or s))
    for r in rows_r:
        for s in _sources(r, states):
            by_r.setdefault(r["trigger"], []).append((s, r.get("dest") or s))
    for sym in sorted(set(by_c) | set(by_r)):
        c, r = sorted(by_c.get(sym, [])), sorted(by_r.get(sym, []))
        if sym in spec["run_divergence"]:
            ok = [s for s, _ in c] == [s for s, _ in r]
        else:
            ok = c == r
        ctx.ob("C01.CHECK~RUN", SM, node_c, f"step {sym!r}: check {c} vs run {r}", ok, detail="the check table and the run table disagree on this step: a pipeline can be accepted by the check and fail (or be mis-sequenced) at run time, or conversely")


def rule_machine_init(ctx: Ctx) -> None:
    tree = ctx.tree
    spec = _spec()
    init = tree.func(SM, f"{MACHINE}.__init__")
    calls = [c for c in calls_in(init) if (dotted(c.func) or "").endswith("Machine.__init__")]
    ctx.floor("C01.MACHINE-INIT", len(calls), 1)
    # states_ literal
    env = {}
    for st in walk_no_nested(init):
        if isinstance(st, ast.Assign) and len(st.targets) == 1 and isinstance(st.targets[0], ast.Name) and isinstance(st.value, (ast.List, ast.Tuple)):
            try:
                env[st.targets[0].id] = [e.value for e in st.value.elts]  # type: ignore[attr-defined]
            except AttributeError:
                pass
    for c in calls:
        kw = {k.arg: k.value for k in c.keywords}
        states = kw.get("states")
        sv = env.get(states.id) if isinstance(states, ast.Name) else ([e.value for e in states.elts] if isinstance(states, (ast.List, ast.Tuple)) else None)
        ok = (
            sv is not None
            and sorted(sv) == sorted(spec["states"])
            and isinstance(kw.get("initial"), ast.Constant)
            and kw["initial"].value == spec["initial"]
            and isinstance(kw.get("auto_transitions"), ast.Constant)
            and kw["auto_transitions"].value is False
            and (kw.get("transitions") is None or (isinstance(kw["transitions"], ast.Constant) and kw["transitions"].value is None))
            and not (isinstance(kw.get("ignore_invalid_triggers"), ast.Constant) and kw["ignore_invalid_triggers"].value)
            and "ignore_invalid_triggers" not in kw
            and "queued" not in kw
        )
        ctx.ob("C01.MACHINE-INIT", SM, c, src(c)[:200], ok, detail="the machine must start in 'begin' with the three documented states, no transition, no auto-transition, and must not ignore invalid triggers", expected="states=[begin, cost_volume, disp_map], initial='begin', transitions=None, auto_transitions=False")


def _abstract_calls(fn: ast.AST) -> List[ast.Call]:
    return [c for c in calls_in(fn) if (dotted(c.func) or "").split(".")[-1].startswith("Abstract")]


def rule_wiring(ctx: Ctx) -> None:
    tree = ctx.tree
    spec = _spec()
    meths = machine_methods(tree)
    n = 0
    for tab, prefix in (("_transitions_run", ""), ("_transitions_check", "check_")):
        rows, node = transition_table(tree, tab)
        for r, rn in zip(rows, table_rows(node)):
            trig = r["trigger"][len(prefix) :] if r["trigger"].startswith(prefix) else r["trigger"]
            fam = spec["families"].get(trig)
            cbs = []
            for k in ("prepare", "after", "conditions", "before", "unless"):
                v = r.get(k)
                for name in v if isinstance(v, list) else [v]:
                    if isinstance(name, str):
                        cbs.append((k, name))
            has_after = any(k == "after" for k, _ in cbs)
            ctx.ob("C01.WIRING", SM, rn, f"{tab}: {r['trigger']!r} has an 'after' callback", has_after, detail="a transition without an after-callback silently skips the step")
            fam_seen = False
            for k, name in cbs:
                n += 1
                fn = meths.get(name)
                if not ctx.ob("C01.WIRING", SM, rn, f"{tab}: {r['trigger']!r} {k}={name!r} is a method of {MACHINE}", fn is not None, detail="callback name does not resolve to a method"):
                    continue
                npar = len(fn.args.args) - 1
                ctx.ob("C01.WIRING", SM, fn, f"{name}(self, cfg, input_step) arity", npar == 2 and not fn.args.vararg and not fn.args.kwonlyargs, detail=f"callbacks are triggered with (cfg, input_step); {name} takes {npar} parameter(s)")
                if k == "conditions":
                    continue
                if fam is None:
                    continue
                # the callback (or the transition's prepare, for matching_cost) instantiates the family of the trigger
                ac = [c for c in _abstract_calls(fn)]
                mine = [c for c in ac if (dotted(c.func) or "") == fam]
                uses_prepared = any(self_attr(a) == "matching_cost_" for a in ast.walk(fn)) and trig == "matching_cost"
                if mine or uses_prepared:
                    fam_seen = True
                other = [dotted(c.func) for c in ac if (dotted(c.func) or "") != fam and not (trig == "validation" and (dotted(c.func) or "") == "validation.AbstractInterpolation")]
                ctx.ob("C01.WIRING", SM, fn, f"{tab}: {r['trigger']!r} -> {name} instantiates {fam}", bool(mine or uses_prepared) and not other, detail=(f"callback instantiates {other} instead" if other else f"callback of step {trig!r} never instantiates its step family: the step is silently skipped or swapped"), expected=f"a call to {fam}(...)")
                # configuration of the step comes from the entry named by input_step
                step_par = fn.args.args[2].arg if npar == 2 else None
                cfg_par = fn.args.args[1].arg if npar == 2 else None
                for c in mine + [c for c in ac if (dotted(c.func) or "") == "validation.AbstractInterpolation"]:
                    cfgs = [k2.value for k2 in c.keywords if k2.arg is None or k2.arg == "cfg"]
                    okc = False
                    for cv in cfgs:
                        want_run = f"{cfg_par}['pipeline'][{step_par}]"
                        want_chk = f"{cfg_par}[{step_par}]"
                        got = canon(cv)
                        if prefix == "" and got == want_run:
                            okc = True
                        if prefix != "" and (got == want_chk or _is_copy_of(fn, cv, want_chk)):
                            okc = True
                    ctx.ob("C01.STEP-CFG", SM, c, f"{name}: {src(c)[:160]}", okc, detail="the step object must be built from the configuration entry named by the triggering step (input_step), otherwise suffixed steps ('filter.1') run with another step's parameters", expected=f"**{cfg_par}[...][{step_par}]")
            if fam is not None and has_after:
                ctx.ob("C01.WIRING", SM, rn, f"{tab}: {r['trigger']!r} reaches {fam}", fam_seen, detail="no callback of this transition builds the step's family")
    ctx.floor("C01.WIRING", n, 20)


def _is_copy_of(fn: ast.AST, node: ast.AST, want: str) -> bool:
    """node is a local name assigned copy.deepcopy(<want>) in fn."""
    if not isinstance(node, ast.Name):
        return False
    for st in walk_no_nested(fn):
        if isinstance(st, ast.Assign) and len(st.targets) == 1 and isinstance(st.targets[0], ast.Name) and st.targets[0].id == node.id:
            v = st.value
            if isinstance(v, ast.Call) and (dotted(v.func) or "") in ("copy.deepcopy", "deepcopy", "copy.copy", "dict") and len(v.args) == 1 and canon(v.args[0]) == want:
                return True
    return False


def rule_once(ctx: Ctx) -> None:
    """Each run callback applies its step object once per side, never in a loop."""
    tree = ctx.tree
    meths = machine_methods(tree)
    n = 0
    for cb in run_callbacks(tree):
        fn = meths.get(cb)
        if fn is None or cb in ("is_not_last_scale",):
            continue
        # step objects: locals assigned from Abstract* calls, and self.matching_cost_
        objs = set()
        for st in walk_no_nested(fn):
            if isinstance(st, ast.Assign) and len(st.targets) == 1 and isinstance(st.value, ast.Call) and (dotted(st.value.func) or "").split(".")[-1].startswith("Abstract"):
                t = st.targets[0]
                objs.add(canon(t))
        if any(self_attr(a) == "matching_cost_" for a in ast.walk(fn)):
            objs.add("self.matching_cost_")
        objs.add("validity_mask")  # the criteria function applied by matching_cost_prepare

        def app(c: ast.Call) -> Optional[str]:
            f = c.func
            if isinstance(f, ast.Attribute) and canon(f.value) in objs:
                return f"{canon(f.value)}.{f.attr}"
            if isinstance(f, ast.Name) and f.id in objs:
                return f.id
            return None

        apps = [c for c in calls_in(fn) if app(c)]
        if not apps:
            ctx.ob("C01.ONCE", SM, fn, f"{cb}: applies its step object", cb == "matching_cost_prepare" and False, detail="the callback never applies the step object it builds: the step has no effect")
            continue
        n += 1
        for c in apps:
            ctx.ob("C01.ONCE", SM, c, f"{cb}: {app(c)}(...) not inside a loop", not enclosing_loops(c), detail="a step applied inside a loop takes effect more than once per scale")
        for p in normal_paths(fn):
            right = any(e[0] == "test" and e[2] and any(self_attr(x) == "right_disp_map" for x in ast.walk(e[1])) for e in p.events)
            counts: Dict[str, int] = {}
            for e in p.events:
                if e[0] == "call" and app(e[1]):
                    counts[app(e[1])] = counts.get(app(e[1]), 0) + 1
            lim = 2 if right else 1
            bad = {k: v for k, v in counts.items() if v > lim}
            none = not counts
            ctx.ob(
                "C01.ONCE",
                SM,
                fn,
                f"{cb}: path ({'with' if right else 'without'} right pass) applies {sorted(counts.items())}",
                not bad and not none,
                detail=(f"{bad} applied more than once per side" if bad else "a path through the callback applies nothing"),
                expected=f"each step method at most {lim} time(s) on this path, at least one application",
            )
    ctx.floor("C01.ONCE", n, 9)


# --------------------------------------------------------------------------------------
# lifecycle
# --------------------------------------------------------------------------------------
def _is_self_call(c: ast.Call, meth: str, arg0: Optional[str] = None) -> bool:
    if not (isinstance(c.func, ast.Attribute) and c.func.attr == meth and isinstance(c.func.value, ast.Name) and c.func.value.id == "self"):
        return False
    if arg0 is None:
        return True
    return len(c.args) >= 1 and canon(c.args[0]) == arg0


def _helper_inliner(ctx: Ctx):
    meths = machine_methods(ctx.tree)
    builtin = {"add_transitions", "remove_transition", "set_state", "trigger", "check_conf", "remove_transitions"}

    def inline(c: ast.Call):
        f = c.func
        if isinstance(f, ast.Attribute) and isinstance(f.value, ast.Name) and f.value.id == "self" and f.attr in meths and f.attr not in builtin:
            return meths[f.attr]
        return None

    return inline


def rule_lifecycle(ctx: Ctx) -> None:
    tree = ctx.tree
    meths = machine_methods(tree)
    inline = _helper_inliner(ctx)

    # ---- check_conf
    cc = tree.func(SM, f"{MACHINE}.check_conf")
    pars = [a.arg for a in cc.args.args]
    if len(pars) < 5:
        raise AnalysisError("check_conf signature changed (expected self, cfg, img_left, img_right, right_left_img_check)")
    _, p_cfg, p_l, p_r, p_flag = pars[:5]
    paths = normal_paths(cc, inline=inline)
    ctx.floor("C01.LIFECYCLE(paths of check_conf)", len(paths), 2)
    T = "self._transitions_check"
    npth = 0
    for p in paths:
        npth += 1
        ev = p.events
        is_call = lambda e, m, a=None: e[0] == "call" and _is_self_call(e[1], m, a)  # noqa: E731
        i_add = p.index_of(lambda e: is_call(e, "add_transitions", T))
        trig = [i for i, e in enumerate(ev) if is_call(e, "trigger")]
        i_rm = p.last_index_of(lambda e: is_call(e, "remove_transitions", T))
        i_set = p.last_index_of(lambda e: e[0] == "call" and _is_self_call(e[1], "set_state") and len(e[1].args) == 1 and isinstance(e[1].args[0], ast.Constant) and e[1].args[0].value == "begin")
        rec = [i for i, e in enumerate(ev) if is_call(e, "check_conf")]
        n_add = sum(1 for e in ev if is_call(e, "add_transitions"))
        desc = f"check_conf path with {len(trig)} trigger(s){' + second round' if rec else ''}"
        first_trig = trig[0] if trig else len(ev)
        last_trig = trig[-1] if trig else -1
        first_rec = rec[0] if rec else len(ev)
        ctx.ob("C01.LIFECYCLE", SM, cc, f"{desc}: add_transitions({T}) once, before the first trigger", i_add >= 0 and n_add == 1 and i_add < first_trig, detail="the check transitions are not added (exactly once) before the steps are triggered")
        ctx.ob("C01.LIFECYCLE", SM, cc, f"{desc}: remove_transitions({T}) after the last trigger, before the second round / exit", i_rm > last_trig and i_rm > i_add and i_rm < first_rec, detail="a successful check leaves the check transitions registered (leftover transitions: a later check or run on the same machine behaves differently)")
        ctx.ob("C01.LIFECYCLE", SM, cc, f"{desc}: set_state('begin') after the last trigger, before the second round / exit", i_set > last_trig and i_set < first_rec, detail="a successful check does not bring the machine back to 'begin'")
        # nothing re-adds transitions or moves the state after the cleanup (besides the recursive round)
        after = [e for e in ev[max(i_rm, i_set) + 1 :] if e[0] == "call" and (_is_self_call(e[1], "add_transitions") or _is_self_call(e[1], "trigger") or _is_self_call(e[1], "set_state"))]
        ctx.ob("C01.LIFECYCLE", SM, cc, f"{desc}: no trigger/add_transitions after the cleanup", not after, detail="the machine is modified again after having been reset")
        # stores of the images
        for i in rec:
            c = ev[i][1]
            args = [canon(a) for a in c.args] + [f"{k.arg}={canon(k.value)}" for k in c.keywords]
            okargs = len(c.args) >= 3 and canon(c.args[0]) == p_cfg and canon(c.args[1]) == p_r and canon(c.args[2]) == p_l and ((len(c.args) >= 4 and isinstance(c.args[3], ast.Constant) and c.args[3].value is True) or any(k.arg == p_flag and isinstance(k.value, ast.Constant) and k.value.value is True for k in c.keywords))
            ctx.ob("C01.LIFECYCLE", SM, c, f"second round: self.check_conf({', '.join(args)})", okargs, detail="the right/left round must check the same pipeline with the two images exchanged and the flag set (else: wrong images checked, or unbounded recursion)", expected=f"self.check_conf({p_cfg}, {p_r}, {p_l}, True)")
            # guard of the recursive call
            gl = [(t, pol) for e in ev[:i] if e[0] == "test" for t, pol in [(e[1], e[2])]]
            gtests = [(t, pol) for t, pol in guards_of(c, stop=cc)]
            want = boolform(ast.parse(f"self.right_disp_map and not {p_flag}", mode="eval").body)
            if gtests:
                parts = [boolform(t) if pol else boolform(ast.UnaryOp(op=ast.Not(), operand=t)) for t, pol in gtests]
                from ..sym import B

                got = parts[0] if len(parts) == 1 else B("and", parts)
                okg = equivalent(got, want) is None
            else:
                okg = False
            ctx.ob("C01.LIFECYCLE", SM, c, f"second round guarded by `{' and '.join(src(t) if pol else 'not (' + src(t) + ')' for t, pol in gtests)}`", okg, detail="the second round must run iff a validation step asked for right products and this is the first round", expected=f"self.right_disp_map and not {p_flag}")
            # images restored afterwards
            rest = ev[i + 1 :]
            st_l = any(e[0] == "store" and self_attr(e[2]) == "left_img" and canon(e[1].value) == p_l for e in rest)
            st_r = any(e[0] == "store" and self_attr(e[2]) == "right_img" and canon(e[1].value) == p_r for e in rest)
            ctx.ob("C01.LIFECYCLE", SM, c, "after the second round self.left_img/right_img are restored", st_l and st_r, detail="after the exchanged round the machine keeps the exchanged images: later checks see right as left")
        # first stores
        first_l = next((e for e in ev if e[0] == "store" and self_attr(e[2]) == "left_img"), None)
        first_r = next((e for e in ev if e[0] == "store" and self_attr(e[2]) == "right_img"), None)
        ctx.ob("C01.LIFECYCLE", SM, cc, f"{desc}: self.left_img, self.right_img = {p_l}, {p_r} before the triggers", first_l is not None and first_r is not None and canon(first_l[1].value) == p_l and canon(first_r[1].value) == p_r and ev.index(first_l) < first_trig and ev.index(first_r) < first_trig, detail="the images the step checks look at are not the ones given to check_conf")
    ctx.count("check_conf_paths", npth)

    # ---- run_prepare
    rp = tree.func(SM, f"{MACHINE}.run_prepare")
    paths = normal_paths(rp, inline=inline)
    ctx.floor("C01.LIFECYCLE(paths of run_prepare)", len(paths), 2)
    for p in paths:
        n_add = [e for e in p.events if e[0] == "call" and _is_self_call(e[1], "add_transitions")]
        ok = len(n_add) == 1 and canon(n_add[0][1].args[0]) == "self._transitions_run" if n_add and n_add[0][1].args else False
        tests = "; ".join(("" if e[2] else "not ") + src(e[1])[:40] for e in p.events if e[0] == "test")
        ctx.ob("C01.LIFECYCLE", SM, rp, f"run_prepare path [{tests}]: add_transitions(self._transitions_run) exactly once", ok, detail="run_prepare does not register the run transitions exactly once on this path")

    # ---- run_exit
    rx = tree.func(SM, f"{MACHINE}.run_exit")
    for p in normal_paths(rx, inline=inline):
        has_rm = any(e[0] == "call" and _is_self_call(e[1], "remove_transitions", "self._transitions_run") for e in p.events)
        has_set = any(e[0] == "call" and _is_self_call(e[1], "set_state") and e[1].args and isinstance(e[1].args[0], ast.Constant) and e[1].args[0].value == "begin" for e in p.events)
        ctx.ob("C01.LIFECYCLE", SM, rx, "run_exit: remove_transitions(self._transitions_run)", has_rm, detail="a run leaves its transitions registered: the next run_prepare adds them a second time and every step then runs twice")
        ctx.ob("C01.LIFECYCLE", SM, rx, "run_exit: set_state('begin')", has_set, detail="a run does not bring the machine back to 'begin': the next run on this machine fails with a sequencing error")

    # ---- remove_transitions removes every trigger of its list
    rt = tree.func(SM, f"{MACHINE}.remove_transitions")
    lst = rt.args.args[1].arg if len(rt.args.args) >= 2 else None
    loops = [s for s in stmts_of(rt) if isinstance(s, ast.For)]
    ok = False
    why = "no loop over the transition list"
    for lp in loops:
        if canon(lp.iter) != lst or not isinstance(lp.target, ast.Name):
            continue
        v = lp.target.id
        rm = [c for c in calls_in(lp) if _is_self_call(c, "remove_transition")]
        if not rm:
            why = "the loop never calls self.remove_transition"
            continue
        c = rm[0]
        okarg = len(c.args) == 1 and canon(c.args[0]) == f"{v}['trigger']"
        gs = guards_of(c, stop=lp)
        okg = True
        for t, pol in gs:
            # accept only the de-duplication idiom `X not in L` with L a local list appended to in the same block after the call
            if isinstance(t, ast.Compare) and len(t.ops) == 1 and isinstance(t.ops[0], ast.NotIn) and pol and isinstance(t.comparators[0], ast.Name):
                L = t.comparators[0].id
                appends = [x for x in calls_in(rt) if isinstance(x.func, ast.Attribute) and x.func.attr == "append" and canon(x.func.value) == L]
                others = [x for x in walk_no_nested(rt) if isinstance(x, ast.Assign) and any(canon(tt) == L for tt in x.targets)]
                init_empty = len(others) == 1 and isinstance(others[0].value, (ast.List,)) and not others[0].value.elts and others[0] in stmts_of(rt)
                app_ok = all(guards_of(a, stop=lp) == gs and a.lineno > c.lineno for a in appends)
                if not (init_empty and app_ok):
                    okg = False
            else:
                okg = False
        ok = okarg and okg and not lp.orelse
        why = "" if ok else ("argument is not <elem>['trigger']" if not okarg else "the removal is conditional on something other than a first-occurrence test")
        break
    ctx.ob("C01.LIFECYCLE", SM, rt, "remove_transitions: self.remove_transition(t['trigger']) for every t of the list", ok, detail=why or "")
    # no early exit in that loop
    for lp in loops:
        bad = [n for n in walk_no_nested(lp) if isinstance(n, (ast.Break, ast.Return, ast.Continue))]
        ctx.ob("C01.LIFECYCLE", SM, lp, "remove_transitions: loop has no break/continue/return", not bad, detail="some transitions are left registered")



def _finally_cleanup(call: ast.AST, stop: ast.AST, needed) -> List[str]:
    """Names of the `needed` cleanup calls found in the finalbody of a try statement enclosing `call`."""
    found: List[str] = []
    cur = getattr(call, "_parent", None)
    child = call
    while cur is not None and cur is not stop:
        if isinstance(cur, ast.Try) and any(child is x for x in cur.body) and cur.finalbody:
            for c in [c for st in cur.finalbody for c in calls_in(st)]:
                for name, pred in needed:
                    if pred(c) and name not in found:
                        found.append(name)
        child, cur = cur, getattr(cur, "_parent", None)
    return found


def rule_lifecycle_exc(ctx: Ctx) -> None:
    """The machine is released on the exceptional exits too: a refused check, or a step that fails while running, must
    not leave the transitions registered and the state in the middle of the automaton -- every later check or run on the
    same machine object would be refused ("for every history of check/run calls on one machine")."""
    tree = ctx.tree
    cc = tree.func(SM, f"{MACHINE}.check_conf")
    trig = [c for c in calls_in(cc) if _is_self_call(c, "trigger")]
    ctx.floor("C01.LIFECYCLE-EXC(trigger calls)", len(trig), 1)
    need = [
        ("remove_transitions(self._transitions_check)", lambda c: _is_self_call(c, "remove_transitions", "self._transitions_check")),
        ("set_state('begin')", lambda c: _is_self_call(c, "set_state") and len(c.args) == 1 and isinstance(c.args[0], ast.Constant) and c.args[0].value == "begin"),
    ]
    for c in trig:
        got = _finally_cleanup(c, cc, need)
        ctx.ob("C01.LIFECYCLE-EXC", SM, c, f"check_conf: `{src(c)[:70]}` is covered by a finally that releases the machine ({', '.join(got) or 'none'})", len(got) == 2, expected="try: <trigger loop> finally: self.remove_transitions(self._transitions_check); self.set_state('begin')", detail="when a step is refused (sequencing error, or a parameter outside its domain) the exception leaves check_conf with the check transitions still registered and the state where the refusal happened: the next check of a perfectly legal pipeline on this machine is refused")
    run = tree.func(INIT, "run")
    m = run.args.args[0].arg
    runs = [c for c in calls_in(run) if isinstance(c.func, ast.Attribute) and c.func.attr == "run" and canon(c.func.value) == m]
    ctx.floor("C01.LIFECYCLE-EXC(run calls)", len(runs), 1)
    need_r = [(f"{m}.run_exit()", lambda c: isinstance(c.func, ast.Attribute) and c.func.attr == "run_exit" and canon(c.func.value) == m)]
    for c in runs:
        got = _finally_cleanup(c, run, need_r)
        ctx.ob("C01.LIFECYCLE-EXC", INIT, c, f"pandora.run: `{src(c)[:60]}` is covered by a finally that calls {m}.run_exit()", len(got) == 1, expected=f"try: <per-scale loops> finally: {m}.run_exit()", detail="a step that raises while running leaves the run transitions registered: the machine cannot be checked or run again")

def rule_driver(ctx: Ctx) -> None:
    tree = ctx.tree
    run = tree.func(INIT, "run")
    pars = [a.arg for a in run.args.args]
    if len(pars) < 4:
        raise AnalysisError("pandora.run signature changed")
    m, il, ir, cfg = pars[:4]
    body = []
    for st in stmts_of(run):
        # the per-scale loop may sit in a try/finally that releases the machine
        body.extend(st.body if isinstance(st, ast.Try) else [st])
    outer = [s for s in body if isinstance(s, ast.For)]
    ctx.floor("C01.DRIVER(outer loops)", len(outer), 1)
    ok_outer = len(outer) == 1 and canon(outer[0].iter) == f"range({m}.num_scales)"
    ctx.ob("C01.DRIVER", INIT, outer[0], f"for {src(outer[0].target)} in {src(outer[0].iter)}", ok_outer, detail="the per-scale loop must run once per scale of the machine", expected=f"range({m}.num_scales)")
    o = outer[0]
    inner = [s for s in o.body if isinstance(s, ast.For)]
    ok_inner = len(inner) == 1 and len([s for s in o.body if not isinstance(s, (ast.For, ast.Expr))]) == 0
    pipeline_iters = {f"list({cfg}['pipeline'])", f"{cfg}['pipeline']", f"{cfg}['pipeline'].keys()", f"list({cfg}['pipeline'].keys())"}
    if inner:
        i = inner[0]
        ok_iter = canon(i.iter) in pipeline_iters and isinstance(i.target, ast.Name)
        ctx.ob("C01.DRIVER", INIT, i, f"for {src(i.target)} in {src(i.iter)}", ok_inner and ok_iter, detail="each scale must trigger every configured step, in the configured (dict) order", expected=f"iteration over the whole {cfg}['pipeline']")
        v = i.target.id if isinstance(i.target, ast.Name) else "?"
        runs = [c for c in calls_in(i) if isinstance(c.func, ast.Attribute) and c.func.attr == "run" and canon(c.func.value) == m]
        ok_run = len(runs) == 1 and [canon(a) for a in runs[0].args] == [v, cfg] and not guards_of(runs[0], stop=i) and len(enclosing_loops(runs[0])) == 2
        ctx.ob("C01.DRIVER", INIT, runs[0] if runs else i, f"{m}.run({v}, {cfg}) once per element, unconditionally", ok_run, detail="a step is skipped, repeated or triggered with another name")
        # the only exit from the inner loop: break iff state == begin, after the run call
        exits = [n for n in walk_no_nested(i) if isinstance(n, (ast.Break, ast.Continue, ast.Return))]
        ok_exit = len(exits) <= 1
        for ex in exits:
            gs = guards_of(ex, stop=i)
            ok_exit = ok_exit and isinstance(ex, ast.Break) and len(gs) == 1 and gs[0][1] and equivalent(boolform(gs[0][0]), boolform(ast.parse(f"{m}.state == 'begin'", mode='eval').body)) is None and (not runs or ex.lineno > runs[0].lineno)
        ctx.ob("C01.DRIVER", INIT, exits[0] if exits else i, "inner loop leaves early iff the machine went back to 'begin' (multiscale, not last scale)", ok_exit and len(exits) == 1, detail="the per-scale loop must restart the pipeline exactly when the multiscale transition brought the machine back to 'begin'", expected=f"if {m}.state == 'begin': break")
    else:
        ctx.ob("C01.DRIVER", INIT, o, "inner loop over the pipeline", False, detail="no loop over cfg['pipeline'] inside the per-scale loop")
    # sequence on every normal path: read_multiscale_params -> run_prepare -> loops -> run_exit -> return (left, right)
    for p in normal_paths(run, loop_iters=(0, 1)):
        ev = p.events
        i_prep = p.index_of(lambda e: e[0] == "call" and isinstance(e[1].func, ast.Attribute) and e[1].func.attr == "run_prepare" and canon(e[1].func.value) == m)
        i_loop = p.index_of(lambda e: e[0] == "enter-loop")
        i_exit = p.last_index_of(lambda e: e[0] == "call" and isinstance(e[1].func, ast.Attribute) and e[1].func.attr == "run_exit" and canon(e[1].func.value) == m)
        i_lastloop = p.last_index_of(lambda e: e[0] == "exit-loop")
        ret = ev[-1] if ev and ev[-1][0] == "return" else None
        ok = 0 <= i_prep < i_loop and i_exit > i_lastloop >= 0
        ctx.ob("C01.LIFECYCLE", INIT, run, "pandora.run: run_prepare -> per-scale loop -> run_exit on every normal path", ok, detail="run_exit (transition removal + reset) is not reached after the loops, or run_prepare does not precede them")
        okret = ret is not None and isinstance(ret[1].value, ast.Tuple) and [canon(e) for e in ret[1].value.elts] == [f"{m}.left_disparity", f"{m}.right_disparity"]
        ctx.ob("C01.DRIVER", INIT, ret[1] if ret else run, f"return {src(ret[1].value) if ret else '?'}", okret, expected=f"({m}.left_disparity, {m}.right_disparity)", detail="the products returned are not (left, right)")
        if i_prep >= 0:
            c = ev[i_prep][1]
            args = [canon(a) for a in c.args]
            ctx.ob("C01.DRIVER", INIT, c, f"{m}.run_prepare({', '.join(args)})", args[:3] == [cfg, il, ir] and len(args) == 5, detail="run_prepare must receive (cfg, left, right, scale_factor, num_scales)")
            # scale_factor / num_scales positions: def-use from read_multiscale_params unpacking
            unpack = [e for e in ev[:i_prep] if e[0] == "store" and isinstance(e[1], ast.Assign) and isinstance(e[1].value, ast.Call) and (dotted(e[1].value.func) or "").endswith("read_multiscale_params")]
            if unpack and isinstance(unpack[0][1].targets[0], ast.Tuple) and len(args) == 5:
                names = [canon(x) for x in unpack[0][1].targets[0].elts]
                rp = tree.func(SM, f"{MACHINE}.run_prepare")
                rp_pars = [a.arg for a in rp.args.args][4:6]
                # read_multiscale_params returns (num_scales, scale_factor)
                rm = tree.func("pandora/check_configuration.py", "read_multiscale_params")
                rets = [n for n in walk_no_nested(rm) if isinstance(n, ast.Return) and isinstance(n.value, ast.Tuple)]
                order = [canon(x) for x in rets[0].value.elts] if rets else []
                bind = dict(zip(names, order))
                got = [bind.get(args[3]), bind.get(args[4])]
                ctx.ob("C01.DRIVER", INIT, c, f"run_prepare(..., {args[3]}, {args[4]}) binds ({', '.join(rp_pars)}) to {got}", got == rp_pars, detail="scale_factor and num_scales are exchanged between read_multiscale_params and run_prepare")

    # check_conf loop iterates the whole pipeline
    cc = tree.func(SM, f"{MACHINE}.check_conf")
    p_cfg = cc.args.args[1].arg
    loops = [s for st in stmts_of(cc) for s in (st.body if isinstance(st, ast.Try) else [st]) if isinstance(s, ast.For)]
    its = {f"list({p_cfg}['pipeline'])", f"{p_cfg}['pipeline']", f"{p_cfg}['pipeline'].keys()", f"list({p_cfg}['pipeline'].keys())"}
    ok = len(loops) == 1 and canon(loops[0].iter) in its
    ctx.ob("C01.DRIVER", SM, loops[0] if loops else cc, f"check_conf: for {src(loops[0].target) if loops else '?'} in {src(loops[0].iter) if loops else '?'}", ok, detail="the check must trigger every configured step in order (a truncated or reordered iteration accepts illegal pipelines)")
    if loops:
        exits = [n for n in walk_no_nested(loops[0]) if isinstance(n, (ast.Break, ast.Continue, ast.Return))]
        ctx.ob("C01.DRIVER", SM, loops[0], "check_conf loop has no break/continue/return", not exits, detail="steps after an early exit are never checked")


# --------------------------------------------------------------------------------------
# trigger names: abstract evaluation of the string expression on the shapes 'name', 'name.sfx', 'name.a.b'
# --------------------------------------------------------------------------------------
class _Unknown(Exception):
    pass


def _seval(node: ast.AST, env: Dict[str, object]):
    if isinstance(node, ast.Constant):
        return node.value
    if isinstance(node, ast.Name):
        if node.id in env:
            return env[node.id]
        raise _Unknown(node.id)
    if isinstance(node, ast.BinOp) and isinstance(node.op, ast.Add):
        return _seval(node.left, env) + _seval(node.right, env)
    if isinstance(node, ast.JoinedStr):
        out = ""
        for v in node.values:
            out += str(_seval(v.value, env)) if isinstance(v, ast.FormattedValue) else v.value
        return out
    if isinstance(node, ast.Subscript):
        base = _seval(node.value, env)
        if isinstance(node.slice, ast.Slice):
            lo = _seval(node.slice.lower, env) if node.slice.lower else None
            hi = _seval(node.slice.upper, env) if node.slice.upper else None
            return base[lo:hi]
        return base[_seval(node.slice, env)]
    if isinstance(node, ast.UnaryOp) and isinstance(node.op, ast.USub):
        return -_seval(node.operand, env)
    if isinstance(node, ast.UnaryOp) and isinstance(node.op, ast.Not):
        return not _seval(node.operand, env)
    if isinstance(node, ast.Call):
        f = node.func
        if isinstance(f, ast.Name) and f.id == "len" and len(node.args) == 1:
            return len(_seval(node.args[0], env))
        if isinstance(f, ast.Name) and f.id == "str" and len(node.args) == 1:
            return str(_seval(node.args[0], env))
        if isinstance(f, ast.Attribute) and f.attr in ("split", "rsplit", "partition", "startswith", "endswith", "count", "replace", "join", "format", "find"):
            recv = _seval(f.value, env)
            args = [_seval(a, env) for a in node.args]
            return getattr(recv, f.attr)(*args)
    if isinstance(node, ast.Compare) and len(node.ops) == 1:
        a, b = _seval(node.left, env), _seval(node.comparators[0], env)
        op = node.ops[0]
        if isinstance(op, ast.Eq):
            return a == b
        if isinstance(op, ast.NotEq):
            return a != b
        if isinstance(op, ast.Gt):
            return a > b
        if isinstance(op, ast.GtE):
            return a >= b
        if isinstance(op, ast.Lt):
            return a < b
        if isinstance(op, ast.LtE):
            return a <= b
        if isinstance(op, ast.In):
            return a in b
        if isinstance(op, ast.NotIn):
            return a not in b
    if isinstance(node, ast.BoolOp):
        vals = [_seval(v, env) for v in node.values]
        return all(vals) if isinstance(node.op, ast.And) else any(vals)
    if isinstance(node, ast.IfExp):
        return _seval(node.body, env) if _seval(node.test, env) else _seval(node.orelse, env)
    raise _Unknown(src(node))


def _trigger_names(fn: ast.AST, step_par: str, region: ast.AST, reps: List[str]) -> Dict[str, List[Tuple[object, ast.Call]]]:
    """For each representative step name, the values of the first argument of self.trigger on the feasible paths."""
    out: Dict[str, List[Tuple[object, ast.Call]]] = {r: [] for r in reps}

    class Holder:
        body = [region] if isinstance(region, ast.stmt) else region

    for rep in reps:
        for p in paths_of(Holder, loop_iters=(1,)):  # type: ignore[arg-type]
            env: Dict[str, object] = {step_par: rep}
            feasible = True
            for e in p.events:
                try:
                    if e[0] == "store" and isinstance(e[1], ast.Assign) and isinstance(e[2], ast.Name):
                        try:
                            env[e[2].id] = _seval(e[1].value, env)
                        except _Unknown:
                            env.pop(e[2].id, None)
                    elif e[0] == "test":
                        try:
                            v = bool(_seval(e[1], env))
                        except _Unknown:
                            continue
                        if v != e[2]:
                            feasible = False
                            break
                    elif e[0] == "call" and _is_self_call(e[1], "trigger"):
                        try:
                            out[rep].append((_seval(e[1].args[0], env), e[1]))
                        except (_Unknown, IndexError, TypeError, AttributeError) as exc:
                            out[rep].append((f"<unknown:{exc}>", e[1]))
                except Exception:  # pragma: no cover  pylint: disable=broad-except
                    feasible = False
                    break
            if not feasible:
                continue
    return out


def rule_trigger(ctx: Ctx) -> None:
    tree = ctx.tree
    reps = ["filter", "filter.1", "filter.a.b"]
    # check_conf
    cc = tree.func(SM, f"{MACHINE}.check_conf")
    p_cfg = cc.args.args[1].arg
    loops = [s for st in stmts_of(cc) for s in (st.body if isinstance(st, ast.Try) else [st]) if isinstance(s, ast.For)]
    if not loops or not isinstance(loops[0].target, ast.Name):
        raise AnalysisError("check_conf: step loop not found")
    v = loops[0].target.id
    names = _trigger_names(cc, v, loops[0].body, reps)
    n = 0
    for rep in reps:
        vals = names[rep]
        n += len(vals)
        seen = {x for x, _ in vals}
        ok = bool(vals) and seen == {"check_filter"}
        ctx.ob("C01.TRIGGER", SM, vals[0][1] if vals else cc, f"check_conf: step {rep!r} fires {sorted(map(str, seen))}", ok, expected="'check_filter' (= 'check_' + name before the first dot)", detail="the check phase does not fire the check transition of the step's kind for this shape of step name")
        for _, c in vals:
            a = [canon(x) for x in c.args[1:]]
            ctx.ob("C01.TRIGGER", SM, c, f"check_conf: trigger(..., {', '.join(a)})", a == [f"{p_cfg}['pipeline']", v], expected=f"({p_cfg}['pipeline'], {v})", detail="check callbacks must receive the pipeline section and the full step name")
    # run
    rn = tree.func(SM, f"{MACHINE}.run")
    s_par, c_par = rn.args.args[1].arg, rn.args.args[2].arg
    names = _trigger_names(rn, s_par, stmts_of(rn), reps)
    for rep in reps:
        vals = names[rep]
        n += len(vals)
        seen = {x for x, _ in vals}
        ctx.ob("C01.TRIGGER", SM, vals[0][1] if vals else rn, f"run: step {rep!r} fires {sorted(map(str, seen))}", bool(vals) and seen == {"filter"}, expected="'filter' (name before the first dot)", detail="the run phase does not fire the transition of the step's kind for this shape of step name")
        for _, c in vals:
            a = [canon(x) for x in c.args[1:]]
            ctx.ob("C01.TRIGGER", SM, c, f"run: trigger(..., {', '.join(a)})", a == [c_par, s_par], expected=f"({c_par}, {s_par})", detail="run callbacks must receive the whole configuration and the full step name")
    ctx.floor("C01.TRIGGER", n, 6)


def _handler_types(h: ast.ExceptHandler) -> List[str]:
    if h.type is None:
        return ["BaseException"]
    if isinstance(h.type, ast.Tuple):
        return [dotted(e) or src(e) for e in h.type.elts]
    return [dotted(h.type) or src(h.type)]


def rule_errmap(ctx: Ctx) -> None:
    tree = ctx.tree
    need = {"MachineError", "KeyError", "AttributeError"}
    for name, must_be_machine_error in (("check_conf", True), ("run", False)):
        fn = tree.func(SM, f"{MACHINE}.{name}")
        trig = [c for c in calls_in(fn) if _is_self_call(c, "trigger")]
        for c in trig:
            tries = []
            cur = c
            from ..astx import ancestors

            child = c
            for anc in ancestors(c):
                if isinstance(anc, ast.Try) and any(child is s or _contains(s, c) for s in anc.body):
                    tries.append(anc)
                if anc is fn:
                    break
                child = anc
            if not tries:
                # no handler at all: errors propagate unchanged -- fine for 'run', not for check_conf
                ctx.ob("C01.ERRMAP", SM, c, f"{name}: trigger not wrapped in try", not must_be_machine_error, detail="an illegal pipeline must be refused with a sequencing error (MachineError)")
                continue
            t = tries[0]
            covered = set()
            for h in t.handlers:
                ts = set(_handler_types(h))
                covered |= ts
                if ts & {"Exception", "BaseException"}:
                    covered |= need
                hp = paths_of(type("H", (), {"body": h.body}))  # type: ignore[arg-type]
                all_raise = all(p.exit == "raise" for p in hp) and bool(hp)
                ctx.ob("C01.ERRMAP", SM, h, f"{name}: except {sorted(ts)} re-raises on every path", all_raise, detail="a sequencing error is swallowed: the illegal pipeline is partly applied / silently accepted")
                if must_be_machine_error:
                    raises = [n for n in walk_no_nested(h) if isinstance(n, ast.Raise)]
                    okm = bool(raises) and all(r.exc is not None and isinstance(r.exc, ast.Call) and (dotted(r.exc.func) or "").split(".")[-1] == "MachineError" for r in raises)
                    ctx.ob("C01.ERRMAP", SM, h, f"{name}: handler raises MachineError", okm, detail="an illegal pipeline must be refused with a sequencing error (MachineError)")
            if must_be_machine_error:
                ctx.ob("C01.ERRMAP", SM, t, f"{name}: handlers cover {sorted(need)} (found {sorted(covered)})", need <= covered, detail="a wrong sequence surfaces as MachineError / KeyError / AttributeError from the transitions library; an uncaught kind escapes as something else than a sequencing error")
        ctx.floor(f"C01.ERRMAP({name})", len(trig), 1)


def _contains(root: ast.AST, node: ast.AST) -> bool:
    return any(n is node for n in ast.walk(root))


def rule_scale(ctx: Ctx) -> None:
    tree = ctx.tree
    fn = tree.func(SM, f"{MACHINE}.is_not_last_scale")
    from ..sym import B

    true_paths = []
    okshape = True
    for p in normal_paths(fn):
        conds = [boolform(e[1]) if e[2] else B("not", boolform(e[1])) for e in p.events if e[0] == "test"]
        ret = p.events[-1] if p.events and p.events[-1][0] == "return" else None
        if ret is None or ret[1].value is None:
            okshape = False
            continue
        val = ret[1].value
        if isinstance(val, ast.Constant) and isinstance(val.value, bool):
            if val.value:
                true_paths.append(B("and", conds) if conds else B("const", True))
        else:
            true_paths.append(B("and", conds + [boolform(val)]))
    got = B("or", true_paths) if true_paths else B("const", False)
    want = boolform(ast.parse("self.current_scale != 0", mode="eval").body)
    # current_scale >= 0 is an invariant (initialised to num_scales-1 >= 0, decremented only when != 0)
    diff = None
    from ..sym import _assignments  # type: ignore

    for s, v in _assignments([got, want]):
        if any(k == "self.current_scale" and sg < 0 for k, sg in s.items()):
            continue
        if got.eval(s, v) != want.eval(s, v):
            diff = (s, v)
            break
    ctx.ob("C01.SCALE", SM, fn, f"is_not_last_scale() <=> {got.text()}", okshape and diff is None, expected="True iff self.current_scale != 0", detail=f"differs for {diff}" if diff else "")
    # current_scale: initialised in run_prepare, decremented once in run_multiscale, written nowhere else
    writers: Dict[str, List[ast.stmt]] = {}
    for name, f in machine_methods(tree).items():
        for st in walk_no_nested(f):
            if isinstance(st, (ast.Assign, ast.AugAssign)):
                for t in st.targets if isinstance(st, ast.Assign) else [st.target]:
                    if self_attr(t) == "current_scale":
                        writers.setdefault(name, []).append(st)
    ctx.ob("C01.SCALE", SM, None, f"self.current_scale written in {sorted(writers)}", set(writers) <= {"__init__", "run_prepare", "run_multiscale"} and {"run_prepare", "run_multiscale"} <= set(writers), function=f"{MACHINE}", detail="the scale counter is written outside run_prepare / run_multiscale (or no longer there)")
    rp = tree.func(SM, f"{MACHINE}.run_prepare")
    for st in writers.get("run_prepare", []):
        gs = guards_of(st, stop=rp)
        multi = any(pol and "num_scales" in src(t) for t, pol in gs)
        v = canon(st.value)
        if multi:
            ok = v in ("-1 + num_scales", "-1 + self.num_scales")
            ctx.ob("C01.SCALE", SM, st, f"run_prepare (multiscale): {src(st)}", ok, expected="num_scales - 1", detail="with this initial value the number of processed scales is not num_scales")
        else:
            ctx.ob("C01.SCALE", SM, st, f"run_prepare (single scale): {src(st)}", v == "0", expected="0")
    rm = tree.func(SM, f"{MACHINE}.run_multiscale")
    for p in normal_paths(rm):
        decs = [e for e in p.events if e[0] == "store" and self_attr(e[2]) == "current_scale"]
        ok = len(decs) == 1 and (
            (isinstance(decs[0][1], ast.Assign) and canon(decs[0][1].value) == "-1 + self.current_scale")
            or (isinstance(decs[0][1], ast.AugAssign) and isinstance(decs[0][1].op, ast.Sub) and canon(decs[0][1].value) == "1")
        )
        ctx.ob("C01.SCALE", SM, decs[0][1] if decs else rm, "run_multiscale decrements self.current_scale exactly once", ok, detail="the scale counter does not go down by one per multiscale transition")
    # num_scales attr comes from the parameter
    ns = [st for st in walk_no_nested(rp) if isinstance(st, ast.Assign) and any(self_attr(t) == "num_scales" for t in st.targets)]
    okns = bool(ns) and all(canon(st.value) in ("num_scales", "1") for st in ns)
    ctx.ob("C01.SCALE", SM, ns[0] if ns else rp, "run_prepare: self.num_scales = num_scales | 1", okns, detail="the number of scales looped over by pandora.run is not the configured one")


def run(ctx: Ctx) -> None:
    rule_tables(ctx)
    rule_machine_init(ctx)
    rule_wiring(ctx)
    rule_once(ctx)
    rule_lifecycle(ctx)
    rule_lifecycle_exc(ctx)
    rule_driver(ctx)
    rule_trigger(ctx)
    rule_errmap(ctx)
    rule_scale(ctx)
    n = rule_mirror(ctx, "C01.MIRROR")
    ctx.floor("C01.MIRROR", n, 9)
    from ..core import borrow
    from ..rules_sm import rule_gating

    # the attribute that decides whether the right products exist is derived in the check phase and must reach the run
    n = borrow(ctx, lambda c: rule_gating(c, "C08.GATING"), {"C08.GATING": "C01.GATING"})
    ctx.floor("C01.GATING", n, 10)
    from ..rules_sm import rule_step_key

    ctx.floor("C01.STEP-KEY(functions)", rule_step_key(ctx, "C01.STEP-KEY"), 40)


SPEC = PropSpec(
    pid="C01",
    title="Accepted pipelines are exactly the documented automaton and run as written",
    explanation=(
        "Static decision of C01. (1) The two literal transition tables of PandoraMachine are extracted from the syntax tree, "
        "turned into DFAs (a guarded transition is evaluated for both guard values, with the transitions-0.9 rule 'false condition = "
        "no move, no error') and compared with the documented automaton by product construction: language equality is exact for the "
        "infinite set of step sequences, and a difference is reported as the shortest distinguishing pipeline and the table row to blame. "
        "(2) Check table and run table are compared row for row. (3) Wiring: every callback resolves to a method with the (cfg, input_step) "
        "arity, instantiates the family of its own trigger from the configuration entry named by input_step, applies the step object once "
        "per side and never in a loop. (4) Lifecycle: all acyclic paths (loops taken 0/1/2 times) of check_conf, run_prepare, run_exit, "
        "remove_transitions and pandora.run are enumerated and must pass through add_transitions / remove_transitions / set_state('begin') "
        "in the right order, the second (right/left) round must be guarded, exchange the images and restore them. (5) The driver loops "
        "iterate the whole pipeline once per scale and restart exactly when the machine is back in 'begin'. (6) The string expression "
        "giving the trigger name is evaluated abstractly on the three shapes name / name.sfx / name.a.b. (7) Error mapping and the scale "
        "counter. (8) The right pass of every run callback is the mirror image of its left pass (rule shared with C08)."
    ),
    rule_text=(
        "instances are enumerated from the tree on every run: every row of both transition tables, every callback named in a row, every "
        "acyclic path of the five lifecycle functions, every self.trigger call; an instance is non-trivial when it carries at least one "
        "obligation that an edit could break; distinct = distinct (rule, file, function, normalised construct)"
    ),
    run=run,
    not_decided=["that the `transitions` library behaves as modelled (trigger from a state without matching transition raises MachineError; false condition = no move; remove_transition deletes the event)", "that every step names a registered method with valid parameters (decided under C05)"],
    trusted=["Python 3.12 statement semantics as modelled by pvs.flow (structured control flow, loops unrolled 0/1/2 times)", "transitions 0.9.3: trigger without matching transition raises MachineError; a false `conditions` callback leaves the state unchanged and skips `after`; remove_transition(trigger) deletes all transitions of that trigger", "spec/automaton.json transcribed from the property statement"],
)

_SM = SM
MUTANTS = [
    {"id": "run-exit-not-in-finally", "file": "pandora/__init__.py", "old": "    finally:\n        # Stop the machine which returns to its initial state, also when a step fails\n        pandora_machine.run_exit()\n", "new": "    except MachineError:\n        raise\n    # Stop the machine which returns to its initial state\n    pandora_machine.run_exit()\n"},
    {"id": "check-cleanup-only-on-success", "file": "pandora/state_machine.py", "old": "        finally:\n            # Remove transitions and come back to the initial state, also when a step is refused\n            self.remove_transitions(self._transitions_check)\n            self.set_state(\"begin\")\n", "new": "        except DictCheckerError:\n            raise\n        # Remove transitions and come back to the initial state\n        self.remove_transitions(self._transitions_check)\n        self.set_state(\"begin\")\n"},
    {"id": "matching-cost-callback-reads-bare-family-key", "file": "pandora/state_machine.py", "old": '            cfg[input_step]["matching_cost_method"],\n            matching_cost_.cfg["band"],\n        )\n        self.check_band_pipeline(\n            self.right_img', "new": '            cfg["matching_cost"]["matching_cost_method"],\n            matching_cost_.cfg["band"],\n        )\n        self.check_band_pipeline(\n            self.right_img'},
    {"id": "validation-looked-up-by-bare-name", "file": "pandora/state_machine.py", "old": '        for input_step in cfg["pipeline"]:\n            if input_step.split(".")[0] == "validation":\n                self.right_disp_map = cfg["pipeline"][input_step]["validation_method"]\n', "new": '        if "validation" in cfg["pipeline"]:\n            self.right_disp_map = cfg["pipeline"]["validation"]["validation_method"]\n'},
    {"id": "run-prepare-resets-right-disp-map", "file": "pandora/state_machine.py", "old": '                self.right_disp_map = cfg["pipeline"][input_step]["validation_method"]\n', "new": '                self.right_disp_map = cfg["pipeline"][input_step]["validation_method"]\n            else:\n                self.right_disp_map = None\n'},
    {"id": "check_filter-from-cost_volume", "file": _SM, "old": '"trigger": "check_filter",\n            "source": "disp_map",', "new": '"trigger": "check_filter",\n            "source": "cost_volume",'},
    {"id": "run-refinement-dest-cost_volume", "file": _SM, "old": '"trigger": "refinement",\n            "source": "disp_map",\n            "dest": "disp_map",', "new": '"trigger": "refinement",\n            "source": "disp_map",\n            "dest": "cost_volume",'},
    {"id": "drop-check_validation-row", "file": _SM, "old": '        {\n            "trigger": "check_validation",\n            "source": "disp_map",\n            "dest": "disp_map",\n            "after": "validation_check_conf",\n        },\n', "new": ""},
    {"id": "swap-after-aggregation-optimization", "edits": [(_SM, '"after": "aggregation_run",', '"after": "optimization_run__",'), (_SM, '"after": "optimization_run",', '"after": "aggregation_run",'), (_SM, '"after": "optimization_run__",', '"after": "optimization_run",')]},
    {"id": "delete-remove_transitions-check", "file": _SM, "old": "        self.remove_transitions(self._transitions_check)\n", "new": ""},
    {"id": "delete-set_state-run_exit", "file": _SM, "old": '        self.remove_transitions(self._transitions_run)\n        self.set_state("begin")', "new": "        self.remove_transitions(self._transitions_run)"},
    {"id": "split-last", "file": _SM, "old": 'step_to_trigger = input_step.split(".")[0]', "new": 'step_to_trigger = input_step.split(".")[-1]'},
    {"id": "drop-AttributeError", "file": _SM, "old": "                except (MachineError, KeyError, AttributeError):\n", "new": "                except (MachineError, KeyError):\n"},
    {"id": "remove-break", "file": "pandora/__init__.py", "old": '                if pandora_machine.state == "begin":\n                    break\n', "new": ""},
    {"id": "current_scale-eq-1", "file": _SM, "old": "if self.current_scale == 0:", "new": "if self.current_scale == 1:"},
    {"id": "skip-first-step", "file": "pandora/__init__.py", "old": 'for elem in list(cfg["pipeline"]):', "new": 'for elem in list(cfg["pipeline"])[1:]:'},
    {"id": "swallow-in-run", "file": _SM, "old": 'logging.error("A problem occurs during Pandora running %s  step. Be sure of your sequencement", input_step)\n            raise', "new": 'logging.error("A problem occurs during Pandora running %s  step. Be sure of your sequencement", input_step)'},
    {"id": "filter-cfg-by-kind", "file": _SM, "old": '            cfg=cfg["pipeline"][input_step],\n            image_shape', "new": '            cfg=cfg["pipeline"]["filter"],\n            image_shape'},
    {"id": "second-round-same-images", "file": _SM, "old": "self.check_conf(cfg, img_right, img_left, True)", "new": "self.check_conf(cfg, img_left, img_right, True)"},
    {"id": "multiscale-unconditional", "file": _SM, "old": '            "conditions": "is_not_last_scale",\n', "new": ""},
    {"id": "run-prepare-adds-twice", "file": _SM, "old": "        # Add transitions\n        self.add_transitions(self._transitions_run)", "new": "        # Add transitions\n        self.add_transitions(self._transitions_run)\n        if self.num_scales > 1:\n            self.add_transitions(self._transitions_run)"},
    {"id": "right-refinement-deleted", "file": _SM, "old": '        if self.right_disp_map == "cross_checking_accurate":\n            refinement_.subpixel_refinement(self.right_cv, self.right_disparity)\n', "new": ""},
    {"id": "check-iterates-sorted", "file": _SM, "old": 'for input_step in list(cfg["pipeline"]):', "new": 'for input_step in sorted(cfg["pipeline"]):'},
    # behaviour-preserving variants: must stay silent
    {"id": "eq-reorder-rows", "kind": "equiv", "edits": [(_SM, '        {\n            "trigger": "aggregation",\n            "source": "cost_volume",\n            "dest": "cost_volume",\n            "after": "aggregation_run",\n        },\n', ""), (_SM, '    _transitions_check = [', '    _transitions_check__ = [', 1), (_SM, '            "after": "cost_volume_confidence_run",\n        },\n    ]', '            "after": "cost_volume_confidence_run",\n        },\n        {\n            "trigger": "aggregation",\n            "source": "cost_volume",\n            "dest": "cost_volume",\n            "after": "aggregation_run",\n        },\n    ]'), (_SM, '    _transitions_check__ = [', '    _transitions_check = [')]},
    {"id": "eq-merge-trigger-branches", "kind": "equiv", "file": _SM, "old": '                    if len(input_step.split(".")) != 1:\n                        self.trigger(check_input.split(".")[0], cfg["pipeline"], input_step)\n                    else:\n                        self.trigger(check_input, cfg["pipeline"], input_step)\n', "new": '                    self.trigger(check_input.split(".")[0], cfg["pipeline"], input_step)\n'},
    {"id": "eq-iterate-dict-directly", "kind": "equiv", "file": "pandora/__init__.py", "old": 'for elem in list(cfg["pipeline"]):', "new": 'for elem in cfg["pipeline"]:'},
    {"id": "eq-swap-set_state-remove", "kind": "equiv", "file": _SM, "old": '            self.remove_transitions(self._transitions_check)\n            self.set_state("begin")\n', "new": '            self.set_state("begin")\n            self.remove_transitions(self._transitions_check)\n'},
    {"id": "eq-helper-reset", "kind": "equiv", "edits": [(_SM, '        self.remove_transitions(self._transitions_run)\n        self.set_state("begin")\n', '        self._reset_machine()\n\n    def _reset_machine(self) -> None:\n        self.remove_transitions(self._transitions_run)\n        self.set_state("begin")\n')]},
    {"id": "eq-return-bool-expr", "kind": "equiv", "file": _SM, "old": "        if self.current_scale == 0:\n            return False\n        return True\n", "new": "        return self.current_scale != 0\n"},
    {"id": "eq-log-between-passes", "kind": "equiv", "file": _SM, "old": '        refinement_.subpixel_refinement(self.left_cv, self.left_disparity)\n', "new": '        refinement_.subpixel_refinement(self.left_cv, self.left_disparity)\n        logging.info("left done")\n'},
]
