"""C07 -- cross-checking flags exactly the left-right inconsistent pixels, nothing else."""
from __future__ import annotations

import ast
from typing import List, Optional

from ..astx import calls_in, dotted, enclosing_loops, guards_of, src, stmts_of, walk_no_nested
from ..core import AnalysisError, Ctx, PropSpec
from ..defuse import Defs, strip_casts
from ..flow import paths_of
from ..rules_effects import rule_no_disp_write
from ..rules_flags import check_flag_stores, flag_constants, flag_name, flags_in
from ..rules_sm import SM, rule_mirror
from ..sym import B, boolform, canon, complementary, equivalent, poly

V = "pandora/validation/validation.py"
Q = "CrossCheckingAccurate.disparity_checking"


def _where_pred(node: ast.AST) -> Optional[ast.AST]:
    if isinstance(node, ast.Call) and (dotted(node.func) or "") in ("np.where", "numpy.where") and len(node.args) == 1:
        return node.args[0]
    return None


class _StripNanInf(ast.NodeTransformer):
    """np.nan_to_num(X, nan=np.inf) / np.where(np.isnan(X), np.inf, X) -> X (the NaN->inf conversion is decided by C07.NAN-INF)."""

    def visit_Call(self, node: ast.Call):
        self.generic_visit(node)
        name = dotted(node.func) or ""
        if name in ("np.nan_to_num", "numpy.nan_to_num") and node.args and any(k.arg == "nan" and (dotted(k.value) or "") in ("np.inf", "numpy.inf") for k in node.keywords):
            return node.args[0]
        if name in ("np.where", "numpy.where") and len(node.args) == 3 and (dotted(node.args[1]) or "") in ("np.inf", "numpy.inf") and canon(node.args[0]) == f"np.isnan({canon(node.args[2])})":
            return node.args[2]
        return node


def _strip_nan_inf(node: ast.AST) -> ast.AST:
    import copy

    return ast.fix_missing_locations(_StripNanInf().visit(copy.deepcopy(node)))


def _e(text: str) -> ast.AST:
    return ast.parse(text, mode="eval").body


def run(ctx: Ctx) -> None:
    tree = ctx.tree
    consts = flag_constants(tree)
    fn = tree.func(V, Q)
    pars = [a.arg for a in fn.args.args]
    if len(pars) < 3:
        raise AnalysisError("disparity_checking signature changed")
    L, R = pars[1], pars[2]
    defs = Defs(fn)
    loops = [s for s in stmts_of(fn) if isinstance(s, ast.For)]
    ctx.floor("C07.ROW-LOOP", len(loops), 1)
    lp = loops[0]
    row = lp.target.id if isinstance(lp.target, ast.Name) else "row"

    # --- image size from the checked dataset
    nb = [d for d in defs.all_defs("nb_col")]
    ncol = "nb_col"
    shape_defs = [st for st in stmts_of(fn) if isinstance(st, ast.Assign) and isinstance(st.targets[0], ast.Tuple) and canon(st.value) == f"{L}['disparity_map'].shape"]
    if shape_defs:
        ncol = shape_defs[0].targets[0].elts[1].id
        nrow = shape_defs[0].targets[0].elts[0].id
        ctx.ob("C07.ROW-LOOP", V, lp, f"for {row} in {src(lp.iter)}", canon(lp.iter) in (f"range(0, {nrow})", f"range({nrow})"), expected=f"range({nrow})", detail="some rows are not cross-checked")
    else:
        raise AnalysisError("disparity_checking: `nb_row, nb_col = dataset_left['disparity_map'].shape` not found")

    # --- every row goes through both the inside and the outside block: no early exit in the row loop
    exits = [n for n in walk_no_nested(lp) if isinstance(n, (ast.Break, ast.Continue, ast.Return))]
    ctx.ob("C07.ROW-LOOP", V, exits[0] if exits else lp, "row loop body has no break/continue/return", not exits, detail="a row (or its out-of-image correspondents) can be skipped: pixels whose correspondent is inconsistent or outside the right image stay unflagged")

    # --- mask stores of the loop
    stores = [s for s in walk_no_nested(lp) if isinstance(s, ast.AugAssign) and "validity_mask" in src(s.target)]
    ctx.floor("C07.BITS(stores)", len(stores), 4)
    for s in stores:
        ctx.ob("C07.ROW-LOOP", V, s, f"store `{canon(s.target)[:90]}` executes for every row (no guard inside the loop)", not guards_of(s, stop=lp), detail="a flag store is conditional: some rows are not flagged")
        t = s.target
        base_ok = canon(t.value) == f"{L}['validity_mask'].data"
        ctx.ob("C07.BITS", V, s, f"flags go to {canon(t.value)}", base_ok, expected=f"{L}['validity_mask'].data", detail="cross-checking dataset A against B must only flag A")

    # --- VALID-ONLY: the examined columns
    def find_def(name: str):
        ds = [d for d in defs.all_defs(name) if any(x is lp for x in _anc(d[0]))]
        return ds

    vp = find_def("valid_pixel")
    # locate the np.where over (mask & INVALID) == 0 whatever its name
    vp_stmt = None
    for st in walk_no_nested(lp):
        if isinstance(st, ast.Assign) and _where_pred(st.value) is not None and "validity_mask" in src(st.value):
            vp_stmt = st
            break
    if vp_stmt is None:
        ctx.ob("C07.VALID-ONLY", V, lp, "examined set = np.where((mask & INVALID) == 0)", False, detail="the selection of previously valid pixels vanished: invalid pixels are re-examined")
    else:
        want = boolform(_e(f"({L}['validity_mask'].data[{row}, :] & cst.PANDORA_MSK_PIXEL_INVALID) == 0"))
        want2 = boolform(_e(f"({L}['validity_mask'].data[{row}] & cst.PANDORA_MSK_PIXEL_INVALID) == 0"))
        got = boolform(_where_pred(vp_stmt.value))
        ok = equivalent(got, want) is None or equivalent(got, want2) is None
        ctx.ob("C07.VALID-ONLY", V, vp_stmt, src(vp_stmt)[:160], ok, expected=f"np.where(({L}['validity_mask'].data[{row}, :] & PANDORA_MSK_PIXEL_INVALID) == 0)", detail="pixels already invalid must not be re-examined, all others must")

    # --- ROUND: correspondent q = rint(p + dL(p))
    inside_stmt = outside_stmt = None
    for st in walk_no_nested(lp):
        if isinstance(st, ast.Assign) and len(st.targets) == 1 and isinstance(st.targets[0], ast.Name) and _where_pred(st.value) is not None:
            ptxt = src(st.value)
            if st is vp_stmt:
                continue
            nm = st.targets[0].id
            if "col_right" in ptxt or nm in ("inside_right", "outside_right"):
                if inside_stmt is None and st.lineno < (stores[0].lineno if stores else 10**9):
                    inside_stmt = st
                else:
                    outside_stmt = outside_stmt or st
    if inside_stmt is None or outside_stmt is None:
        raise AnalysisError("disparity_checking: inside/outside np.where selections not found")
    p_in, p_out = _where_pred(inside_stmt.value), _where_pred(outside_stmt.value)
    qnames = [n.id for n in ast.walk(p_in) if isinstance(n, ast.Name) and n.id not in (ncol,)]
    qname = qnames[0] if qnames else "col_right"
    # SPLIT
    d = complementary(boolform(p_in), boolform(p_out))
    ctx.ob("C07.SPLIT", V, outside_stmt, f"outside `{src(p_out)}` is the complement of inside `{src(p_in)}`", d is None, detail=f"a correspondent can be neither inside nor outside (or both): e.g. sign pattern {d}", expected="outside == not inside")
    d = equivalent(boolform(p_in), boolform(_e(f"({qname} >= 0) & ({qname} < {ncol})")))
    ctx.ob("C07.SPLIT", V, inside_stmt, f"inside `{src(p_in)}`", d is None, expected=f"0 <= {qname} < {ncol}", detail=f"'inside the right image' must be 0 <= q < number of columns: {d}")
    qexp = defs.expand(ast.Name(id=qname, ctx=ast.Load()), inside_stmt, depth=2, stop=("col_left",))
    okround = False
    why = f"q expands to `{canon(qexp)[:140]}`"
    # q = p + rint(dL(p)): the *disparity* is rounded, then added to the column.  Rounding the sum, rint(p + dL(p)), is
    # the same for every non-half disparity but rounds x.5 half-to-even on the absolute column, i.e. depending on parity.
    def _strip_int(n: ast.AST) -> ast.AST:
        while isinstance(n, ast.Call) and ((isinstance(n.func, ast.Attribute) and n.func.attr == "astype") or (dotted(n.func) or "") in ("int", "np.int64")):
            n = n.func.value if isinstance(n.func, ast.Attribute) and n.func.attr == "astype" else n.args[0]
        return n

    inner = _strip_int(qexp)
    if isinstance(inner, ast.BinOp) and isinstance(inner.op, ast.Add):
        for a, b in ((inner.left, inner.right), (inner.right, inner.left)):
            b = _strip_int(b)
            if isinstance(b, ast.Call) and (dotted(b.func) or "") in ("np.rint", "numpy.rint", "np.round", "np.around") and len(b.args) == 1:
                pa = canon(a)
                if canon(b.args[0]) == f"{L}['disparity_map'].data[({row}, {pa})]":
                    okround = True
    elif isinstance(inner, ast.Call) and (dotted(inner.func) or "") in ("np.rint", "numpy.rint", "np.round", "np.around"):
        why += " -- the sum column + disparity is rounded (half-to-even on the absolute column: parity-dependent for half-pixel disparities)"
    ctx.ob("C07.ROUND", V, inside_stmt, f"correspondent {qname} = {canon(qexp)[:120]}", okround, expected=f"p + np.rint({L}['disparity_map'].data[{row}, p])", detail="the correspondent column must be p + round(dL(p)): the disparity of the checked dataset rounded to the nearest integer (np.rint), then added to the column" + ("" if okround else "; " + why))

    # --- THRESHOLD and the confidence band
    inv_defs = [d for d in defs.all_defs("invalid")]
    thr_stmt = None
    for st in walk_no_nested(lp):
        if isinstance(st, ast.Assign) and isinstance(st.value, ast.Compare) and "_threshold" in src(st.value):
            thr_stmt = st
    if thr_stmt is None:
        ctx.ob("C07.THRESHOLD", V, lp, "invalid = |dR + dL| > threshold", False, detail="the threshold comparison vanished")
    else:
        ex = _strip_nan_inf(defs.expand(thr_stmt.value, thr_stmt, depth=4, stop=("col_left", qname, inside_stmt.targets[0].id)))
        insel = inside_stmt.targets[0].id
        lhs = f"abs({R}['disparity_map'].data[({row}, {qname}[{insel}])] + {L}['disparity_map'].data[({row}, col_left[{insel}])])"
        want = boolform(_e(f"abs({R}['disparity_map'].data[{row}, {qname}[{insel}]] + {L}['disparity_map'].data[{row}, col_left[{insel}]]) > self._threshold"))
        d = equivalent(boolform(ex), want)
        ctx.ob("C07.THRESHOLD", V, thr_stmt, f"{src(thr_stmt)[:120]}", d is None, expected=f"abs(dR[{row}, q] + dL[{row}, p]) > self._threshold (strict)", detail=f"a pixel is inconsistent iff |dL(p) + dR(q)| > threshold; found `{canon(ex)[:160]}`")
    # --- NAN-INF: a NaN disparity on either side must count as inconsistent (|NaN| > t is False, |inf| > t is True)
    if thr_stmt is not None:
        operands = []
        cmp_left = thr_stmt.value.left
        if isinstance(cmp_left, ast.Call) and (dotted(cmp_left.func) or "") in ("np.abs", "abs", "numpy.abs") and cmp_left.args and isinstance(cmp_left.args[0], ast.BinOp) and isinstance(cmp_left.args[0].op, ast.Add):
            operands = [x for x in (cmp_left.args[0].left, cmp_left.args[0].right) if isinstance(x, ast.Name)]
        if len(operands) != 2:
            raise AnalysisError("disparity_checking: |a + b| of the threshold test is not a sum of two named arrays")
        nconv = 0
        for op in operands:
            x = op.id
            conv = []
            for st in walk_no_nested(lp):
                if not isinstance(st, ast.Assign) or st.lineno > thr_stmt.lineno:
                    continue
                t = st.targets[0]
                if isinstance(t, ast.Subscript) and canon(t.value) == x and canon(t.slice) == f"np.isnan({x})" and (dotted(st.value) or "") in ("np.inf", "numpy.inf"):
                    conv.append(st)
                elif isinstance(t, ast.Name) and t.id == x and canon(st.value) in (f"np.nan_to_num({x}, nan=np.inf)", f"np.where(np.isnan({x}), np.inf, {x})"):
                    conv.append(st)
            nconv += len(conv)
            ctx.ob("C07.NAN-INF", V, conv[0] if conv else thr_stmt, f"`{x}`: NaN converted to inf before the threshold test ({src(conv[0])[:70] if conv else 'missing'})", len(conv) >= 1, expected=f"{x}[np.isnan({x})] = np.inf", detail="a correspondent (or a pixel) holding a NaN disparity must be flagged: abs(NaN) > threshold is False, so without the conversion the pixel stays valid with a NaN distance in the confidence band")
        ctx.floor("C07.NAN-INF", len(operands), 2)
    init = tree.func(V, "CrossCheckingAccurate.__init__")
    th = [st for st in walk_no_nested(init) if isinstance(st, ast.Assign) and canon(st.targets[0]) == "self._threshold"]
    ctx.ob("C07.THRESHOLD", V, th[0] if th else init, f"self._threshold = {canon(th[0].value) if th else '?'}", bool(th) and canon(th[0].value) == "self.cfg['cross_checking_threshold']", expected="self.cfg['cross_checking_threshold']")

    # conf_measure[row, p] = |dR + dL|
    cm = [st for st in walk_no_nested(lp) if isinstance(st, ast.Assign) and isinstance(st.targets[0], ast.Subscript) and canon(st.targets[0].value) == "conf_measure"]
    okc = False
    if cm and thr_stmt is not None:
        okc = canon(_strip_nan_inf(defs.expand(cm[0].value, cm[0], depth=4, stop=("col_left", qname, inside_stmt.targets[0].id)))) == canon(_strip_nan_inf(defs.expand(thr_stmt.value.left, thr_stmt, depth=4, stop=("col_left", qname, inside_stmt.targets[0].id)))) and canon(cm[0].targets[0].slice) == f"({row}, col_left[{inside_stmt.targets[0].id}])"
    ctx.ob("C07.BAND", V, cm[0] if cm else lp, f"{src(cm[0])[:130] if cm else 'conf_measure store'}", okc, detail="the confidence band must hold |dL(p)+dR(q)| at the pixel p that was checked", expected=f"conf_measure[{row}, col_left[inside]] = abs(right_disp + left_disp)")
    ac = [c for c in calls_in(fn) if (dotted(c.func) or "").endswith("allocate_confidence_map")]
    okb = len(ac) == 1 and isinstance(ac[0].args[0], ast.Constant) and ac[0].args[0].value == "left_right_consistency" and [canon(a) for a in ac[0].args[1:3]] == ["conf_measure", L] and not enclosing_loops(ac[0])
    ctx.ob("C07.BAND", V, ac[0] if ac else fn, src(ac[0])[:140] if ac else "allocate_confidence_map(...)", okb, expected=f"allocate_confidence_map('left_right_consistency', conf_measure, {L}, cv)", detail="the band must be named confidence_from_left_right_consistency and attached to the checked dataset")
    alloc = tree.func("pandora/cost_volume_confidence/cost_volume_confidence.py", "AbstractCostVolumeConfidence.allocate_confidence_map")
    pref = [st for st in walk_no_nested(alloc) if isinstance(st, ast.Assign) and "confidence_from_" in src(st.value)]
    ctx.ob("C07.BAND", "pandora/cost_volume_confidence/cost_volume_confidence.py", pref[0] if pref else alloc, src(pref[0])[:100] if pref else "prefix", bool(pref) and canon(pref[0].value) == "'confidence_from_' + name_confidence_measure", expected="name = 'confidence_from_' + name")

    # --- mismatch search
    comp_defs = [d for d in defs.all_defs("comp")]
    ok_search = ok_clamp = ok_bounds = False
    detail = ""
    if comp_defs:
        first = comp_defs[0][1]
        if isinstance(first, ast.Compare) and isinstance(first.ops[0], ast.Eq):
            l, r = first.left, first.comparators[0]
            l0 = l
            if isinstance(l0, ast.Call) and (dotted(l0.func) or "") in ("np.rint", "numpy.rint") and canon(l0.args[0]) == "disp_right":
                r0 = strip_casts(r)
                if isinstance(r0, ast.Call) and (dotted(r0.func) or "") == "np.tile" and poly(r0.args[0]).text() == "-disparity_range":
                    ok_search = True
            detail = f"`{src(first)[:140]}`"
        texts = [canon(d[1]) for d in comp_defs[1:]]
        ok_sum = any(t in ("np.sum(comp, axis=1)", "np.any(comp, axis=1)", "comp.any(axis=1)", "comp.sum(axis=1)") for t in texts)
        clamp = [st for st in walk_no_nested(lp) if isinstance(st, ast.Assign) and canon(st.targets[0]) in ("comp[{!([-1 + comp]<=0)}]",) and isinstance(st.value, ast.Constant) and st.value.value == 1]
        ok_clamp = ok_sum and (bool(clamp) or any("any(" in t for t in texts))
    ctx.ob("C07.SEARCH", V, comp_defs[0][0] if comp_defs else lp, f"mismatch iff some d: {detail}", ok_search, expected="np.rint(disp_right) == np.tile(-1 * disparity_range, ...)", detail="a pixel is a mismatch when round(dR(p+d)) == -d for some d of the interval")
    ctx.ob("C07.SEARCH", V, comp_defs[-1][0] if comp_defs else lp, "comp reduced over the disparity axis and clamped to {0,1}", ok_clamp, detail="several matching disparities must count once: the flag arithmetic multiplies the flags by comp", expected="comp = np.sum(comp, axis=1); comp[comp > 1] = 1")
    # nothing else may narrow the candidate set between the comparison and the reduction (e.g. `comp &= index != own_correspondent`)
    if comp_defs:
        allowed = {id(comp_defs[0][0])} | {id(d[0]) for d in comp_defs[1:] if canon(d[1]) in ("np.sum(comp, axis=1)", "np.any(comp, axis=1)", "comp.any(axis=1)", "comp.sum(axis=1)")} | {id(st) for st in clamp}
        writes = []
        for st in walk_no_nested(lp):
            tg = st.targets[0] if isinstance(st, ast.Assign) else (st.target if isinstance(st, (ast.AugAssign, ast.AnnAssign)) else None)
            base = tg
            while isinstance(base, ast.Subscript):
                base = base.value
            if isinstance(base, ast.Name) and base.id == "comp" and id(st) not in allowed:
                if isinstance(st, ast.Assign) and isinstance(tg, ast.Name) and canon(strip_casts(st.value)) == "comp":
                    continue  # a pure cast
                writes.append(st)
        ctx.ob("C07.SEARCH", V, writes[0] if writes else comp_defs[0][0], f"the candidate matrix is written only by the comparison, the reduction and the clamp{': `' + src(writes[0])[:120] + '`' if writes else ''}", not writes, expected="no other store into comp", detail="every d of the interval is a candidate of the mismatch search, the pixel's own rejected correspondent included (with a threshold below 1 its rounded value can still match): masking candidates out turns mismatches into occlusions")
    # index = d + p, bounds 0 <= index < nb_col, read from the other dataset at the same row
    idx_defs = defs.all_defs("index")
    if idx_defs:
        ip = poly(idx_defs[0][1])
        txt = canon(idx_defs[0][1])
        ok_idx = "np.tile(disparity_range" in txt and "np.tile(col_left[" in txt and len(ip.terms) == 2 and all(c == 1 for c in ip.terms.values())
        ctx.ob("C07.SEARCH", V, idx_defs[0][0], f"index = {txt[:140]}", ok_idx, expected="tile(disparity_range) + tile(p).T", detail="candidate columns must be p + d for every d of the interval")
    bd = [st for st in walk_no_nested(lp) if isinstance(st, ast.Assign) and len(st.targets) == 1 and isinstance(st.targets[0], ast.Name) and _where_pred(st.value) is not None and "index" in src(st.value)]
    if bd:
        d = equivalent(boolform(_where_pred(bd[0].value)), boolform(_e(f"(index >= 0) & (index < {ncol})")))
        ctx.ob("C07.SEARCH", V, bd[0], src(bd[0])[:120], d is None, expected=f"0 <= index < {ncol}", detail=f"every in-image candidate column must be examined: {d}")
    rd = [st for st in walk_no_nested(lp) if isinstance(st, ast.Assign) and isinstance(st.targets[0], ast.Subscript) and canon(st.targets[0].value) == "disp_right"]
    if rd and bd:
        sel = bd[0].targets[0].id
        okr = canon(defs.expand(rd[0].value, rd[0], depth=3, stop=("index", sel))) == f"{R}['disparity_map'].data[({row}, index[{sel}].astype(int))]" and canon(rd[0].targets[0].slice) == sel
        ctx.ob("C07.SEARCH", V, rd[0], src(rd[0])[:150], okr, expected=f"disp_right[{sel}] = {R}['disparity_map'].data[{row}, index[{sel}].astype(int)]", detail="candidates are read from the other map, same row")
    dr = [c for c in calls_in(fn) if (dotted(c.func) or "").endswith("extract_disparity_range_from_disparity_map")]
    ctx.ob("C07.SEARCH", V, dr[0] if dr else fn, src(dr[0]) if dr else "disparity_range", len(dr) == 1 and [canon(a) for a in dr[0].args] == [L], expected=f"extract_disparity_range_from_disparity_map({L})", detail="the searched interval is the checked dataset's own disparity_interval")
    DSP = "pandora/disparity/disparity.py"
    ex = tree.func(DSP, "extract_disparity_range_from_disparity_map")
    if ex is not None:
        rets = [n for n in walk_no_nested(ex) if isinstance(n, ast.Return)]
        d2 = Defs(ex)
        txt = canon(d2.expand(rets[0].value, rets[0], depth=3)) if rets else ""
        ctx.ob("C07.SEARCH", DSP, rets[0] if rets else ex, f"extract_disparity_range_from_disparity_map -> {txt[:150]}", "np.arange(" in txt and "disparity_interval" in txt and "+ 1" in src(ex) or "1 + " in txt, expected="np.arange(d_min, d_max + 1) from dataset['disparity_interval']")

    # --- BITS: flag arithmetic of this function (shared rule), outside -> OCCLUSION
    n = check_flag_stores(ctx, "C07.BITS", [V], only_functions={Q})
    ctx.floor("C07.BITS", n, 4)
    for s in stores:
        idx = canon(s.target.slice)
        if outside_stmt.targets[0].id in idx:
            ctx.ob("C07.BITS", V, s, f"outside pixels: {src(s)[:130]}", isinstance(s.op, ast.Add) and flags_in(s.value, consts) == ["PANDORA_MSK_PIXEL_OCCLUSION"] and idx == f"({row}, col_left[{outside_stmt.targets[0].id}])", expected="+= PANDORA_MSK_PIXEL_OCCLUSION at [row, col_left[outside]]", detail="a pixel whose correspondent is outside the right image is an occlusion")
    # the statement sends *every* failed pixel through the mismatch search, also when its correspondent is outside
    out_name = outside_stmt.targets[0].id
    direct = [s for s in stores if out_name in canon(s.target.slice) and flags_in(s.value, consts) == ["PANDORA_MSK_PIXEL_OCCLUSION"] and "comp" not in src(s.value)]
    ctx.ob("C07.SEARCH-DOMAIN", V, direct[0] if direct else outside_stmt, "pixels whose correspondent is outside the other image go through the mismatch search", not direct, expected="bit 9 when some d of the interval has round(dR(p+d)) == -d, bit 8 otherwise -- for outside correspondents too", detail=f"`{src(direct[0])[:100] if direct else ''}` declares them occlusions at once: a pixel with an outside correspondent for which a matching d exists is flagged 256 where the rule gives 512 (the mismatch search only runs on the inside-and-inconsistent pixels)")
    in_stores = [s for s in stores if outside_stmt.targets[0].id not in canon(s.target.slice)]
    want_idx = f"({row}, col_left[{inside_stmt.targets[0].id}][invalid])"
    for s in in_stores:
        ctx.ob("C07.BITS", V, s, f"inside pixels flagged at {canon(s.target.slice)}", canon(s.target.slice) == want_idx, expected=want_idx, detail="flags must go to the checked pixels p found inconsistent")

    # --- effects, border, order
    rule_no_disp_write(ctx, "C07.NO-DISP-WRITE")
    mb = [c for c in calls_in(fn) if (dotted(c.func) or "").split(".")[-1] == "mask_border"]
    okm = len(mb) == 1 and [canon(a) for a in mb[0].args] == [L] and mb[0].lineno > lp.end_lineno
    gs = guards_of(mb[0], stop=fn) if mb else []
    okg = len(gs) == 1 and gs[0][1] and canon(gs[0][0]) == "{!([" + f"{L}.attrs['offset_row_col']" + "]<=0)}"
    ctx.ob("C07.BORDER", V, mb[0] if mb else fn, f"if {src(gs[0][0]) if gs else '?'}: ... mask_border({L})", okm and okg, detail="border pixels must end with bit 0 only: mask_border of the checked dataset, after the row loop, when the window offset is positive")
    rets = [n for n in walk_no_nested(fn) if isinstance(n, ast.Return)]
    ctx.ob("C07.BORDER", V, rets[-1] if rets else fn, f"returns {canon(rets[-1].value) if rets else '?'}", bool(rets) and all(canon(r.value) == L for r in rets), expected=L)
    k = rule_mirror(ctx, "C07.ORDER", only=["validation_run"])
    ctx.floor("C07.ORDER", k, 1)


def _anc(node):
    cur = getattr(node, "_parent", None)
    while cur is not None:
        yield cur
        cur = getattr(cur, "_parent", None)


SPEC = PropSpec(
    pid="C07",
    title="Cross-checking flags exactly the left-right inconsistent pixels, nothing else",
    explanation=(
        "Static decision of the structure of CrossCheckingAccurate.disparity_checking: (i) the examined set is np.where((mask & INVALID) == 0) of the checked "
        "dataset (boolean equivalence); (ii) the correspondent is np.rint(p + dL(p)) with p the same expression in both places (canonical polynomial of the "
        "reaching definitions); (iii) the inside predicate is 0 <= q < nb_col and the outside predicate is its exact complement (finite sign table); "
        "(iv) inconsistency is |dR(q) + dL(p)| > self._threshold, strict, threshold from the configuration, and the same value is stored in the confidence band "
        "confidence_from_left_right_consistency at p; (v) the mismatch search compares np.rint(dR(p+d)) with -d over the dataset's own interval, over all in-image "
        "candidates, reduced and clamped to {0,1}; (vi) the flag arithmetic is evaluated linearly: valid-only cells, comp=0 -> occlusion, comp=1 -> mismatch, "
        "never both; outside -> occlusion; (vii) no early exit or guard in the row loop; (viii) effect summary: no in-place write to either disparity map nor to "
        "the other dataset; (ix) mask_border last under offset > 0; (x) validation_run checks left vs right, then right vs the already checked left, then fills (mirror rule)."
    ),
    rule_text="instances: the selections, definitions, stores and calls of disparity_checking enumerated from its syntax tree and reaching definitions; the effect summary of the function; the validation_run callback",
    run=run,
    not_decided=["(known finding K3) outside correspondents are declared occlusions without the mismatch search", "numerical equality of |dL+dR| values between runs; behaviour of np.rint on exact halves (round-half-even is numpy's documented behaviour)"],
    trusted=["numpy: advanced-index loads are copies, np.where on a boolean array gives the true positions", "C04 proofs P2/P4 for the additive flag stores"],
)

MUTANTS = [
    {"id": "own-correspondent-excluded", "file": V, "old": "            comp = np.sum(comp, axis=1)\n", "new": "            comp &= index != col_right[inside_right][invalid][:, np.newaxis]\n            comp = np.sum(comp, axis=1)\n"},
    {"id": "eq-comp-cast", "kind": "equiv", "file": V, "old": "            comp = np.sum(comp, axis=1)\n", "new": "            comp = comp.astype(np.int64)\n            comp = np.sum(comp, axis=1)\n"},
    {"id": "nan-to-inf-result-discarded", "file": V, "old": "            right_disp[np.isnan(right_disp)] = np.inf\n", "new": "            np.nan_to_num(right_disp, nan=np.inf)\n"},
    {"id": "eq-nan-to-inf-by-nan_to_num-assigned", "kind": "equiv", "file": V, "old": "            left_disp[np.isnan(left_disp)] = np.inf\n", "new": "            left_disp = np.nan_to_num(left_disp, nan=np.inf)\n"},
    {"id": "outside-and", "file": V, "old": "outside_right = np.where((col_right < 0) | (col_right >= nb_col))", "new": "outside_right = np.where((col_right < 0) & (col_right >= nb_col))"},
    {"id": "threshold-ge", "file": V, "old": "invalid = np.abs(right_disp + left_disp) > self._threshold", "new": "invalid = np.abs(right_disp + left_disp) >= self._threshold"},
    {"id": "rint-to-floor", "file": V, "old": 'col_right = col_left + np.rint(dataset_left["disparity_map"].data[row, col_left]).astype(int)', "new": 'col_right = col_left + np.floor(dataset_left["disparity_map"].data[row, col_left]).astype(int)'},
    {"id": "rounding-the-sum-column-plus-disparity", "file": V, "old": 'col_right = col_left + np.rint(dataset_left["disparity_map"].data[row, col_left]).astype(int)', "new": 'col_right = np.rint(col_left + dataset_left["disparity_map"].data[row, col_left]).astype(int)'},
    {"id": "eq-round-then-add-in-two-statements", "kind": "equiv", "file": V, "old": '            col_right = col_left + np.rint(dataset_left["disparity_map"].data[row, col_left]).astype(int)\n', "new": '            rounded = np.rint(dataset_left["disparity_map"].data[row, col_left]).astype(int)\n            col_right = col_left + rounded\n'},
    {"id": "swap-occ-mis", "edits": [(V, "cst.PANDORA_MSK_PIXEL_MISMATCH * comp", "cst.PANDORA_MSK_PIXEL_OCCLUSION__ * comp"), (V, "                cst.PANDORA_MSK_PIXEL_OCCLUSION * comp", "                cst.PANDORA_MSK_PIXEL_MISMATCH * comp"), (V, "cst.PANDORA_MSK_PIXEL_OCCLUSION__ * comp", "cst.PANDORA_MSK_PIXEL_OCCLUSION * comp")]},
    {"id": "drop-clamp", "file": V, "old": "            comp[comp > 1] = 1\n", "new": ""},
    {"id": "write-left-disp-through-view", "file": V, "old": 'left_disp = dataset_left["disparity_map"].data[row, col_left[inside_right]]', "new": 'left_disp = dataset_left["disparity_map"].data[row, :]'},
    {"id": "rename-band", "file": V, "old": '"left_right_consistency", conf_measure', "new": '"left_right_consistancy", conf_measure'},
    {"id": "order-swap-in-validation_run", "edits": [(SM, "        self.left_disparity = validation_.disparity_checking(self.left_disparity, self.right_disparity)\n        if self.right_disp_map", "        left_checked = validation_.disparity_checking(self.left_disparity.copy(deep=True), self.right_disparity)\n        if self.right_disp_map"), (SM, "            self.right_disparity = validation_.disparity_checking(self.right_disparity, self.left_disparity)\n", "            self.right_disparity = validation_.disparity_checking(self.right_disparity, self.left_disparity)\n            self.left_disparity = left_checked\n")]},
    {"id": "search-last-column-skipped", "file": V, "old": "inside_col_disp = np.where((index >= 0) & (index < nb_col))", "new": "inside_col_disp = np.where((index >= 0) & (index < nb_col - 1))"},
    {"id": "early-continue", "file": V, "old": "            invalid = np.abs(right_disp + left_disp) > self._threshold\n", "new": "            invalid = np.abs(right_disp + left_disp) > self._threshold\n            if not invalid.any():\n                continue\n"},
    {"id": "correspondent-uses-right-map", "file": V, "old": 'col_right = col_left + np.rint(dataset_left["disparity_map"].data[row, col_left]).astype(int)', "new": 'col_right = col_left + np.rint(dataset_right["disparity_map"].data[row, col_left]).astype(int)'},
    {"id": "flags-on-other-dataset", "file": V, "old": 'dataset_left["validity_mask"].data[row, col_left[outside_right]] += cst.PANDORA_MSK_PIXEL_OCCLUSION', "new": 'dataset_right["validity_mask"].data[row, col_left[outside_right]] += cst.PANDORA_MSK_PIXEL_OCCLUSION'},
    {"id": "search-compares-plus-d", "file": V, "old": "-1 * disparity_range, (len(col_left[inside_right][invalid]), 1)", "new": "disparity_range, (len(col_left[inside_right][invalid]), 1)"},
    {"id": "no-mask-border", "file": V, "old": '        if dataset_left.attrs["offset_row_col"] > 0:\n            dataset_left["validity_mask"] = mask_border(dataset_left)\n\n        return dataset_left', "new": '        return dataset_left'},
    {"id": "eq-np-abs-vs-abs", "kind": "equiv", "file": V, "old": "invalid = np.abs(right_disp + left_disp) > self._threshold", "new": "invalid = abs(left_disp + right_disp) > self._threshold"},
    {"id": "eq-inside-chained", "kind": "equiv", "file": V, "old": "inside_right = np.where((col_right >= 0) & (col_right < nb_col))", "new": "inside_right = np.where((nb_col > col_right) & (0 <= col_right))"},
    {"id": "eq-row-view-first", "kind": "equiv", "edits": [(V, 'right_disp = dataset_right["disparity_map"].data[row, col_right[inside_right]]', 'right_row = dataset_right["disparity_map"].data[row, :]\n            right_disp = right_row[col_right[inside_right]]'), (V, 'disp_right[inside_col_disp] = dataset_right["disparity_map"].data[row, index[inside_col_disp].astype(int)]', 'disp_right[inside_col_disp] = right_row[index[inside_col_disp].astype(int)]')]},
    {"id": "eq-outside-not-inside", "kind": "equiv", "file": V, "old": "outside_right = np.where((col_right < 0) | (col_right >= nb_col))", "new": "outside_right = np.where(~((col_right >= 0) & (col_right < nb_col)))"},
]
