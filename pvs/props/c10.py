"""C10 -- filters change only valid pixels, to an average of their valid neighbours."""
from __future__ import annotations

import ast
from typing import List, Optional

from ..astx import calls_in, dotted, guards_of, src, stmts_of, walk_no_nested
from ..core import AnalysisError, Ctx, PropSpec
from ..defuse import Defs
from ..effects import program
from ..rules_blocks import check_block_nest
from ..rules_effects import check_function_effects
from ..rules_flags import check_flag_stores, flag_constants, flag_name
from ..rules_strided import check_as_strided
from ..sym import boolform, canon, equivalent, poly

MED = "pandora/filter/median.py"
BIL = "pandora/filter/bilateral.py"
MFI = "pandora/filter/median_for_intervals.py"
COM = "pandora/common.py"


def _where_pred(node: ast.AST):
    if isinstance(node, ast.Call) and (dotted(node.func) or "") in ("np.where", "numpy.where") and len(node.args) == 1:
        return node.args[0]
    return node if isinstance(node, (ast.Compare, ast.BoolOp, ast.BinOp, ast.UnaryOp)) else None


def _ex(t: str) -> ast.AST:
    return ast.parse(t, mode="eval").body


def rule_masked_write(ctx: Ctx, rel: str, cls: str, kernel: str) -> None:
    tree = ctx.tree
    fn = tree.func(rel, f"{cls}.filter_disparity")
    dp = fn.args.args[1].arg
    defs = Defs(fn)
    body = stmts_of(fn)
    # masked copy
    md = [st for st in body if isinstance(st, ast.Assign) and isinstance(st.targets[0], ast.Name) and f"{dp}['disparity_map']" in canon(st.value)]
    if not md:
        raise AnalysisError(f"{cls}.filter_disparity: working copy of the disparity map not found")
    m = md[0].targets[0].id
    okcopy = canon(md[0].value) in (f"{dp}['disparity_map'].copy(deep=True).data", f"{dp}['disparity_map'].data.copy()", f"np.copy({dp}['disparity_map'].data)", f"copy.deepcopy({dp}['disparity_map'].data)")
    ctx.ob("C10.MASKED-WRITE", rel, md[0], f"{cls}: {src(md[0])[:110]}", okcopy, expected=f"{m} = deep copy of {dp}['disparity_map'].data", detail="the filter must work on a copy: masking invalid pixels with NaN in place would change their disparity")
    nan = [st for st in body if isinstance(st, ast.Assign) and isinstance(st.targets[0], ast.Subscript) and canon(st.targets[0].value) == m and (dotted(st.value) or "") in ("np.nan", "numpy.nan")]
    oknan = False
    if nan:
        idx = nan[0].targets[0].slice
        pred = idx.args[0] if isinstance(idx, ast.Call) and (dotted(idx.func) or "") in ("np.where", "numpy.where") and len(idx.args) == 1 else idx
        want = boolform(ast.parse(f"({dp}['validity_mask'].data & cst.PANDORA_MSK_PIXEL_INVALID) != 0", mode="eval").body)
        oknan = equivalent(boolform(pred), want) is None
    ctx.ob("C10.MASKED-WRITE", rel, nan[0] if nan else fn, f"{cls}: {src(nan[0])[:130] if nan else 'NaN masking'}", oknan, expected=f"{m}[({dp}['validity_mask'].data & PANDORA_MSK_PIXEL_INVALID) != 0] = np.nan", detail="invalid pixels must be excluded from every window (NaN) exactly when they carry an 'invalid' flag")
    vd = [st for st in body if isinstance(st, ast.Assign) and isinstance(st.targets[0], ast.Name) and canon(st.value) in (f"np.isfinite({m})", f"{{!(np.isnan({m}))}}", f"~np.isnan({m})")]
    okv = bool(vd) and bool(nan) and vd[0].lineno > nan[0].lineno
    ctx.ob("C10.MASKED-WRITE", rel, vd[0] if vd else fn, f"{cls}: {src(vd[0]) if vd else 'valid = isfinite(masked)'} after the masking", okv, expected=f"valid = np.isfinite({m}) computed after the NaN masking", detail="the set of pixels that may be rewritten must exclude the invalid ones")
    if vd:
        vname = vd[0].targets[0].id
        kc = [st for st in body if isinstance(st, ast.Assign) and isinstance(st.value, ast.Call) and isinstance(st.value.func, ast.Attribute) and st.value.func.attr == kernel]
        okk = bool(kc) and canon(kc[0].value.args[0]) == m and kc[0].lineno > nan[0].lineno if nan else False
        ctx.ob("C10.MASKED-WRITE", rel, kc[0] if kc else fn, f"{cls}: {src(kc[0])[:110] if kc else kernel}", okk, expected=f"self.{kernel}({m}, ...) on the masked copy")
        outn = kc[0].targets[0].id if kc and isinstance(kc[0].targets[0], ast.Name) else "?"
        stores = [st for st in walk_no_nested(fn) if isinstance(st, (ast.Assign, ast.AugAssign)) and any(f"{dp}['disparity_map']" in canon(t) for t in (st.targets if isinstance(st, ast.Assign) else [st.target]))]
        oks = len(stores) == 1 and isinstance(stores[0], ast.Assign) and canon(stores[0].targets[0]) == f"{dp}['disparity_map'].data[{vname}]" and canon(stores[0].value) == f"{outn}[{vname}]" and not guards_of(stores[0], stop=fn)
        ctx.ob("C10.MASKED-WRITE", rel, stores[0] if stores else fn, f"{cls}: {src(stores[0])[:110] if stores else 'store'}", oks, expected=f"{dp}['disparity_map'].data[{vname}] = {outn}[{vname}]  (the only store to the disparity map)", detail="only valid pixels may receive the filtered value; an unmasked store changes the disparity of invalid pixels")


def rule_kernel(ctx: Ctx, rel: str, qual: str, size_expr: str, start: str) -> None:
    """Kernel: fresh output copy, windows of the right size, NaN restored at invalid positions, returns the output."""
    tree = ctx.tree
    fn = tree.func(rel, qual)
    defs = Defs(fn)
    data = fn.args.args[1].arg
    body = stmts_of(fn)
    out = [st for st in body if isinstance(st, ast.Assign) and isinstance(st.targets[0], ast.Name) and canon(st.value) in (f"np.copy({data})", f"{data}.copy()", f"np.array({data})", f"np.array({data}, copy=True)")]
    ctx.ob("C10.KERNEL", rel, out[0] if out else fn, f"{qual}: output = {canon(out[0].value) if out else '?'}", bool(out), expected=f"np.copy({data})", detail="the output must be a fresh copy of the input: the strided windows read the input while the blocks are written (an aliasing output makes later blocks read already filtered values, and writes the caller's array)")
    s = program(tree).summary(rel, qual)
    bad = [w for w in s.writes if w.root == data]
    ctx.ob("C10.KERNEL", rel, fn, f"{qual}: no in-place effect on `{data}`", not bad, detail=f"`{bad[0].text}` writes the input" if bad else "")
    if not out:
        return
    o = out[0].targets[0].id
    inv = [st for st in body if isinstance(st, ast.Assign) and isinstance(st.targets[0], ast.Name) and canon(st.value) in (f"np.isnan({o})", f"np.isnan({data})")]
    rest = [st for st in body if isinstance(st, ast.Assign) and isinstance(st.targets[0], ast.Subscript) and canon(st.targets[0].value) == o and (dotted(st.value) or "") in ("np.nan", "numpy.nan")]
    okr = bool(inv) and bool(rest) and canon(rest[0].targets[0].slice) == inv[0].targets[0].id
    ctx.ob("C10.KERNEL", rel, rest[0] if rest else fn, f"{qual}: {src(rest[0]) if rest else 'NaN restore'}", okr, expected=f"{o}[isnan(input)] = np.nan after the block loops", detail="positions that were NaN (invalid pixels) must stay NaN in the kernel's output")
    rets = [n for n in walk_no_nested(fn) if isinstance(n, ast.Return)]
    ctx.ob("C10.KERNEL", rel, rets[0] if rets else fn, f"{qual}: returns {canon(rets[0].value) if rets else '?'}", bool(rets) and all(canon(r.value) == o for r in rets), expected=o)
    # windows: sliding_window(data, (w, w)) ; start cursor = int(w / 2)
    sw = [c for c in calls_in(fn) if (dotted(c.func) or "").split(".")[-1] == "sliding_window"]
    okw = len(sw) == 1 and canon(sw[0].args[0]) == data and isinstance(sw[0].args[1], ast.Tuple) and len(sw[0].args[1].elts) == 2 and canon(sw[0].args[1].elts[0]) == canon(sw[0].args[1].elts[1]) == size_expr
    ctx.ob("C10.KERNEL", rel, sw[0] if sw else fn, f"{qual}: {src(sw[0]) if sw else 'sliding_window'}", okw, expected=f"sliding_window({data}, ({size_expr}, {size_expr}))", detail="windows must be square, of the configured size, over the input array")
    sd = defs.all_defs(start)
    oks = len(sd) == 1 and canon(sd[0][1]) in (f"int(1/2*{size_expr})", f"(({size_expr}) // (2))", f"int(-1/2 + 1/2*{size_expr})")
    ctx.ob("C10.KERNEL", rel, sd[0][0] if sd else fn, f"{qual}: {start} = {canon(sd[0][1]) if sd else '?'}", oks, expected=f"int({size_expr} / 2)", detail="the first filtered pixel is the centre of the first window: pixels closer to the edge than the radius stay untouched, and every window must be written at its own centre")


def _parity(node: ast.AST, defs: Defs, at: ast.AST, tree, rel: str, cls: Optional[str]) -> str:
    """'odd' | 'even' | 'unknown' for a window-size expression."""
    txt = canon(node)
    if isinstance(node, ast.Constant) and isinstance(node.value, int):
        return "odd" if node.value % 2 else "even"
    if isinstance(node, ast.Name):
        r = defs.reaching(node.id, at)
        if r is not None and r[2] is None:
            return _parity(r[1], defs, r[0], tree, rel, cls)
        return "unknown"
    if txt in ("self._filter_size",) and cls:
        # schema-validated: cfg['filter_size'] passes `input % 2 != 0` (C05.DOMAIN decides the lambda)
        return "odd"
    if txt.endswith(".attrs['window_size']"):
        return "odd"  # matching-cost window_size, schema-validated odd (C05.DOMAIN)
    return "unknown"


def rule_odd_window(ctx: Ctx, rid: str = "C10.ODD-WINDOW") -> int:
    tree = ctx.tree
    n = 0
    for rel in tree.py_files("pandora"):
        for q, fn in sorted(tree.funcs(rel).items()):
            for c in calls_in(fn):
                if (dotted(c.func) or "").split(".")[-1] != "sliding_window" or len(c.args) < 2 or not isinstance(c.args[1], ast.Tuple):
                    continue
                defs = Defs(fn)
                cls = q.rpartition(".")[0] or None
                for e in c.args[1].elts[:1]:
                    n += 1
                    par = _parity(e, defs, c, tree, rel, cls)
                    ex = canon(defs.expand(e, c, depth=3))
                    ctx.ob(rid, rel, c, f"{q}: window size `{ex}` is odd", par == "odd", detail=f"the window size `{ex}` has {par} parity: with an even size the 'centre' int(w/2) is off-centre, pixels near the bottom/right edge are treated unlike those near the top/left edge and the filter does not commute with a flip", expected="a provably odd window size (schema-validated odd, or an odd literal)")
    return n


def run(ctx: Ctx) -> None:
    tree = ctx.tree
    for key in (f"{MED}::MedianFilter.filter_disparity", f"{BIL}::BilateralFilter.filter_disparity", f"{MFI}::MedianForIntervalsFilter.filter_disparity"):
        check_function_effects(ctx, "C10.WHO-WRITES", key)
    rule_masked_write(ctx, MED, "MedianFilter", "median_filter")
    rule_masked_write(ctx, BIL, "BilateralFilter", "filter_bilateral")
    rule_kernel(ctx, MED, "MedianFilter.median_filter", "self._filter_size", "radius")
    rule_kernel(ctx, BIL, "BilateralFilter.filter_bilateral", "win_width", "offset")
    check_block_nest(ctx, "C10.BLOCKS", MED, "MedianFilter.median_filter", start="radius", reduce_hint="np.nanmedian(disp_x, axis=(2, 3))")
    check_block_nest(ctx, "C10.BLOCKS", BIL, "BilateralFilter.filter_bilateral", start="offset")
    check_as_strided(ctx, "C10.SLIDING", COM, "sliding_window")
    wd = ctx.extra.get("strided_window_dims", {}).get(f"{COM}::sliding_window")
    ctx.ob("C10.SLIDING", COM, tree.func(COM, "sliding_window"), f"sliding_window: window dimensions are {wd}", wd == [2, 3], expected="[2, 3] (the filters reduce over axes (2, 3))")
    # bilateral kernel: centre at (offset, offset), both reductions over (2, 3)
    bk = tree.func(BIL, "BilateralFilter.bilateral_kernel")
    d = Defs(bk)
    rets = [n for n in walk_no_nested(bk) if isinstance(n, ast.Return)]
    txt = canon(rets[0].value) if rets else ""
    okr = txt.count("axis=(2, 3)") == 2 and "np.nansum(pixel_weights" in txt and "np.nansum(weights" in txt
    ctx.ob("C10.BILATERAL", BIL, rets[0] if rets else bk, f"bilateral_kernel returns {txt[:120]}", okr, expected="np.nansum(pixel_weights, axis=(2, 3)) / np.nansum(weights, axis=(2, 3))", detail="the weighted mean must normalise by the sum of the weights of the *valid* window pixels, over the two window axes")
    ik = d.all_defs("int_kernel")
    okc = bool(ik) and "windows[(::, ::, offset, offset)]" in canon(ik[0][1])
    ctx.ob("C10.BILATERAL", BIL, ik[0][0] if ik else bk, f"range kernel relative to the window centre: {canon(ik[0][1])[:120] if ik else '?'}", okc, expected="windows - windows[:, :, offset, offset]", detail="the intensity difference must be taken with the centre pixel of each window")
    # spatial kernel: distances measured from the same centre cell as the range kernel (floor(size / 2))
    gk = tree.func(BIL, "BilateralFilter.gauss_spatial_kernel")
    ks = gk.args.args[1].arg
    gd = Defs(gk)
    centres = []
    for n in walk_no_nested(gk):
        if isinstance(n, ast.BinOp) and isinstance(n.op, ast.Sub):
            ex = gd.expand(n.right, n, depth=3, stop=(ks,))
            if any(isinstance(x, ast.Name) and x.id == ks for x in ast.walk(ex)):
                centres.append((n, ex))
    if not centres:
        # symmetric coordinate vectors: np.linspace(-h, h, k) / np.arange(k) - h put the centre at h = (k - 1) / 2
        lin = [c for c in calls_in(gk) if (dotted(c.func) or "") in ("np.linspace", "numpy.linspace") and len(c.args) >= 3 and canon(c.args[2]) == ks]
        for c in lin:
            a, b = gd.expand(c.args[0], c, depth=3, stop=(ks,)), gd.expand(c.args[1], c, depth=3, stop=(ks,))
            sym = (poly(a) + poly(b)).terms == {}
            centre = canon(b) if sym else "?"
            okl = sym and canon(b) in (canon(_ex(f"{ks} // 2")), canon(_ex(f"int({ks} / 2)")))
            ctx.ob("C10.BILATERAL", BIL, c, f"gauss_spatial_kernel: coordinates `{src(c)[:70]}` are centred on cell {centre}", okl, expected=f"distances measured from cell {ks} // 2, the centre used by the range kernel and by the block loop", detail="a symmetric coordinate vector from -(k-1)/2 to (k-1)/2 puts the peak of the spatial Gaussian half a cell away from the filtered pixel whenever the window width is even (see known finding K1: even widths do occur)")
        if not lin:
            raise AnalysisError("gauss_spatial_kernel: no `index - centre(kernel_size)` expression found")
    for n, ex in centres:
        c = canon(ex)
        okc2 = c in (canon(_ex(f"{ks} // 2")), canon(_ex(f"int({ks} / 2)")), canon(_ex(f"np.floor({ks} / 2)")), canon(_ex(f"math.floor({ks} / 2)")))
        ctx.ob("C10.BILATERAL", BIL, n, f"gauss_spatial_kernel: distance measured from `{c}`", okc2, expected=f"{ks} // 2, the centre cell used by the range kernel and by the block loop (offset = int(win_width / 2))", detail="the spatial Gaussian must peak on the filtered pixel: with another centre the spatial and range kernels disagree on which cell is the centre whenever the window width is even (see known finding K1: even widths do occur)")
    pw = d.all_defs("pixel_weights")
    w = d.all_defs("weights")
    okw = bool(pw) and canon(pw[0][1]) in ("np.multiply(windows, weights)", "windows*weights") and bool(w) and canon(w[0][1]) in ("np.multiply(gauss_spatial_kernel, gauss_int_kernel)", "gauss_int_kernel*gauss_spatial_kernel")
    ctx.ob("C10.BILATERAL", BIL, pw[0][0] if pw else bk, "weights = spatial kernel x range kernel; pixel_weights = windows x weights", okw, detail="the bilateral weight is the product of the spatial and range Gaussians")
    fb = tree.func(BIL, "BilateralFilter.filter_bilateral")
    kc = [c for c in calls_in(fb) if isinstance(c.func, ast.Attribute) and c.func.attr == "bilateral_kernel"]
    okk = len(kc) == 1 and [canon(a) for a in kc[0].args][1:] == ["gauss_spatial_kernel", "sigma_color", "offset"]
    ctx.ob("C10.BILATERAL", BIL, kc[0] if kc else fb, f"{src(kc[0])[:120] if kc else 'bilateral_kernel call'}", okk, expected="self.bilateral_kernel(<block>, gauss_spatial_kernel, sigma_color, offset)")
    gk = [c for c in calls_in(fb) if isinstance(c.func, ast.Attribute) and c.func.attr == "gauss_spatial_kernel"]
    ctx.ob("C10.BILATERAL", BIL, gk[0] if gk else fb, f"{src(gk[0]) if gk else 'gauss_spatial_kernel call'}", len(gk) == 1 and [canon(a) for a in gk[0].args] == ["win_width", "sigma_space"], expected="self.gauss_spatial_kernel(win_width, sigma_space)")
    ww = Defs(fb).all_defs("win_width")
    ctx.ob("C10.BILATERAL", BIL, ww[0][0] if ww else fb, f"win_width = {canon(ww[0][1]) if ww else '?'}", bool(ww) and canon(ww[0][1]) == "min(ny_, nx_, int(1 + 3*sigma_space))", expected="min(rows, cols, int(3 * sigma_space + 1))")

    # median_for_intervals: same median on both bound bands, nothing on the disparity
    f = tree.func(MFI, "MedianForIntervalsFilter.filter_disparity")
    dp = f.args.args[1].arg
    loops = [s for s in stmts_of(f) if isinstance(s, ast.For)]
    okl = False
    if loops:
        lp = loops[0]
        d2 = Defs(f)
        it = canon(lp.iter)
        v = lp.target.id if isinstance(lp.target, ast.Name) else "?"
        okl = it in ("[indicator_interval_inf, indicator_interval_sup]", "(indicator_interval_inf, indicator_interval_sup)")
        body_txt = [canon(s.value) if isinstance(s, ast.Assign) else "" for s in lp.body]
        tgt = [canon(s.targets[0]) for s in lp.body if isinstance(s, ast.Assign)]
        okl = okl and any(f"{dp}['confidence_measure'].sel({{'indicator': {v}}}).copy(deep=True).data" == t for t in body_txt) and any("med_filter.median_filter(" in t for t in body_txt) and f"{dp}['confidence_measure'].loc[{{'indicator': {v}}}]" in tgt
    ctx.ob("C10.INTERVALS", MFI, loops[0] if loops else f, "both interval-bound bands go through the same median_filter, on deep copies, and are written back to their own band", okl, detail="median_for_intervals must apply the same median to the _inf and the _sup band (and only to them)")
    # "the same median": invalid pixels are neither filtered nor used (NaN-ed copy in, masked write-back out)
    if loops:
        lp = loops[0]
        dl = Defs(f)
        medc = [c for c in calls_in(lp) if isinstance(c.func, ast.Attribute) and c.func.attr == "median_filter"]
        arg = medc[0].args[0].id if medc and medc[0].args and isinstance(medc[0].args[0], ast.Name) else None
        nan_st = [s for s in walk_no_nested(lp) if isinstance(s, ast.Assign) and isinstance(s.targets[0], ast.Subscript) and arg and canon(s.targets[0].value) == arg and (dotted(s.value) or "") in ("np.nan", "numpy.nan")]
        okm = False
        if nan_st:
            idx = nan_st[0].targets[0].slice
            pred = _where_pred(idx)
            okm = pred is not None and equivalent(boolform(pred), boolform(_ex(f"({dp}['validity_mask'].data & PANDORA_MSK_PIXEL_INVALID) != 0"))) is None and nan_st[0].lineno < medc[0].lineno
        ctx.ob("C10.INTERVALS", MFI, nan_st[0] if nan_st else lp, f"interval bounds of invalid pixels are NaN-ed before the median ({src(nan_st[0])[:90] if nan_st else 'missing'})", okm, expected=f"{arg or 'masked_data'}[np.where(({dp}['validity_mask'].data & PANDORA_MSK_PIXEL_INVALID) != 0)] = np.nan", detail="'the same median' is the median of the *valid* values of the window: the bounds of pixels invalidated earlier (e.g. by the cross-checking) must not enter their neighbours' medians")
        res = None
        for s in walk_no_nested(lp):
            if isinstance(s, ast.Assign) and isinstance(s.value, ast.Call) and s.value is (medc[0] if medc else None) and isinstance(s.targets[0], ast.Name):
                res = s.targets[0].id
        wb = [s for s in walk_no_nested(lp) if isinstance(s, ast.Assign) and isinstance(s.targets[0], ast.Subscript) and res and isinstance(s.value, ast.Subscript) and canon(s.value.value) == res and canon(s.value.slice) == canon(s.targets[0].slice)]
        okw = False
        if wb and arg:
            vdef = dl.reaching(canon(wb[0].targets[0].slice), wb[0]) if isinstance(wb[0].targets[0].slice, ast.Name) else None
            okw = vdef is not None and canon(vdef[1]) in (f"np.isfinite({arg})", f"{{!(np.isnan({arg}))}}", f"~np.isnan({arg})")
        ctx.ob("C10.INTERVALS", MFI, wb[0] if wb else lp, f"only the bounds of valid pixels are replaced ({src(wb[0])[:80] if wb else 'write-back of the whole filtered band'})", okw, expected=f"bound[valid] = {res or 'disp_median'}[valid] with valid = np.isfinite({arg or 'masked_data'})", detail="a filter never changes an invalid pixel: writing the whole filtered band back gives invalid pixels the median of their neighbours' bounds")
    d2 = Defs(f)
    for nm, base in (("indicator_interval_inf", "confidence_from_interval_bounds_inf"), ("indicator_interval_sup", "confidence_from_interval_bounds_sup")):
        dd = d2.all_defs(nm)
        txt = canon(dd[0][1]) if dd else ""
        ctx.ob("C10.INTERVALS", MFI, dd[0][0] if dd else f, f"{nm} = {txt[:120]}", f"'{base}'" in txt and f"'{base}.' + self._interval_indicator" in txt, expected=f"'{base}' [+ '.' + indicator suffix]")
    mf = [c for c in calls_in(f) if (dotted(c.func) or "") == "MedianFilter"]
    cm = d2.all_defs("cfg_median")
    okm = len(mf) == 1 and bool(cm) and "'filter_size': self._filter_size" in canon(cm[0][1]) and "'filter_method': 'median'" in canon(cm[0][1])
    ctx.ob("C10.INTERVALS", MFI, mf[0] if mf else f, f"median of size self._filter_size: cfg_median = {canon(cm[0][1]) if cm else '?'}", okm, expected="{'filter_size': self._filter_size, 'filter_method': 'median'}")
    n = check_flag_stores(ctx, "C10.BIT11", [MFI], only_functions={"MedianForIntervalsFilter.filter_disparity"})
    ctx.floor("C10.BIT11", n, 1)
    consts = flag_constants(tree)
    st = [s for s in walk_no_nested(f) if isinstance(s, ast.AugAssign) and "validity_mask" in src(s.target)]
    ctx.ob("C10.BIT11", MFI, st[0] if st else f, src(st[0])[:120] if st else "bit 11 store", len(st) == 1 and flag_name(st[0].value, consts) == "PANDORA_MSK_PIXEL_INTERVAL_REGULARIZED", expected="|= PANDORA_MSK_PIXEL_INTERVAL_REGULARIZED only")
    # border pixels keep the border criterion only: the regularisation mask covers the image border (ambiguity is 0 there)
    rb = [s for s in walk_no_nested(f) if isinstance(s, ast.Assign) and canon(s.targets[0]) == f"{dp}['validity_mask']"]
    okb = len(rb) == 1 and canon(rb[0].value) == f"mask_border({dp})" and bool(st) and rb[0].lineno > st[0].lineno and [canon(t) for t, pol in guards_of(rb[0], stop=f) if pol][:1] == [f"{{!([-{dp}.attrs['offset_row_col']]>=0)}}"] or (len(rb) == 1 and canon(rb[0].value) == f"mask_border({dp})" and bool(st) and rb[0].lineno > st[0].lineno and any(equivalent(boolform(t), boolform(_ex(f"{dp}.attrs['offset_row_col'] > 0"))) is None or equivalent(boolform(t), boolform(_ex(f"{dp}.attrs.get('offset_row_col', 0) > 0"))) is None for t, pol in guards_of(rb[0], stop=f) if pol))
    ctx.ob("C10.BIT11", MFI, rb[0] if rb else f, f"after raising bit 11: {src(rb[0])[:70] if rb else 'no border reset'}", okb, expected=f"if {dp}.attrs['offset_row_col'] > 0: {dp}['validity_mask'] = mask_border({dp})", detail="image-border pixels carry bit 0 only: bit 11 raised on them would later be erased by the validation step's own border reset, so the final mask would depend on whether a validation step follows")
    k = rule_odd_window(ctx)
    ctx.floor("C10.ODD-WINDOW", k, 3)


SPEC = PropSpec(
    pid="C10",
    title="Filters change only valid pixels, to an average of their valid neighbours",
    explanation=(
        "Static decision of the structural half of C10: (a) effect summaries of the three filter_disparity methods against the who-may-write matrix (median/bilateral write "
        "disparity_map only; median_for_intervals writes confidence_measure and raises bit 11 with |=); (b) the only store to the disparity map is at `valid = isfinite(masked copy)` "
        "where the copy was NaN-ed at (mask & INVALID) != 0; (c) the kernels write a fresh copy of their input (never the input), restore NaN at invalid positions, use square "
        "windows of the configured size from sliding_window and start their cursors at int(size/2); (d) the 100- and 50-pixel block nests obey the cursor discipline (start, one advance "
        "per iteration by the chunk's own extent, column cursor reset per row of blocks, [cursor : cursor + extent] slices, no early exit) and reduce over the window axes (2, 3); "
        "(e) sliding_window's as_strided view is consistent (strides of the passed array, slid extent N-(w-1), window dims 2,3); (f) the bilateral kernel normalises by the weights of "
        "the valid pixels and is centred at (offset, offset); (g) median_for_intervals sends both bound bands through the same median; (h) every window size given to sliding_window is provably odd."
    ),
    rule_text="instances: the three filter classes, their kernels, two block nests (about 12 obligations each), the as_strided view, every sliding_window call site of the package",
    run=run,
    not_decided=["that the value written is *the* median / bilateral weighted mean (delegated to numpy.nanmedian and floating-point arithmetic)", "'between the smallest and largest valid disparity of the window' (numeric consequence)"],
    trusted=["numpy.nanmedian ignores NaN; as_strided does no bounds checking", "filter_size is odd (decided under C05.DOMAIN)"],
)

MUTANTS = [
    {"id": "spatial-kernel-by-symmetric-linspace", "file": BIL, "old": "        arr = np.zeros((kernel_size, kernel_size))\n        for [i, j], val in np.ndenumerate(arr):  # pylint:disable=unused-variable\n            arr[i, j] = np.sqrt(abs(i - kernel_size // 2) ** 2 + abs(j - kernel_size // 2) ** 2)\n", "new": "        half = (kernel_size - 1) / 2\n        axis = np.linspace(-half, half, kernel_size)\n        arr = np.sqrt(axis[:, None] ** 2 + axis[None, :] ** 2)\n"},
    {"id": "interval-bands-not-masked-before-median", "file": MFI, "old": '            if "validity_mask" in disp.data_vars:\n                masked_data[np.where((disp["validity_mask"].data & PANDORA_MSK_PIXEL_INVALID) != 0)] = np.nan\n', "new": ""},
    {"id": "interval-bands-written-back-whole", "file": MFI, "old": "            bound[valid] = disp_median[valid]\n", "new": "            bound[:] = disp_median\n"},
    {"id": "bit11-left-on-the-border", "file": MFI, "old": '            if disp.attrs.get("offset_row_col", 0) > 0:\n                disp["validity_mask"] = mask_border(disp)\n', "new": ""},
    {"id": "spatial-kernel-centre-half-size-minus-half", "file": BIL, "old": "            arr[i, j] = np.sqrt(abs(i - kernel_size // 2) ** 2 + abs(j - kernel_size // 2) ** 2)", "new": "            arr[i, j] = np.sqrt(abs(i - (kernel_size - 1) / 2) ** 2 + abs(j - (kernel_size - 1) / 2) ** 2)"},
    {"id": "eq-spatial-kernel-vectorised-same-centre", "kind": "equiv", "file": BIL, "old": "        arr = np.zeros((kernel_size, kernel_size))\n        for [i, j], val in np.ndenumerate(arr):  # pylint:disable=unused-variable\n            arr[i, j] = np.sqrt(abs(i - kernel_size // 2) ** 2 + abs(j - kernel_size // 2) ** 2)\n", "new": "        center = kernel_size // 2\n        rows, cols = np.indices((kernel_size, kernel_size))\n        arr = np.sqrt((rows - center) ** 2 + (cols - center) ** 2)\n"},
    {"id": "store-unmasked", "file": MED, "old": 'disp["disparity_map"].data[valid] = disp_median[valid]', "new": 'disp["disparity_map"].data[:] = disp_median'},
    {"id": "mask-test-eq0", "file": MED, "old": "cst.PANDORA_MSK_PIXEL_INVALID) != 0)] = np.nan", "new": "cst.PANDORA_MSK_PIXEL_INVALID) == 0)] = np.nan"},
    {"id": "median-writes-mask", "file": MED, "old": '        disp.attrs["filter"] = "median"', "new": '        disp["validity_mask"].data[valid] = 0\n        disp.attrs["filter"] = "median"'},
    {"id": "bit11-assign", "file": MFI, "old": "|= PANDORA_MSK_PIXEL_INTERVAL_REGULARIZED", "new": "= PANDORA_MSK_PIXEL_INTERVAL_REGULARIZED"},
    {"id": "bit11-add", "file": MFI, "old": "|= PANDORA_MSK_PIXEL_INTERVAL_REGULARIZED", "new": "+= PANDORA_MSK_PIXEL_INTERVAL_REGULARIZED"},
    {"id": "y_begin-zero", "file": MED, "old": "        y_begin = radius\n", "new": "        y_begin = 0\n"},
    {"id": "x-advance-by-outer", "file": MED, "old": "                    x_begin += disp_x.shape[1]", "new": "                    x_begin += disp_y.shape[1]"},
    {"id": "axis-1-2", "file": MED, "old": "np.nanmedian(disp_x, axis=(2, 3))", "new": "np.nanmedian(disp_x, axis=(1, 2))"},
    {"id": "only-inf-band", "file": MFI, "old": "for ind_interval in [indicator_interval_inf, indicator_interval_sup]:", "new": "for ind_interval in [indicator_interval_inf]:"},
    {"id": "drop-nan-restore", "file": MED, "old": "        data_median[invalid] = np.nan\n", "new": ""},
    {"id": "output-aliases-input", "file": MED, "old": "data_median = np.copy(data)", "new": "data_median = np.asarray(data)"},
    {"id": "strides-recomputed", "file": COM, "old": "    strides = base_array.strides + base_array.strides", "new": "    itemsize = base_array.itemsize\n    strides = (base_array.shape[1] * itemsize, itemsize) * 2"},
    {"id": "bilateral-normalise-by-all", "file": BIL, "old": "return np.nansum(pixel_weights, axis=(2, 3)) / np.nansum(weights, axis=(2, 3))", "new": "return np.nansum(pixel_weights, axis=(2, 3)) / np.nansum(gauss_spatial_kernel)"},
    {"id": "bilateral-x-not-reset", "edits": [(BIL, "        y_begin = offset\n", "        y_begin = offset\n        x_begin = offset\n"), (BIL, "                x_begin = offset\n", "")]},
    {"id": "median-window-even", "file": MED, "old": "aggregation_window = sliding_window(data, (self._filter_size, self._filter_size))", "new": "aggregation_window = sliding_window(data, (self._filter_size + 1, self._filter_size + 1))"},
    {"id": "eq-chunk-64", "kind": "equiv", "file": MED, "old": "chunk_size = 100", "new": "chunk_size = 64"},
    {"id": "eq-isfinite-vs-isnan", "kind": "equiv", "file": MED, "old": "valid = np.isfinite(masked_data)", "new": "valid = ~np.isnan(masked_data)"},
    {"id": "eq-floor-div", "kind": "equiv", "file": MED, "old": "radius = int(self._filter_size / 2)", "new": "radius = self._filter_size // 2"},
]
