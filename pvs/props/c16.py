"""C16 -- image datasets faithfully encode input rasters, masks, nodata and ROI (structural clauses)."""
from __future__ import annotations

import ast
import copy
from typing import Dict, List, Optional

from ..astx import calls_in, dotted, guards_of, kwarg, src, stmts_of, walk_no_nested
from ..core import AnalysisError, Ctx, PropSpec
from ..defuse import Defs
from ..flow import normal_paths
from ..sym import B, boolform, canon, equivalent, poly

IMG = "pandora/img_tools.py"


def _e(t: str) -> ast.AST:
    return ast.parse(t, mode="eval").body


class _RowCol(ast.NodeTransformer):
    """col <-> row, margins[0] <-> [1], [2] <-> [3], width <-> height."""

    M = {"col_off": "row_off", "row_off": "col_off", "roi_width": "roi_height", "roi_height": "roi_width", "width": "height", "height": "width"}

    def visit_Name(self, n):
        if n.id in self.M:
            return ast.copy_location(ast.Name(id=self.M[n.id], ctx=n.ctx), n)
        return n

    def visit_Constant(self, n):
        if n.value == "col":
            return ast.copy_location(ast.Constant(value="row"), n)
        if n.value == "row":
            return ast.copy_location(ast.Constant(value="col"), n)
        return n

    def visit_Subscript(self, n):
        self.generic_visit(n)
        if isinstance(n.slice, ast.Constant) and isinstance(n.slice.value, int) and canon(n.value).endswith("['margins']"):
            return ast.copy_location(ast.Subscript(value=n.value, slice=ast.Constant(value={0: 1, 1: 0, 2: 3, 3: 2}[n.slice.value]), ctx=n.ctx), n)
        return n


def rule_window(ctx: Ctx) -> None:
    tree = ctx.tree
    f = tree.func(IMG, "get_window")
    roi, w, h = [a.arg for a in f.args.args][:3]
    d = Defs(f)
    want = {
        "col_off": f"max({roi}['col']['first'] - {roi}['margins'][0], 0)",
        "row_off": f"max({roi}['row']['first'] - {roi}['margins'][1], 0)",
        "roi_width": f"{roi}['col']['last'] - col_off + {roi}['margins'][2] + 1",
        "roi_height": f"{roi}['row']['last'] - row_off + {roi}['margins'][3] + 1",
    }
    first: Dict[str, ast.AST] = {}
    for name, exp in want.items():
        ds = d.all_defs(name)
        if not ds:
            raise AnalysisError(f"get_window: `{name}` not found")
        # margins may be unpacked into names first: expand
        ex = d.expand(ds[0][1], ds[0][0], depth=3, stop=("col_off", "row_off"))
        first[name] = ex
        ok = canon(ex) == canon(_e(exp))
        # tuple unpacking of the margins: resolve positions
        if not ok:
            ex2 = _expand_unpacked(d, ds[0][1], ds[0][0], roi)
            ok = ex2 is not None and canon(ex2) == canon(_e(exp))
            if ex2 is not None:
                first[name] = ex2
        ctx.ob("C16.WINDOW", IMG, ds[0][0], f"get_window: {name} = {canon(first[name])[:110]}", ok, expected=exp, detail="margins are (left, up, right, down): the window starts at first - left/up margin (clipped at 0) and extends to last + right/down margin")
    # row computations are the images of the column ones
    for a, b in (("col_off", "row_off"), ("roi_width", "roi_height")):
        ok = canon(_RowCol().visit(copy.deepcopy(first[a]))) == canon(first[b])
        ctx.ob("C16.WINDOW-SYM", IMG, d.all_defs(b)[0][0], f"get_window: {b} is the row/col image of {a}", ok, expected=canon(_RowCol().visit(copy.deepcopy(first[a]))), detail="rows and columns must be treated alike (col<->row, margins[0]<->[1], [2]<->[3])")
    out = [s for s in stmts_of(f) if isinstance(s, ast.If) and any(isinstance(x, ast.Raise) for x in s.body)]
    # "entirely outside" = the (clamped) window is empty: it starts at or beyond the far side, or has no column / row left
    okout = bool(out) and equivalent(boolform(out[0].test), boolform(_e(f"col_off >= {w} or row_off >= {h} or roi_width <= 0 or roi_height <= 0"))) is None
    ctx.ob("C16.WINDOW", IMG, out[0] if out else f, f"get_window: ROI outside the image refused: {src(out[0].test)[:120] if out else 'missing'}", okout, expected=f"col_off >= {w} or row_off >= {h} or roi_width <= 0 or roi_height <= 0", detail="a ROI that only touches the image from outside (first - margin == width, or last + margin == -1) has an empty window: strict comparisons let it through and an empty dataset is returned instead of a refusal")
    clips = [s for s in stmts_of(f) if isinstance(s, ast.If) and not any(isinstance(x, ast.Raise) for x in s.body)]
    got = {}
    for s in clips:
        if s.body and isinstance(s.body[0], ast.Assign):
            got[canon(s.body[0].targets[0])] = (s.test, s.body[0].value)
    for name, lim, off in (("roi_width", w, "col_off"), ("roi_height", h, "row_off")):
        ok = name in got and equivalent(boolform(got[name][0]), boolform(_e(f"({off} + {name}) > {lim}"))) is None and poly(got[name][1]) == poly(_e(f"{lim} - {off}"))
        ctx.ob("C16.WINDOW", IMG, f, f"get_window: {name} clipped to the image", ok, expected=f"if {off} + {name} > {lim}: {name} = {lim} - {off}")
    rets = [r for r in walk_no_nested(f) if isinstance(r, ast.Return)]
    ctx.ob("C16.WINDOW", IMG, rets[0] if rets else f, f"get_window returns {canon(rets[0].value) if rets else '?'}", bool(rets) and canon(rets[0].value) == "Window(col_off, row_off, roi_width, roi_height)", expected="Window(col_off, row_off, roi_width, roi_height)")


def _expand_unpacked(d: Defs, node: ast.AST, at: ast.AST, roi: str) -> Optional[ast.AST]:
    """Replace names bound by `a, b, c, d = roi['margins']` with roi['margins'][k]."""
    class X(ast.NodeTransformer):
        def visit_Name(self, n):
            r = d.reaching(n.id, at)
            if r is not None and r[2] is not None and canon(r[1]) == f"{roi}['margins']":
                return ast.Subscript(value=copy.deepcopy(r[1]), slice=ast.Constant(value=r[2]), ctx=ast.Load())
            return n

    out = X().visit(copy.deepcopy(node))
    ast.fix_missing_locations(out)
    return out


def rule_create(ctx: Ctx) -> None:
    tree = ctx.tree
    f = tree.func(IMG, "create_dataset_from_inputs")
    d = Defs(f)
    reads = [c for c in calls_in(f) if isinstance(c.func, ast.Attribute) and c.func.attr == "read" and canon(c.func.value) == "img_ds"]
    ctx.floor("C16.READ", len(reads), 2)
    for c in reads:
        ok = canon(kwarg(c, "out_dtype")) == "np.float32" and canon(kwarg(c, "window")) == "window"
        ctx.ob("C16.READ", IMG, c, f"image read: {src(c)}", ok, expected="read(..., out_dtype=np.float32, window=window)", detail="image samples are held as float32, read through the ROI window")
    mono = [c for c in reads if c.args]
    ctx.ob("C16.READ", IMG, mono[0] if mono else f, "monoband images read band 1 as a 2D array", len(mono) == 1 and canon(mono[0].args[0]) == "1" and any(pol and canon(t) == "{[-1 + img_ds.count]==0}" for t, pol in guards_of(mono[0], stop=f)), expected="if img_ds.count == 1: img_ds.read(1, ...)")
    # coordinates offset by the window origin
    for st in walk_no_nested(f):
        if isinstance(st, ast.Assign) and isinstance(st.targets[0], ast.Name) and st.targets[0].id == "coords" and isinstance(st.value, ast.Dict):
            ent = {k.value: canon(v) for k, v in zip(st.value.keys, st.value.values) if isinstance(k, ast.Constant)}
            ok = ent.get("row") == canon(_e("np.arange(row_off, ny_ + row_off)")) and ent.get("col") == canon(_e("np.arange(col_off, nx_ + col_off)"))
            ctx.ob("C16.READ", IMG, st, f"coords row={ent.get('row')} col={ent.get('col')}", ok, expected="row = arange(row_off, ny + row_off), col = arange(col_off, nx + col_off)", detail="reading with a ROI equals cropping the full read, coordinates included")
            if "band_im" in ent:
                ctx.ob("C16.READ", IMG, st, f"band names {ent['band_im']}", ent["band_im"] == "list(img_ds.descriptions)", expected="list(img_ds.descriptions)")
    off = [s for s in walk_no_nested(f) if isinstance(s, ast.Assign) and isinstance(s.targets[0], ast.Tuple) and [canon(e) for e in s.targets[0].elts] == ["col_off", "row_off"]]
    okoff = bool(off) and canon(off[0].value) == "((window.col_off, window.row_off) if roi else (0, 0))"
    ctx.ob("C16.READ", IMG, off[0] if off else f, f"window origin: {canon(off[0].value) if off else '?'}", okoff, expected="(window.col_off, window.row_off) if roi else (0, 0)")
    # nodata detection: three ordered branches
    nd = [s for s in stmts_of(f) if isinstance(s, ast.If) and "no_data" in src(s.test)]
    ok = False
    det = ""
    if nd:
        s1 = nd[0]
        t1 = canon(s1.test)
        b1 = canon(s1.body[0].value) if s1.body and isinstance(s1.body[0], ast.Assign) else ""
        s2 = s1.orelse[0] if len(s1.orelse) == 1 and isinstance(s1.orelse[0], ast.If) else None
        t2 = canon(s2.test) if s2 else ""
        b2 = canon(s2.body[0].value) if s2 and s2.body and isinstance(s2.body[0], ast.Assign) else ""
        b3 = canon(s2.orelse[0].value) if s2 and s2.orelse and isinstance(s2.orelse[0], ast.Assign) else ""
        ok = t1 == "np.isnan(no_data)" and b1 == "np.where(np.isnan(dataset['im'].data))" and t2 == "np.isinf(no_data)" and b2 == "np.where(np.isinf(dataset['im'].data))" and b3 == "np.where({[dataset['im'].data + -no_data]==0})"
        det = f"{t1} -> {b1}; {t2} -> {b2}; else {b3}"
    ctx.ob("C16.NODATA", IMG, nd[0] if nd else f, f"no-data detection: {det[:200]}", ok, expected="isnan(nodata) -> isnan(im); isinf(nodata) -> isinf(im); else im == nodata", detail="a pixel is no-data exactly when its sample equals the nodata value: NaN matches NaN only, +-inf matches +-inf only")
    ndv = d.all_defs("no_data")
    ctx.ob("C16.NODATA", IMG, ndv[0][0] if ndv else f, f"no_data = {canon(ndv[0][1]) if ndv else '?'}", bool(ndv) and canon(ndv[0][1]) == "input_parameters['nodata']")
    # pipe order
    rets = [r for r in walk_no_nested(f) if isinstance(r, ast.Return)]
    txt = canon(rets[0].value) if rets else ""
    order = [txt.find(x) for x in ("add_classif", "add_segm", "add_no_data", "add_mask")]
    ok = all(i >= 0 for i in order) and "pipe(add_no_data, no_data, no_data_pixels)" in txt and "pipe(add_mask, input_parameters['mask'], no_data_pixels, nx_, ny_, window)" in txt and "pipe(add_classif, input_parameters['classif'], window)" in txt and "pipe(add_segm, input_parameters['segm'], window)" in txt
    ctx.ob("C16.ATTACH", IMG, rets[0] if rets else f, "classification, segmentation, no-data and mask attached with the same window", ok, expected=".pipe(add_classif, ..., window).pipe(add_segm, ..., window).pipe(add_no_data, no_data, no_data_pixels).pipe(add_mask, mask, no_data_pixels, nx_, ny_, window)")
    dp = [c for c in calls_in(f) if isinstance(c.func, ast.Attribute) and c.func.attr == "pipe" and c.args and canon(c.args[0]) == "add_disparity"]
    okd = len(dp) == 1 and canon(kwarg(dp[0], "disparity")) == "input_config['disp']" and canon(kwarg(dp[0], "window")) == "window"
    ctx.ob("C16.ATTACH", IMG, dp[0] if dp else f, f"disparity attached: {src(dp[0]) if dp else '?'}", okd)
    attrs = [s for s in walk_no_nested(f) if isinstance(s, ast.Assign) and isinstance(s.targets[0], ast.Name) and s.targets[0].id == "attributes" and isinstance(s.value, ast.Dict)]
    if attrs:
        ent = {k.value: canon(v) for k, v in zip(attrs[0].value.keys, attrs[0].value.values) if isinstance(k, ast.Constant)}
        ctx.ob("C16.MASK", IMG, attrs[0], f"mask convention valid_pixels={ent.get('valid_pixels')} no_data_mask={ent.get('no_data_mask')}", ent.get("valid_pixels") == "0" and ent.get("no_data_mask") == "1", expected="valid = 0, no_data = 1")
        # georeferencing: the file's CRS and transform, the transform dropped only when it says nothing (identity, no CRS)
        td = d.all_defs("transform")
        okt = ent.get("crs") == "crs" and ent.get("transform") == "transform" and bool(td) and canon(td[0][1]) == "img_ds.profile['transform']" and canon(d.all_defs("crs")[0][1]) == "img_ds.profile['crs']"
        nones = [x for x in td[1:] if isinstance(x[1], ast.Constant) and x[1].value is None]
        okn = len(td) == 1 + len(nones) and all(any(pol and equivalent(boolform(t), boolform(_e("crs is None and transform == rasterio.Affine.identity()"))) is None for t, pol in guards_of(x[0], stop=f)) for x in nones)
        ctx.ob("C16.ATTACH", IMG, td[0][0] if td else attrs[0], f"attrs carry the file's georeferencing: transform = {canon(td[0][1]) if td else '?'}{' ; None when ' + src(guards_of(nones[0][0], stop=f)[0][0]) if nones and guards_of(nones[0][0], stop=f) else ''}", okt and okn, expected="transform = img_ds.profile['transform']; None only if crs is None and the transform is the identity", detail="an image with a geotransform but no CRS (tie points / world file) must keep its transform: dropping it whenever the CRS is missing writes every product with the identity transform")


def rule_nodata_mask(ctx: Ctx) -> None:
    tree = ctx.tree
    f = tree.func(IMG, "add_no_data")
    ds, nd, px = [a.arg for a in f.args.args][:3]
    ifs = [s for s in stmts_of(f) if isinstance(s, ast.If)]
    ok = bool(ifs) and equivalent(boolform(ifs[0].test), boolform(_e(f"{px}[0].size != 0 and (np.isnan({nd}) or np.isinf({nd}))"))) is None
    body = [canon(s.targets[0]) + " = " + canon(s.value) for s in ifs[0].body if isinstance(s, ast.Assign)] if ifs else []
    ok = ok and body == [f"{ds}['im'].data[{px}] = -9999", f"{nd} = -9999"]
    ctx.ob("C16.NODATA", IMG, ifs[0] if ifs else f, f"add_no_data: if {src(ifs[0].test)[:100] if ifs else '?'}: {body}", ok, expected="NaN/inf no-data samples (when any) are replaced by -9999 and the recorded nodata becomes -9999", detail="NaN / inf samples must not enter the cost computation; finite nodata values are left in place")
    up = [c for c in calls_in(f) if isinstance(c.func, ast.Attribute) and c.func.attr == "update"]
    ctx.ob("C16.NODATA", IMG, up[0] if up else f, f"add_no_data: {src(up[0]) if up else '?'}", bool(up) and canon(up[0].args[0]) == f"{{'no_data_img': {nd}}}" and not guards_of(up[0], stop=f), expected=f"attrs.update({{'no_data_img': {nd}}})")
    g = tree.func(IMG, "add_mask")
    ds, mk, px, wd, ht, win = [a.arg for a in g.args.args][:6]
    body = stmts_of(g)
    early = [s for s in body if isinstance(s, ast.If) and any(isinstance(x, ast.Return) for x in s.body)]
    oke = bool(early) and equivalent(boolform(early[0].test), boolform(_e(f"{mk} is None and {px}[0].size == 0"))) is None
    ctx.ob("C16.MASK", IMG, early[0] if early else g, f"add_mask: no mask variable iff `{src(early[0].test) if early else '?'}`", oke, expected=f"{mk} is None and no no-data pixel", detail="there must be no mask variable exactly when there is nothing to flag")
    al = [s for s in body if isinstance(s, ast.Assign) and canon(s.targets[0]) == f"{ds}['msk']"]
    oka = bool(al) and f"np.full(({ht}, {wd}), {ds}.attrs['valid_pixels']).astype(np.int16)" in canon(al[0].value) and "dims=['row', 'col']" in canon(al[0].value)
    ctx.ob("C16.MASK", IMG, al[0] if al else g, f"add_mask: allocation {canon(al[0].value)[:120] if al else '?'}", oka, expected="int16 array of shape (height, width) full of valid_pixels")
    stores = [s for s in walk_no_nested(g) if isinstance(s, ast.Assign) and isinstance(s.targets[0], ast.Subscript) and canon(s.targets[0].value) == f"{ds}['msk'].data"]
    inv = [s for s in stores if "valid_pixels" in canon(s.value)]
    ndt = [s for s in stores if "no_data_mask" in canon(s.value) and "valid_pixels" not in canon(s.value)]
    okinv = False
    if inv:
        idx = inv[0].targets[0].slice
        pred = idx.args[0] if isinstance(idx, ast.Call) and (dotted(idx.func) or "") in ("np.where", "numpy.where") else idx
        okinv = equivalent(boolform(pred), boolform(_e("input_mask != 0"))) is None and poly(inv[0].value) == poly(_e(f"{ds}.attrs['valid_pixels'] + {ds}.attrs['no_data_mask'] + 1"))
        gs = [canon(t) for t, pol in guards_of(inv[0], stop=g)]
        okinv = okinv and gs == [f"{{!({mk} is None)}}"]
    ctx.ob("C16.MASK", IMG, inv[0] if inv else g, f"add_mask: invalid pixels: {src(inv[0])[:140] if inv else 'missing'}", okinv, expected=f"msk[input_mask != 0] = valid + no_data + 1 (when a mask is given)", detail="a pixel is invalid exactly when the input mask is non-zero there (negative values included); the invalid code must differ from both valid and no-data")
    oknd = bool(ndt) and canon(ndt[0].targets[0].slice) == f"({px}[-2], {px}[-1])" and canon(ndt[0].value) == f"int({ds}.attrs['no_data_mask'])" and not guards_of(ndt[0], stop=g)
    ctx.ob("C16.MASK", IMG, ndt[0] if ndt else g, f"add_mask: no-data pixels: {src(ndt[0])[:120] if ndt else 'missing'}", oknd, expected=f"msk[{px}[-2], {px}[-1]] = no_data_mask, unconditionally", detail="no-data is located on the last two axes of the image (row, col) whatever the band count")
    ctx.ob("C16.MASK", IMG, ndt[0] if ndt else g, "add_mask: no-data written after invalid (precedence)", bool(inv) and bool(ndt) and ndt[0].lineno > inv[0].lineno, detail="a pixel that is both masked and no-data must end as no-data")
    rd = Defs(g).all_defs("input_mask")
    okr = bool(rd) and canon(rd[0][1]) == f"rasterio_open({mk}).read(1, window={win})"
    ctx.ob("C16.MASK", IMG, rd[0][0] if rd else g, f"add_mask: input mask read as {canon(rd[0][1]) if rd else '?'}", okr, expected=f"rasterio_open({mk}).read(1, window={win}) in the raster's own dtype", detail="converting the mask on read (e.g. out_dtype=uint8) clamps negative values to 0: they would be treated as valid")
    # classification / segmentation
    ac = tree.func(IMG, "add_classif")
    c = [x for x in calls_in(ac) if isinstance(x.func, ast.Attribute) and x.func.attr == "read"]
    ok = len(c) == 1 and not c[0].args and canon(kwarg(c[0], "out_dtype")) == "np.int16" and canon(kwarg(c[0], "window")) == "window"
    dims = [x for x in calls_in(ac) if (dotted(x.func) or "") == "xr.DataArray"]
    ok = ok and bool(dims) and canon(kwarg(dims[0], "dims")) == "['band_classif', 'row', 'col']"
    names = [s for s in walk_no_nested(ac) if isinstance(s, ast.Assign) and canon(s.targets[0]).endswith("coords['band_classif']")]
    ok = ok and bool(names) and canon(names[0].value) == "list(classif_ds.descriptions)"
    ctx.ob("C16.ATTACH", IMG, ac, "add_classif: all bands, int16, same window, dims (band_classif, row, col), names from descriptions", ok)
    asg = tree.func(IMG, "add_segm")
    c = [x for x in calls_in(asg) if isinstance(x.func, ast.Attribute) and x.func.attr == "read"]
    ok = len(c) == 1 and [canon(a) for a in c[0].args] == ["1"] and canon(kwarg(c[0], "out_dtype")) == "np.int16" and canon(kwarg(c[0], "window")) == "window"
    ctx.ob("C16.ATTACH", IMG, asg, "add_segm: band 1, int16, same window", ok)


def run(ctx: Ctx) -> None:
    rule_window(ctx)
    rule_create(ctx)
    rule_nodata_mask(ctx)
    # disparity variable (shared with C09)
    from .c09 import run as c09run

    before = len(ctx.obligations)
    c09run(ctx)
    keep = []
    for i, o in enumerate(ctx.obligations):
        if i < before:
            keep.append(o)
        elif o.rule == "C09.BROADCAST":
            o.rule = "C16.DISPARITY"
            keep.append(o)
    ctx.obligations[:] = keep
    ctx.floors = {k: v for k, v in ctx.floors.items() if not k.startswith("C09")}


SPEC = PropSpec(
    pid="C16",
    title="Image datasets faithfully encode input rasters, masks, nodata and ROI (structural clauses)",
    explanation=(
        "Decides how create_dataset_from_inputs and its helpers are wired, not rasterio's window semantics: float32 windowed reads (band 1 as 2D for monoband), coordinates offset by the window origin, band names "
        "from the file; three ordered no-data detection branches (NaN -> isnan, inf -> isinf, else equality); NaN/inf no-data replaced by -9999 only when present; no mask variable iff no mask and no no-data pixel; "
        "int16 mask full of valid_pixels, invalid written where the natively-typed input mask is != 0 with the code valid+no_data+1, no-data written last on the last two axes; classification (all bands) and "
        "segmentation (band 1) read as int16 through the same window; disparity broadcast in the order of its band labels. get_window: offsets first - left/up margin clipped at 0, extents last - offset + "
        "right/down margin + 1 (canonical polynomials, margin unpacking resolved by position), the row formulas are the images of the column ones under col<->row / margins[0]<->[1] / [2]<->[3], the "
        "outside test and the two clipping branches are pinned by boolean / polynomial equivalence."
    ),
    rule_text="instances: the definitions of get_window, the reads / coords / branches / pipes of create_dataset_from_inputs, the statements of add_no_data, add_mask, add_classif, add_segm, add_disparity located by role",
    run=run,
    not_decided=["'reading with a ROI equals cropping the full read' (rasterio window semantics)", "exact boundary cases of the outside test (observation in DESIGN section 6)"],
    trusted=["rasterio: read(out_dtype=...) converts with clamping; read(window=None) reads everything"],
)

MUTANTS = [
    {"id": "transform-dropped-whenever-crs-missing", "file": IMG, "old": '    transform = img_ds.profile["transform"]\n    if crs is None and transform == rasterio.Affine.identity():\n        transform = None\n', "new": '    transform = img_ds.profile["transform"] if crs is not None else None\n'},
    {"id": "adjacent-roi-accepted", "file": IMG, "old": "    if col_off >= width or row_off >= height or roi_width <= 0 or roi_height <= 0:\n", "new": "    if col_off > width or row_off > height or (col_off + roi_width) < 0 or (row_off + roi_height) < 0:\n"},
    {"id": "float64", "file": IMG, "old": "data = img_ds.read(1, out_dtype=np.float32, window=window)", "new": "data = img_ds.read(1, out_dtype=np.float64, window=window)"},
    {"id": "nodata-before-invalid", "edits": [(IMG, '    dataset["msk"].data[(no_data_pixels[-2], no_data_pixels[-1])] = int(dataset.attrs["no_data_mask"])\n    return dataset', "    return dataset"), (IMG, "    # Mask invalid pixels if needed\n", '    dataset["msk"].data[(no_data_pixels[-2], no_data_pixels[-1])] = int(dataset.attrs["no_data_mask"])\n    # Mask invalid pixels if needed\n')]},
    {"id": "invalid-code-is-nodata", "file": IMG, "old": '            dataset.attrs["valid_pixels"] + dataset.attrs["no_data_mask"] + 1\n', "new": '            dataset.attrs["valid_pixels"] + dataset.attrs["no_data_mask"]\n'},
    {"id": "isnan-branch-tests-isinf", "file": IMG, "old": '        no_data_pixels = np.where(np.isnan(dataset["im"].data))', "new": '        no_data_pixels = np.where(np.isinf(dataset["im"].data))'},
    {"id": "replacement-unconditioned", "file": IMG, "old": "    if no_data_pixels[0].size != 0 and (np.isnan(no_data) or np.isinf(no_data)):", "new": "    if no_data_pixels[0].size != 0:"},
    {"id": "mask-gt-0", "file": IMG, "old": "np.where(input_mask != 0)", "new": "np.where(input_mask > 0)"},
    {"id": "early-return-mask-only", "file": IMG, "old": "    if mask is None and no_data_pixels[0].size == 0:", "new": "    if mask is None:"},
    {"id": "row-coords-no-offset", "file": IMG, "old": '        coords = {"row": np.arange(row_off, ny_ + row_off), "col": np.arange(col_off, nx_ + col_off)}', "new": '        coords = {"row": np.arange(0, ny_), "col": np.arange(col_off, nx_ + col_off)}'},
    {"id": "row-uses-margin-2", "file": IMG, "old": 'row_off = max(roi["row"]["first"] - roi["margins"][1], 0)', "new": 'row_off = max(roi["row"]["first"] - roi["margins"][2], 0)'},
    {"id": "margins-unpacked-wrong-order", "edits": [(IMG, '    col_off = max(roi["col"]["first"] - roi["margins"][0], 0)  # if overlapping on left side\n    row_off = max(roi["row"]["first"] - roi["margins"][1], 0)  # if overlapping on up side\n    roi_width = roi["col"]["last"] - col_off + roi["margins"][2] + 1\n    roi_height = roi["row"]["last"] - row_off + roi["margins"][3] + 1\n', '    m_left, m_right, m_up, m_down = roi["margins"]\n    col_off = max(roi["col"]["first"] - m_left, 0)\n    row_off = max(roi["row"]["first"] - m_up, 0)\n    roi_width = roi["col"]["last"] - col_off + m_right + 1\n    roi_height = roi["row"]["last"] - row_off + m_down + 1\n')]},
    {"id": "nodata-not-finite", "file": IMG, "old": '    if np.isnan(no_data):\n        no_data_pixels = np.where(np.isnan(dataset["im"].data))\n    elif np.isinf(no_data):\n        no_data_pixels = np.where(np.isinf(dataset["im"].data))\n', "new": '    if np.isnan(no_data) or np.isinf(no_data):\n        no_data_pixels = np.where(~np.isfinite(dataset["im"].data))\n'},
    {"id": "mask-read-uint8", "file": IMG, "old": "input_mask = rasterio_open(mask).read(1, window=window)", "new": "input_mask = rasterio_open(mask).read(1, out_dtype=np.uint8, window=window)"},
    {"id": "segm-without-window", "file": IMG, "old": "rasterio_open(segm).read(1, out_dtype=np.int16, window=window)", "new": "rasterio_open(segm).read(1, out_dtype=np.int16)"},
    {"id": "eq-margins-unpacked-right-order", "kind": "equiv", "edits": [(IMG, '    col_off = max(roi["col"]["first"] - roi["margins"][0], 0)  # if overlapping on left side\n    row_off = max(roi["row"]["first"] - roi["margins"][1], 0)  # if overlapping on up side\n    roi_width = roi["col"]["last"] - col_off + roi["margins"][2] + 1\n    roi_height = roi["row"]["last"] - row_off + roi["margins"][3] + 1\n', '    m_left, m_up, m_right, m_down = roi["margins"]\n    col_off = max(roi["col"]["first"] - m_left, 0)\n    row_off = max(roi["row"]["first"] - m_up, 0)\n    roi_width = roi["col"]["last"] - col_off + m_right + 1\n    roi_height = roi["row"]["last"] - row_off + m_down + 1\n')]},
    {"id": "eq-mask-not-eq-0", "kind": "equiv", "file": IMG, "old": "np.where(input_mask != 0)", "new": "np.where(~(input_mask == 0))"},
]
