"""C06 -- refinement moves a disparity by at most half a sample, never for the worse (structural half)."""
from __future__ import annotations

import ast
from typing import Dict, List, Optional, Tuple

from ..astx import calls_in, decorators, dotted, guards_of, src, stmts_of, walk_no_nested
from ..core import AnalysisError, Ctx, PropSpec
from ..defuse import Defs
from ..rules_effects import check_function_effects
from ..rules_flags import check_flag_stores, flag_constants, flag_name
from ..sym import B, _assignments, boolform, canon, equivalent, poly

R = "pandora/refinement/refinement.py"
VF = "pandora/refinement/vfit.py"
QD = "pandora/refinement/quadratic.py"


def _implies_under(a: B, b: B, nonneg: List[str]) -> Optional[dict]:
    """a -> b for every assignment in which the polynomials listed in nonneg are >= 0."""
    for s, v in _assignments([a, b]):
        if any(s.get(k, 0) < 0 for k in nonneg):
            continue
        if a.eval(s, v) and not b.eval(s, v):
            return {"signs": s, "atoms": v}
    return None


def _guard_formula(node: ast.AST, stop: ast.AST) -> B:
    parts = []
    for t, pol in guards_of(node, stop=stop):
        bf = boolform(t)
        parts.append(bf if pol else B("not", bf))
    return B("and", parts) if parts else B("const", True)


def rule_loop(ctx: Ctx, qual: str) -> None:
    tree = ctx.tree
    consts = flag_constants(tree)
    fn = tree.func(R, qual)
    pars = [a.arg for a in fn.args.args]
    cv, disp, mask, dmin, dmax, subpix, measure, method = pars[:8]
    defs = Defs(fn)
    loops = [n for n in walk_no_nested(fn) if isinstance(n, ast.For)]
    if len(loops) < 2:
        raise AnalysisError(f"{qual}: row/col loops not found")
    rv, cvr = loops[0].target.id, loops[1].target.id
    cell = f"({rv}, {cvr})"
    # dsp = int((disp[row, col] - d_min) * subpixel)
    dd = defs.all_defs("dsp")
    x = f"(({disp}[{rv}, {cvr}] - {dmin}) * {subpix})"
    wants = [canon(ast.parse(t, mode="eval").body) for t in (f"int(np.floor({x} + 0.5))", f"int(np.rint({x}))", f"int(round({x}))", f"int(math.floor({x} + 0.5))", f"int({x} + 0.5)")]
    trunc = canon(ast.parse(f"int({x})", mode="eval").body)
    got = canon(dd[0][1]) if dd else "?"
    ctx.ob("C06.INDEX", R, dd[0][0] if dd else fn, f"{qual}: dsp = {got}", len(dd) == 1 and got in wants, expected=wants[0], detail="the plane is the sample *nearest* to the received disparity, (disparity - first disparity) * subpix rounded: " + ("truncation picks the sample below an off-grid disparity (after a filter or an earlier refinement), so the result can end more than half a sample away from the received value and drifts upwards on repetition" if got == trunc else "any other conversion reads the cost triple of another disparity"))
    inv = boolform(ast.parse(f"({mask}[{rv}, {cvr}] & cst.PANDORA_MSK_PIXEL_INVALID) == 0", mode="eval").body)
    notnan = B("not", boolform(ast.parse(f"np.isnan({cv}[{rv}, {cvr}, dsp])", mode="eval").body))
    # "the sample has a neighbour on both sides" is a statement about the sample *index* used for the accesses
    # cv[.., dsp - 1] / cv[.., dsp + 1]: 0 < dsp < (number of planes) - 1.  A guard on the disparity *value*
    # (disp != d_min and disp != d_max) agrees with it only for disparities that lie on the sampling grid; a filtered
    # or already refined disparity inside the first sample interval has index 0 and would read cv[.., -1].
    shp = [s for s in walk_no_nested(fn) if isinstance(s, ast.Assign) and isinstance(s.targets[0], ast.Tuple) and canon(s.value) == f"{cv}.shape" and len(s.targets[0].elts) == 3]
    nplanes = canon(shp[0].targets[0].elts[2]) if shp else f"{cv}.shape[2]"
    if nplanes == "_":
        nplanes = f"{cv}.shape[2]"
    interior = boolform(ast.parse(f"(dsp != 0) and (dsp != {nplanes} - 1)", mode="eval").body)
    # invariants: 0 <= dsp <= number of planes - 1
    assume: Dict[str, int] = {}
    for expr in ("dsp", f"{nplanes} - 1 - dsp"):
        q, sgn0 = poly(ast.parse(expr, mode="eval").body).sign_normalised()
        assume[q.text()] = sgn0  # q * sgn0 >= 0

    def holds(a: B, b: B) -> Optional[dict]:
        for sg, v in _assignments([a, b]):
            if any(sg.get(k, 0) * sgn < 0 for k, sgn in assume.items()):
                continue
            if a.eval(sg, v) and not b.eval(sg, v):
                return {"signs": sg, "atoms": v}
        return None

    stores = []
    for st in walk_no_nested(fn):
        if isinstance(st, (ast.Assign, ast.AugAssign)):
            for t in st.targets if isinstance(st, ast.Assign) else [st.target]:
                if isinstance(t, ast.Subscript) and isinstance(t.value, ast.Name) and t.value.id in (disp, mask):
                    stores.append((st, t))
    ctx.floor(f"C06.LOOP-GUARDS({qual})", len(stores), 3)
    for st, t in stores:
        g = _guard_formula(st, fn)
        which = "disparity" if t.value.id == disp else "mask"
        ok_cell = canon(t.slice) == cell
        ctx.ob("C06.LOOP-GUARDS", R, st, f"{qual}: {which} store at [{canon(t.slice)}]", ok_cell, expected=f"[{rv}, {cvr}]", detail="a pixel's refinement must only write that pixel")
        d = holds(g, inv)
        ctx.ob("C06.LOOP-GUARDS", R, st, f"{qual}: `{src(st)[:70]}` only for pixels that are not flagged invalid", d is None, detail=f"pixels flagged invalid must be left untouched; the store is reachable with an invalid flag: {d}")
        d = holds(g, notnan)
        ctx.ob("C06.LOOP-GUARDS", R, st, f"{qual}: `{src(st)[:70]}` only when the sample's own cost is not NaN", d is None, detail=f"{d}")
        is_stop = isinstance(st, ast.AugAssign) and flag_name(st.value, consts) == "PANDORA_MSK_PIXEL_STOPPED_INTERPOLATION"
        if is_stop:
            d1 = holds(g, B("not", interior))
            ctx.ob("C06.LOOP-GUARDS", R, st, f"{qual}: bit 3 raised directly only when the sample sits on an end of the interval", d1 is None, detail=f"{d1}")
            # and conversely: valid, non-NaN, on an end -> reaches this store
            d2 = holds(B("and", [inv, notnan, B("not", interior)]), g)
            ctx.ob("C06.LOOP-GUARDS", R, st, f"{qual}: every valid pixel on an interval end gets bit 3", d2 is None, detail=f"a pixel on an interval end is left without bit 3: {d2}")
        else:
            d1 = holds(g, interior)
            ctx.ob("C06.LOOP-GUARDS", R, st, f"{qual}: `{src(st)[:70]}` only when the sample is strictly inside the interval", d1 is None, detail=f"the guard does not imply 0 < dsp < planes - 1 for the index that is used: on the first / last sample dsp-1 / dsp+1 index outside the cost volume (numba does not bounds-check, -1 wraps around to the last plane) and the refined disparity can leave the interval; a test on the disparity value instead of the index misses off-grid disparities (after a filter or an earlier refinement): {d1}")
            succ = [boolform(t) for t, pol in guards_of(st, stop=fn) if pol and isinstance(t, ast.Compare) and isinstance(t.left, ast.Name) and t.left.id == "valid" and canon(t.comparators[0]) == "0"]
            d2 = holds(B("and", [inv, notnan, interior] + succ), g)
            ctx.ob("C06.LOOP-GUARDS", R, st, f"{qual}: every valid interior pixel{' the method accepts' if succ else ''} reaches `{src(st)[:50]}`", d2 is None, detail=f"{d2}")
    # the method call
    mc = [c for c in calls_in(fn) if isinstance(c.func, ast.Name) and c.func.id == method]
    ctx.floor(f"C06.LOOP-GUARDS({qual} method call)", len(mc), 1)
    c = mc[0]
    first = c.args[0]
    okargs = isinstance(first, ast.List) and [canon(e) for e in first.elts] == [f"{cv}[({rv}, {cvr}, -1 + dsp)]", f"{cv}[({rv}, {cvr}, dsp)]", f"{cv}[({rv}, {cvr}, 1 + dsp)]"] and [canon(a) for a in c.args[1:]] == [f"{disp}[{cell}]", measure]
    ctx.ob("C06.LOOP-GUARDS", R, c, f"{qual}: {method}({canon(first)[:100]}, ...)", okargs, expected=f"[cv[.., dsp-1], cv[.., dsp], cv[.., dsp+1]], {disp}[{rv}, {cvr}], {measure}", detail="the method must receive the costs at the previous, current and next sample, in that order")
    par = getattr(c, "_parent", None)
    names = [canon(e) for e in par.targets[0].elts] if isinstance(par, ast.Assign) and isinstance(par.targets[0], ast.Tuple) else []
    if len(names) == 3:
        sd, sc, vl = names
        dst = [st for st, t in stores if t.value.id == disp]
        okd = len(dst) == 1 and isinstance(dst[0], ast.Assign) and poly(dst[0].value) == poly(ast.parse(f"{dmin} + (dsp + {sd}) / {subpix}", mode="eval").body)
        ctx.ob("C06.LOOP-GUARDS", R, dst[0] if dst else fn, f"{qual}: {src(dst[0])[:90] if dst else 'disparity update'}", okd, expected=f"{dmin} + (dsp + {sd}) / {subpix}", detail="the fitted optimum is relative to the *sample* the three costs were taken around: sample disparity (d_min + dsp / subpix) plus the shift in samples divided by subpix exactly once. Adding the shift to the received disparity is the same only for on-grid input; for a filtered or already refined disparity the result leaves the half-sample bound and can pass d_max")
        gd = [t for t, pol in guards_of(dst[0], stop=fn) if pol and equivalent(boolform(t), boolform(ast.parse(f"{vl} == 0", mode="eval").body)) is None] if dst else []
        ctx.ob("C06.LOOP-GUARDS", R, dst[0] if dst else fn, f"{qual}: the disparity is replaced only when the method succeeded ({vl} == 0)", bool(gd), expected=f"if {vl} == 0: {disp}[{rv}, {cvr}] = ...", detail="a pixel the method refuses (bit 3: not an extremum, NaN neighbour) must be left where it was, even when it was off the sampling grid")
        ist = [st for st in walk_no_nested(fn) if isinstance(st, ast.Assign) and canon(st.targets[0]) == f"itp_coeff[{cell}]" and canon(st.value) in (sc, "cost")]
        # (the approximate variant recomputes the cost; accept `cost` only there)
        ctx.ob("C06.LOOP-GUARDS", R, ist[0] if ist else fn, f"{qual}: interpolated coefficient = {canon(ist[0].value) if ist else '?'}", bool(ist), expected=f"itp_coeff[{rv}, {cvr}] = {sc}", detail="the stored coefficient must be the fitted cost")
        mst = [st for st, t in stores if t.value.id == mask and not (isinstance(st, ast.AugAssign) and flag_name(st.value, consts))]
        okm = len(mst) == 1 and isinstance(mst[0], ast.AugAssign) and isinstance(mst[0].op, ast.BitOr) and canon(mst[0].value) == vl
        ctx.ob("C06.LOOP-GUARDS", R, mst[0] if mst else fn, f"{qual}: {src(mst[0]) if mst else 'mask update'}", okm, expected=f"{mask}[{rv}, {cvr}] |= {vl}", detail="the mask receives only the method's own flag result (0 or bit 3)")
    else:
        ctx.ob("C06.LOOP-GUARDS", R, c, f"{qual}: method result unpacked as (shift, cost, flag)", False)
    # no raising construct in the kernel
    bad = [n for n in walk_no_nested(fn) if isinstance(n, (ast.Raise, ast.Assert))]
    ctx.ob("C06.TOTAL", R, bad[0] if bad else fn, f"{qual}: no raise/assert in the kernel", not bad, detail="the step must be total")


def _ret3(fn: ast.AST) -> List[ast.Return]:
    return [n for n in walk_no_nested(fn) if isinstance(n, ast.Return) and isinstance(n.value, ast.Tuple) and len(n.value.elts) == 3]


def rule_method(ctx: Ctx, rel: str, qual: str) -> None:
    tree = ctx.tree
    consts = flag_constants(tree)
    fn = tree.func(rel, qual)
    cost = fn.args.args[0].arg
    measure = fn.args.args[2].arg
    body = stmts_of(fn)
    rets = _ret3(fn)
    ctx.floor(f"C06.METHOD-GUARDS({qual} returns)", len(rets), 3)
    STOP = "PANDORA_MSK_PIXEL_STOPPED_INTERPOLATION"
    for r in rets:
        third = r.value.elts[2]
        ok3 = (isinstance(third, ast.Constant) and third.value == 0) or flag_name(third, consts) == STOP
        ctx.ob("C06.METHOD-GUARDS", rel, r, f"{qual}: {src(r)[:90]}", ok3, expected="third component 0 or PANDORA_MSK_PIXEL_STOPPED_INTERPOLATION", detail="no other bit may change")
        if flag_name(third, consts) == STOP:
            ok = isinstance(r.value.elts[0], ast.Constant) and r.value.elts[0].value == 0 and canon(r.value.elts[1]) == f"{cost}[1]"
            ctx.ob("C06.METHOD-GUARDS", rel, r, f"{qual}: stopped pixels are left where they were: {src(r)[:80]}", ok, expected=f"return 0, {cost}[1], STOPPED")
    # inverse
    inv_defs = Defs(fn).all_defs("inverse")
    ok_inv = len(inv_defs) == 2 and canon(inv_defs[0][1]) == "1" and canon(inv_defs[1][1]) == "-1"
    if ok_inv:
        gs = guards_of(inv_defs[1][0], stop=fn)
        ok_inv = len(gs) == 1 and gs[0][1] and equivalent(boolform(gs[0][0]), boolform(ast.parse(f"{measure} == 'max'", mode="eval").body)) is None
    ctx.ob("C06.METHOD-GUARDS", rel, inv_defs[0][0] if inv_defs else fn, f"{qual}: inverse = 1, -1 iff {measure} == 'max'", ok_inv, detail="for similarity (max) measures every comparison must be mirrored")
    # the two early exits, in order, as formulas
    early = [st for st in body if isinstance(st, ast.If) and st.body and isinstance(st.body[-1], ast.Return) and isinstance(st.body[-1].value, ast.Tuple) and flag_name(st.body[-1].value.elts[2], consts) == STOP]
    want_nan = boolform(ast.parse(f"np.isnan({cost}[0]) or np.isnan({cost}[2])", mode="eval").body)
    want_ext = boolform(ast.parse(f"(inverse * {cost}[1] > inverse * {cost}[0]) or (inverse * {cost}[1] > inverse * {cost}[2])", mode="eval").body)
    ok_n = len(early) >= 1 and equivalent(boolform(early[0].test), want_nan) is None
    ctx.ob("C06.METHOD-GUARDS", rel, early[0] if early else fn, f"{qual}: NaN-neighbour guard `{src(early[0].test)[:90] if early else '?'}`", ok_n, expected=f"isnan({cost}[0]) or isnan({cost}[2]) -> stopped", detail="a NaN neighbour must stop the interpolation (bit 3), before any arithmetic")
    d = equivalent(boolform(early[1].test), want_ext) if len(early) >= 2 else {"missing": True}
    ctx.ob("C06.METHOD-GUARDS", rel, early[1] if len(early) >= 2 else fn, f"{qual}: extremum guard `{src(early[1].test)[:110] if len(early) >= 2 else '?'}`", d is None, expected="(inverse*c1 > inverse*c0) or (inverse*c1 > inverse*c2) -> stopped (strict on both sides)", detail=f"the sample is kept (bit 3) exactly when it is not an extremum of its two neighbours: ties are fitted, not stopped, and the test must hold for min and max measures alike; differs at {d}")
    ctx.ob("C06.METHOD-GUARDS", rel, fn, f"{qual}: exactly two 'stopped' exits", len(early) == 2, detail="bit 3 is returned in another situation than the two documented ones")
    # TOTAL: every division by a non-constant is dominated by a zero test of the divisor
    for node in walk_no_nested(fn):
        if isinstance(node, ast.BinOp) and isinstance(node.op, (ast.Div, ast.FloorDiv, ast.Mod)):
            dv = poly(node.right)
            if dv.is_const():
                ok = dv.const_value() != 0
                ctx.ob("C06.TOTAL", rel, node, f"{qual}: division by constant {dv.text()}", ok)
                continue
            atoms = sorted(dv.atoms())
            guarded = False
            how = ""
            if len(atoms) == 1 and len(dv.terms) == 1:
                s = atoms[0]
                for st in body:
                    if st.lineno >= node.lineno:
                        break
                    if isinstance(st, ast.If) and st.body and isinstance(st.body[-1], ast.Return) and not st.orelse:
                        t = canon(st.test)
                        for pat in (f"{{[{s}]==0}}", f"{{[abs({s})]<0}}", f"{{[abs({s})]<=0}}"):
                            if t == pat:
                                guarded, how = True, src(st.test)
                        # abs(s) < eps  (eps a positive constant)
                        if isinstance(st.test, ast.Compare) and len(st.test.ops) == 1 and isinstance(st.test.ops[0], (ast.Lt, ast.LtE)) and canon(st.test.left) == f"abs({s})" and isinstance(st.test.comparators[0], ast.Constant) and st.test.comparators[0].value > 0:
                            guarded, how = True, src(st.test)
                        if isinstance(st.test, ast.Compare) and len(st.test.ops) == 1 and isinstance(st.test.ops[0], ast.Eq) and canon(st.test.left) == s and isinstance(st.test.comparators[0], ast.Constant) and st.test.comparators[0].value == 0:
                            guarded, how = True, src(st.test)
                # the divisor symbol must not be re-assigned between the guard and the division
                if guarded:
                    d2 = Defs(fn)
                    later = [x for x in d2.all_defs(s) if x[0].lineno < node.lineno]
                    gl = [st.lineno for st in body if isinstance(st, ast.If) and src(st.test) == how]
                    if later and gl and later[-1][0].lineno > gl[0]:
                        guarded = False
            ctx.ob("C06.TOTAL", rel, node, f"{qual}: `{src(node)[:60]}` divisor `{dv.text()}` guarded by `{how}`", guarded, expected="an earlier `if <divisor is (nearly) zero>: return ...`", detail="numba compiles this kernel with Python's error model: a zero divisor raises ZeroDivisionError (flat or tied cost triples reach this point)")
    bad = [n for n in walk_no_nested(fn) if isinstance(n, (ast.Raise, ast.Assert))]
    ctx.ob("C06.TOTAL", rel, bad[0] if bad else fn, f"{qual}: no raise/assert", not bad)


def run(ctx: Ctx) -> None:
    tree = ctx.tree
    rule_loop(ctx, "AbstractRefinement.loop_refinement")
    from ..rules_par import rule_ieee

    ctx.floor("C06.IEEE", rule_ieee(ctx, "C06.IEEE", files=(R, VF, QD)), 3)
    # loop_approximate_refinement (diagonal search on the left volume, not reachable from the state machine) has another
    # shape: only its flag arithmetic is checked (C06.FLAGS below)
    rule_method(ctx, VF, "Vfit.refinement_method")
    rule_method(ctx, QD, "Quadratic.refinement_method")
    n = check_flag_stores(ctx, "C06.FLAGS", [R], only_functions={"AbstractRefinement.loop_refinement", "AbstractRefinement.loop_approximate_refinement"})
    ctx.floor("C06.FLAGS", n, 4)
    check_function_effects(ctx, "C06.EFFECTS", f"{R}::AbstractRefinement.subpixel_refinement")
    # call site: d_min / d_max / subpixel / measure come from the cost volume, in order
    sr = tree.func(R, "AbstractRefinement.subpixel_refinement")
    cvp, dp = sr.args.args[1].arg, sr.args.args[2].arg
    d = Defs(sr)
    call = [c for c in calls_in(sr) if isinstance(c.func, ast.Attribute) and c.func.attr == "loop_refinement"]
    ctx.floor("C06.CALL", len(call), 1)
    ex = [canon(d.expand(a, call[0], depth=2)) for a in call[0].args]
    want = [f"{cvp}['cost_volume'].data", f"{dp}['disparity_map'].data", f"{dp}['validity_mask'].data", f"{cvp}.coords['disp'].data[0]", f"{cvp}.coords['disp'].data[-1]", f"{cvp}.attrs['subpixel']", f"{cvp}.attrs['type_measure']", "self.refinement_method"]
    ctx.ob("C06.CALL", R, call[0], f"subpixel_refinement -> loop_refinement({', '.join(ex)[:200]})", ex == want, expected=", ".join(want), detail="the kernel must receive the cost volume, the disparity map and mask, the first and last sampled disparity, subpix and the type of measure of *that* cost volume")
    par = getattr(call[0], "_parent", None)
    tg = [canon(e) for e in par.targets[0].elts] if isinstance(par, ast.Assign) and isinstance(par.targets[0], ast.Tuple) else []
    ctx.ob("C06.CALL", R, par if par is not None else sr, f"results stored in {tg}", tg == ["itp_coeff", f"{dp}['disparity_map'].data", f"{dp}['validity_mask'].data"], expected="(itp_coeff, disparity_map.data, validity_mask.data)")
    ic = [st for st in walk_no_nested(sr) if isinstance(st, ast.Assign) and canon(st.targets[0]) == f"{dp}['interpolated_coeff']"]
    ctx.ob("C06.CALL", R, ic[0] if ic else sr, f"{dp}['interpolated_coeff'] built from itp_coeff", bool(ic) and canon(ic[0].value).startswith("xr.DataArray(itp_coeff"), expected="xr.DataArray(itp_coeff, ...)")


SPEC = PropSpec(
    pid="C06",
    title="Refinement moves a disparity by at most half a sample, never for the worse (structural clauses)",
    explanation=(
        "Decides the guard structure and totality of the refinement step, not its numerics. For both numba loops: the plane index is int((disparity - d_min) * subpix); every store to the "
        "disparity map or the mask is, as a boolean formula over the enclosing tests (evaluated on the finite sign table, under d_min <= disparity <= d_max), reachable exactly when the pixel is not "
        "flagged invalid, its own cost is not NaN and (for the fit) the sample is strictly inside the interval, while bit 3 is raised directly exactly on the interval ends; the method receives "
        "[cost(d-1), cost(d), cost(d+1)], the new disparity is disparity + shift / subpix, the mask receives only the method's flag. For both methods (sibling cross-check against one specification): "
        "the NaN-neighbour guard and the strict two-sided extremum guard `(i*c1 > i*c0) or (i*c1 > i*c2)` are the only 'stopped' exits, return (0, cost[1], bit 3), all other exits return flag 0; "
        "every division by a non-constant is dominated by a zero test of its divisor (totality: numba uses Python's error model); no raise/assert."
    ),
    rule_text="instances: every store to disp/mask in the two loops (guard formulas), the method call, every return and division of the two refinement methods, the call site in subpixel_refinement",
    run=run,
    not_decided=["|shift| <= 0.5/subpix", "the refined value equals the V-fit / parabola optimum of the three costs", "the interpolated coefficient is never worse than the sample's cost", "the refined disparity stays inside the pixel's interval (follows numerically from the half-sample bound and the interior guard)"],
    trusted=["numba error model: ZeroDivisionError on float division by zero inside njit", "0 <= sample index <= number of planes - 1 for every valid pixel entering the step (d_min <= disparity <= d_max)"],
)

MUTANTS = [
    {"id": "remove-invalid-guard", "file": R, "old": "                if (mask[row, col] & cst.PANDORA_MSK_PIXEL_INVALID) != 0:\n                    itp_coeff[row, col] = np.nan\n                else:\n                    # conversion to numpy indexing\n                    # nearest sample of the grid (a filtered or already refined disparity is not on the grid)\n                    dsp = int(np.floor((disp[row, col] - d_min) * subpixel + 0.5))\n                    itp_coeff[row, col] = cv[row, col, dsp]\n                    if not np.isnan(cv[row, col, dsp]):\n                        # The sample must have a neighbour on both sides: test its index, not the disparity value\n                        # (a filtered or already refined disparity is not on the sampling grid)\n                        if (dsp != 0) and (dsp != n_disp - 1):\n                            sub_disp, sub_cost, valid = method(", "new": "                if (mask[row, col] & cst.PANDORA_MSK_PIXEL_OCCLUSION) != 0:\n                    itp_coeff[row, col] = np.nan\n                else:\n                    # conversion to numpy indexing\n                    # nearest sample of the grid (a filtered or already refined disparity is not on the grid)\n                    dsp = int(np.floor((disp[row, col] - d_min) * subpixel + 0.5))\n                    itp_coeff[row, col] = cv[row, col, dsp]\n                    if not np.isnan(cv[row, col, dsp]):\n                        # The sample must have a neighbour on both sides: test its index, not the disparity value\n                        # (a filtered or already refined disparity is not on the sampling grid)\n                        if (dsp != 0) and (dsp != n_disp - 1):\n                            sub_disp, sub_cost, valid = method("},
    {"id": "interior-only-min-side", "file": R, "old": "                        if (dsp != 0) and (dsp != n_disp - 1):\n", "new": "                        if dsp != 0:\n"},
    {"id": "swap-neighbours", "file": R, "old": "                                    cv[row, col, dsp - 1],\n                                    cv[row, col, dsp],\n                                    cv[row, col, dsp + 1],\n                                ],  # type: ignore\n                                disp[row, col],\n                                measure,  # type: ignore\n                            )\n\n                            if valid == 0:\n                                # the optimum is relative to the sample, not to the received (off-grid) disparity\n                                disp[row, col] = d_min + (dsp + sub_disp) / subpixel\n                            itp_coeff[row, col] = sub_cost", "new": "                                    cv[row, col, dsp + 1],\n                                    cv[row, col, dsp],\n                                    cv[row, col, dsp - 1],\n                                ],  # type: ignore\n                                disp[row, col],\n                                measure,  # type: ignore\n                            )\n\n                            if valid == 0:\n                                # the optimum is relative to the sample, not to the received (off-grid) disparity\n                                disp[row, col] = d_min + (dsp + sub_disp) / subpixel\n                            itp_coeff[row, col] = sub_cost"},
    {"id": "shift-times-subpix", "file": R, "old": "                                disp[row, col] = d_min + (dsp + sub_disp) / subpixel\n", "new": "                                disp[row, col] = d_min + (dsp + sub_disp * subpixel) / subpixel\n"},
    {"id": "shift-added-to-the-received-disparity", "file": R, "old": "                                disp[row, col] = d_min + (dsp + sub_disp) / subpixel\n", "new": "                                disp[row, col] = disp[row, col] + (sub_disp / subpixel)\n"},
    {"id": "sample-index-truncated", "file": R, "old": "                    dsp = int(np.floor((disp[row, col] - d_min) * subpixel + 0.5))\n", "new": "                    dsp = int((disp[row, col] - d_min) * subpixel)\n"},
    {"id": "refused-pixel-snapped-to-its-sample", "file": R, "old": "                            if valid == 0:\n                                # the optimum is relative to the sample, not to the received (off-grid) disparity\n                                disp[row, col] = d_min + (dsp + sub_disp) / subpixel\n", "new": "                            disp[row, col] = d_min + (dsp + sub_disp) / subpixel\n"},
    {"id": "eq-sample-index-by-rint", "kind": "equiv", "file": R, "old": "                    dsp = int(np.floor((disp[row, col] - d_min) * subpixel + 0.5))\n", "new": "                    dsp = int(np.rint((disp[row, col] - d_min) * subpixel))\n"},
    {"id": "vfit-returns-bit4", "file": VF, "old": "        if (np.isnan(cost[0])) or (np.isnan(cost[2])):\n            # Information: calculations stopped at the pixel step, sub-pixel interpolation did not succeed\n            return 0, cost[1], cst.PANDORA_MSK_PIXEL_STOPPED_INTERPOLATION", "new": "        if (np.isnan(cost[0])) or (np.isnan(cost[2])):\n            # Information: calculations stopped at the pixel step, sub-pixel interpolation did not succeed\n            return 0, cost[1], cst.PANDORA_MSK_PIXEL_FILLED_OCCLUSION"},
    {"id": "vfit-remove-abs-guard", "file": VF, "old": "        if abs(a) < 1.0e-15:\n            return 0, cost[1], 0\n", "new": ""},
    {"id": "quadratic-remove-flat-guard", "file": QD, "old": "        if alpha == 0:\n            return 0, cost[1], 0\n", "new": ""},
    {"id": "vfit-nonstrict-right", "file": VF, "old": "(inverse * cost[1] > inverse * cost[0]) or (inverse * cost[1] > inverse * cost[2])", "new": "(inverse * cost[1] > inverse * cost[0]) or (inverse * cost[1] >= inverse * cost[2])"},
    {"id": "quadratic-min-form", "file": QD, "old": "(inverse * cost[1] > inverse * cost[0]) or (inverse * cost[1] > inverse * cost[2])", "new": "inverse * cost[1] > inverse * min(cost[0], cost[2])"},
    {"id": "dsp-without-subpix", "file": R, "old": "                    # nearest sample of the grid (a filtered or already refined disparity is not on the grid)\n                    dsp = int(np.floor((disp[row, col] - d_min) * subpixel + 0.5))\n                    itp_coeff[row, col] = cv[row, col, dsp]\n                    if not np.isnan(cv[row, col, dsp]):\n                        # The sample must have a neighbour on both sides: test its index, not the disparity value\n                        # (a filtered or already refined disparity is not on the sampling grid)\n                        if (dsp != 0) and (dsp != n_disp - 1):\n                            sub_disp, sub_cost, valid = method(", "new": "                    dsp = int(disp[row, col] - d_min)\n                    itp_coeff[row, col] = cv[row, col, dsp]\n                    if not np.isnan(cv[row, col, dsp]):\n                        # The sample must have a neighbour on both sides: test its index, not the disparity value\n                        # (a filtered or already refined disparity is not on the sampling grid)\n                        if (dsp != 0) and (dsp != n_disp - 1):\n                            sub_disp, sub_cost, valid = method("},
    {"id": "mask-add-valid", "file": R, "old": "                            mask[row, col] |= valid\n                        else:\n                            # If Information: calculations stopped at the pixel step, sub-pixel interpolation did\n                            # not succeed\n                            mask[row, col] |= cst.PANDORA_MSK_PIXEL_STOPPED_INTERPOLATION\n\n        return itp_coeff, disp, mask\n\n    @staticmethod\n    @abstractmethod", "new": "                            mask[row, col] += valid\n                        else:\n                            # If Information: calculations stopped at the pixel step, sub-pixel interpolation did\n                            # not succeed\n                            mask[row, col] |= cst.PANDORA_MSK_PIXEL_STOPPED_INTERPOLATION\n\n        return itp_coeff, disp, mask\n\n    @staticmethod\n    @abstractmethod"},
    {"id": "dmax-from-attrs-swapped", "file": R, "old": '        d_min = cv.coords["disp"].data[0]\n        d_max = cv.coords["disp"].data[-1]\n        subpixel = cv.attrs["subpixel"]\n        measure = cv.attrs["type_measure"]\n\n        # This silences', "new": '        d_min = cv.coords["disp"].data[0]\n        d_max = cv.coords["disp"].data[-2]\n        subpixel = cv.attrs["subpixel"]\n        measure = cv.attrs["type_measure"]\n\n        # This silences'},
    {"id": "eq-interior-strict-inequalities", "kind": "equiv", "file": R, "old": "                        if (dsp != 0) and (dsp != n_disp - 1):\n", "new": "                        if 0 < dsp < n_disp - 1:\n"},
    {"id": "interior-tested-on-the-disparity-value", "file": R, "old": "                        if (dsp != 0) and (dsp != n_disp - 1):\n", "new": "                        if (disp[row, col] != d_min) and (disp[row, col] != d_max):\n"},
    {"id": "eq-extremum-de-morgan", "kind": "equiv", "file": VF, "old": "if (inverse * cost[1] > inverse * cost[0]) or (inverse * cost[1] > inverse * cost[2]):", "new": "if not ((inverse * cost[1] <= inverse * cost[0]) and (inverse * cost[2] >= inverse * cost[1])):"},
    {"id": "eq-rename-inverse-use", "kind": "equiv", "file": QD, "old": "        # Solve the system: col = alpha * row ** 2 + beta * row + gamma\n", "new": "        # Solve the system\n"},
]
