"""C11 -- cross-based aggregation averages costs over the combined support region (structural clauses)."""
from __future__ import annotations

import ast
from typing import Dict, List, Optional, Tuple

from ..astx import calls_in, dotted, enclosing_loops, guards_of, src, stmts_of, walk_no_nested
from ..core import AnalysisError, Ctx, PropSpec
from ..defuse import Defs
from ..effects import program
from ..rules_effects import check_function_effects
from ..rules_strided import check_as_strided
from ..sym import boolform, canon, equivalent, poly

CB = "pandora/aggregation/cbca.py"
K = "CrossBasedCostAggregation"


def _e(t: str) -> ast.AST:
    return ast.parse(t, mode="eval").body


def rule_arms(ctx: Ctx) -> None:
    tree = ctx.tree
    f = tree.func(CB, "cross_support")
    img, la, it = [a.arg for a in f.args.args][:3]
    shp = [s for s in stmts_of(f) if isinstance(s, ast.Assign) and isinstance(s.targets[0], ast.Tuple) and canon(s.value) == f"{img}.shape"]
    if not shp:
        raise AnalysisError("cross_support: shape unpacking not found")
    n0, n1 = canon(shp[0].targets[0].elts[0]), canon(shp[0].targets[0].elts[1])
    loops = [l for l in walk_no_nested(f) if isinstance(l, ast.For) and not enclosing_loops(l)]
    inner = [l for l in walk_no_nested(loops[0]) if isinstance(l, ast.For) and len(enclosing_loops(l)) == 1]
    if not loops or not inner:
        raise AnalysisError("cross_support: pixel loops not found")
    a0, a1 = loops[0].target.id, inner[0].target.id  # axis-0 index, axis-1 index
    ok_loops = canon(loops[0].iter) == f"range({n0})" and canon(inner[0].iter) == f"range({n1})"
    ctx.ob("C11.ARMS", CB, loops[0], f"cross_support visits every pixel: for {a0} in {src(loops[0].iter)} / for {a1} in {src(inner[0].iter)}", ok_loops)
    arm_loops = [l for l in walk_no_nested(inner[0]) if isinstance(l, ast.For) and len(enclosing_loops(l)) == 2]
    stores = [s for s in walk_no_nested(inner[0]) if isinstance(s, ast.Assign) and isinstance(s.targets[0], ast.Subscript) and canon(s.targets[0].value) == "cross"]
    ctx.floor("C11.ARMS(loops)", len(arm_loops), 4)
    # expected template per slot
    spec = {0: (a1, n1, -1, 1), 1: (a1, n1, +1, 1), 2: (a0, n0, -1, 0), 3: (a0, n0, +1, 0)}
    seen = set()
    for s in stores:
        sl = s.targets[0].slice
        if not (isinstance(sl, ast.Tuple) and len(sl.elts) == 3 and isinstance(sl.elts[2], ast.Constant)):
            continue
        k = sl.elts[2].value
        seen.add(k)
        if k not in spec:
            ctx.ob("C11.ARMS", CB, s, f"cross_support: slot {k}", False, detail="unknown arm slot")
            continue
        p, n_p, direction, axis = spec[k]
        ok_cell = [canon(e) for e in sl.elts[:2]] == [a0, a1]
        # the arm loop that precedes this store
        prev = [l for l in arm_loops if l.lineno < s.lineno]
        lp = prev[-1] if prev else None
        if lp is None or not isinstance(lp.target, ast.Name):
            ctx.ob("C11.ARMS", CB, s, f"cross_support: arm loop of slot {k}", False, detail="arm loop not found")
            continue
        v = lp.target.id
        want_range = f"range({p} - 1, max({p} - {la}, -1), -1)" if direction < 0 else f"range({p} + 1, min({p} + {la}, {n_p}))"
        ok_range = canon(lp.iter) == canon(_e(want_range))
        ctx.ob("C11.ARMS", CB, lp, f"cross_support: arm {k} scans {src(lp.iter)}", ok_range, expected=want_range, detail="each arm looks at most len_arms - 1 pixels away, stops at the image edge: the four arms must follow the same template (an asymmetric bound makes the support region depend on the direction, and the result no longer commutes with a flip)")
        pos = f"{img}[{a0}, {v}]" if axis == 1 else f"{img}[{v}, {a1}]"
        brk = [x for x in lp.body if isinstance(x, ast.If) and any(isinstance(y, ast.Break) for y in x.body)]
        ok_brk = len(brk) == 1 and equivalent(boolform(brk[0].test), boolform(_e(f"abs({img}[{a0}, {a1}] - {pos}) >= {it}"))) is None
        ctx.ob("C11.ARMS", CB, brk[0] if brk else lp, f"cross_support: arm {k} stops when `{src(brk[0].test) if brk else '?'}`", ok_brk, expected=f"abs({img}[{a0}, {a1}] - {pos}) >= {it}", detail="an arm stops at an intensity jump >= cbca_intensity between the anchor and the scanned pixel")
        incs = [x for x in lp.body if isinstance(x, ast.AugAssign) and isinstance(x.op, ast.Add) and canon(x.value) == "1"]
        lenname = incs[0].target.id if incs and isinstance(incs[0].target, ast.Name) else "?"
        ok_inc = len(incs) == 1 and bool(brk) and incs[0].lineno > brk[0].lineno
        ctx.ob("C11.ARMS", CB, incs[0] if incs else lp, f"cross_support: arm {k} length counter {lenname} += 1 after the break test", ok_inc)
        edge = f"({p} >= 1)" if direction < 0 else f"({p} < {n_p} - 1)"
        want_val = f"max({lenname}, 1 * {edge} * np.isfinite({pos}))"
        okv = False
        val = s.value
        if isinstance(val, ast.Call) and (dotted(val.func) or "") == "max" and len(val.args) == 2 and canon(val.args[0]) == lenname:
            # second argument: product of 1, the edge test and isfinite(neighbour)
            factors = _factors(val.args[1])
            fin = [x for x in factors if isinstance(x, ast.Call) and (dotted(x.func) or "") in ("np.isfinite", "numpy.isfinite")]
            tst = [x for x in factors if isinstance(x, ast.Compare)]
            okv = len(fin) == 1 and canon(fin[0].args[0]) == canon(_e(pos)) and len(tst) == 1 and _int_equivalent(tst[0], _e(edge)) and all(isinstance(x, (ast.Call, ast.Compare)) or (isinstance(x, ast.Constant) and x.value == 1) for x in factors)
        ctx.ob("C11.ARMS", CB, s, f"cross_support: arm {k} = {canon(val)[:110]}", okv and ok_cell, expected=want_val, detail="one-pixel minimum support when the neighbour exists and is valid; stored in its own slot of the examined pixel")
        init = [x for x in walk_no_nested(inner[0]) if isinstance(x, ast.Assign) and isinstance(x.targets[0], ast.Name) and x.targets[0].id == v and x.lineno < lp.lineno]
        want_init = f"max({p} - 1, 0)" if direction < 0 else f"min({p} + 1, {n_p} - 1)"
        ctx.ob("C11.ARMS", CB, init[-1] if init else lp, f"cross_support: arm {k} scan variable starts at the neighbour ({v} = {canon(init[-1].value) if init else '?'})", bool(init) and canon(init[-1].value) == canon(_e(want_init)), expected=f"{v} = {want_init}", detail="when the arm loop does not run (cbca_distance = 1) the one-pixel-minimum test `isfinite(image[neighbour])` reads this variable: it must designate the neighbour (clamped to the image; the edge factor zeroes the clamped case), not the pixel itself -- otherwise the minimum arm of 1 reaches onto a masked neighbour and the masked pixel is counted in the support region")
    ctx.ob("C11.ARMS", CB, f, f"cross_support fills the four slots {sorted(seen)}", seen == {0, 1, 2, 3}, expected="[0, 1, 2, 3] = left, right, top, bottom")
    gate = [x for x in walk_no_nested(inner[0]) if isinstance(x, ast.If) and "isfinite" in src(x.test) and len(enclosing_loops(x)) == 2]
    ctx.ob("C11.ARMS", CB, gate[0] if gate else f, "cross_support: arms computed only for valid (finite) pixels", bool(gate) and canon(gate[0].test) == f"np.isfinite({img}[({a0}, {a1})])", expected=f"if np.isfinite({img}[{a0}, {a1}])", detail="masked pixels (inf) have empty arms: an arm stops at a masked pixel because the difference with it is infinite")


def _int_equivalent(a: ast.AST, b: ast.AST) -> bool:
    """Two comparisons over integer-valued names (pixel indices, extents) agree on a grid wider than their constants:
    exact for linear integer comparisons (row > 0  <=>  row >= 1)."""
    import itertools

    from ..jsonchk import Reject, eval_pred

    names = sorted({n.id for x in (a, b) for n in ast.walk(x) if isinstance(n, ast.Name)})
    if len(names) > 3:
        return canon(a) == canon(b)
    for vals in itertools.product(range(-3, 9), repeat=len(names)):
        env = dict(zip(names, vals))
        try:
            if bool(eval_pred(a, env)) != bool(eval_pred(b, env)):
                return False
        except Reject:
            return False
    return True


def _factors(node: ast.AST) -> List[ast.AST]:
    if isinstance(node, ast.BinOp) and isinstance(node.op, ast.Mult):
        return _factors(node.left) + _factors(node.right)
    return [node]


def rule_pairing(ctx: Ctx) -> None:
    tree = ctx.tree
    for q, slots, names, expr in (
        ("cbca_step_2", (1, 0), ("right", "left"), "step1[col, range_col[row] + right] - step1[col, range_col[row] - left - 1]"),
        ("cbca_step_4", (2, 3), ("top", "bot"), "step3[col + bot, range_col[row]] - step3[col - top - 1, range_col[row]]"),
    ):
        f = tree.func(CB, q)
        d = Defs(f)
        for nm, k in zip(names, slots):
            ds = d.all_defs(nm)
            want = f"min(cross_left[col, range_col[row], {k}], cross_right[col, range_col_right[row], {k}])"
            ok = len(ds) == 1 and canon(ds[0][1]) == canon(_e(want))
            ctx.ob("C11.PAIRING", CB, ds[0][0] if ds else f, f"{q}: {nm} = {canon(ds[0][1])[:110] if ds else '?'}", ok, expected=want, detail="each arm is the shorter of the left-image arm at the pixel's column and the right-image arm at the corresponding column (slots: 0 left, 1 right, 2 top, 3 bottom)")
        out = "step2" if q == "cbca_step_2" else "step4"
        st = [s for s in walk_no_nested(f) if isinstance(s, ast.Assign) and isinstance(s.targets[0], ast.Subscript) and canon(s.targets[0].value) == out]
        ok = len(st) == 1 and canon(st[0].targets[0].slice) == "(col, range_col[row])" and poly_same(st[0].value, expr)
        ctx.ob("C11.PAIRING", CB, st[0] if st else f, f"{q}: {canon(st[0].value)[:120] if st else '?'}", ok, expected=expr, detail="integral-image difference over the arm interval [p - first arm, p + second arm]")
        sm = "sum_step2" if q == "cbca_step_2" else "sum4"
        inc = [s for s in walk_no_nested(f) if isinstance(s, ast.AugAssign) and isinstance(s.target, ast.Subscript) and canon(s.target.value) == sm and not guards_of(s, stop=f)]
        ok = bool(inc) and poly(inc[0].value) == poly(_e(f"{names[0]} + {names[1]}")) and canon(inc[0].target.slice) == "(col, range_col[row])"
        ctx.ob("C11.PAIRING", CB, inc[0] if inc else f, f"{q}: support count += {canon(inc[0].value) if inc else '?'}", ok, expected=f"{names[0]} + {names[1]}")
    f4 = tree.func(CB, "cbca_step_4")
    ifs = {canon(s.test): canon(s.body[0].value) for s in walk_no_nested(f4) if isinstance(s, ast.If) and s.body and isinstance(s.body[0], ast.AugAssign)}
    ok = ifs.get(canon(_e("top != 0"))) == canon(_e("np.sum(sum2[col - top : col, range_col[row]])")) and ifs.get(canon(_e("bot != 0"))) == canon(_e("np.sum(sum2[col + 1 : col + bot + 1, range_col[row]])"))
    ctx.ob("C11.PAIRING", CB, f4, f"cbca_step_4: horizontal supports of the arm pixels added: {ifs}", ok, expected="+= sum(sum2[col-top:col]) and sum(sum2[col+1:col+bot+1])", detail="the region size is the vertical arm plus the horizontal arms of every arm pixel")
    s4 = Defs(f4).all_defs("sum4")
    ctx.ob("C11.PAIRING", CB, s4[0][0] if s4 else f4, f"cbca_step_4: sum4 = {canon(s4[0][1]) if s4 else '?'}", bool(s4) and canon(s4[0][1]) == "np.copy(sum2)", expected="np.copy(sum2)")


def poly_same(node: ast.AST, text: str) -> bool:
    return poly(node) == poly(_e(text))


def rule_driver(ctx: Ctx) -> None:
    tree = ctx.tree
    f = tree.func(CB, f"{K}.cost_volume_aggregation")
    d = Defs(f)
    body = stmts_of(f)
    loops = [l for l in body if isinstance(l, ast.For)]
    if not loops:
        raise AnalysisError("cost_volume_aggregation: plane loop not found")
    lp = loops[0]
    v = lp.target.id
    ctx.ob("C11.PLANES", CB, lp, f"for {v} in {src(lp.iter)}", canon(lp.iter) == "range(nb_disp)", expected="range(nb_disp): every disparity plane")
    # NaN re-injection idiom before the loop
    pre = [canon_stmt(s) for s in body if s.lineno < lp.lineno and isinstance(s, ast.AugAssign) and canon(s.target) == "agg"]
    ok = pre == ["agg Add np.swapaxes(cv_data, 0, 2)", "agg Mult 0"]
    ctx.ob("C11.NAN", CB, lp, f"NaN re-injection before the plane loop: {pre}", ok, expected="agg += np.swapaxes(cv_data, 0, 2); agg *= 0", detail="costs that were NaN must stay NaN (NaN * 0 = NaN) and no other cost may become NaN (finite * 0 = 0)")
    al = d.all_defs("agg")
    ctx.ob("C11.NAN", CB, al[0][0] if al else f, f"agg = {canon(al[0][1]) if al else '?'}", bool(al) and canon(al[0][1]) == "np.zeros((nb_disp, n_row_, n_col_), dtype=np.float32)")
    f1 = tree.func(CB, "cbca_step_1")
    g = [s for s in walk_no_nested(f1) if isinstance(s, ast.If) and "isnan" in src(s.test)]
    ok = bool(g) and canon(g[0].test) == "{!(np.isnan(cv[(col, row)]))}" and canon(g[0].body[0].value) == canon(_e("step1[col, row - 1] + cv[col, row]")) and canon(g[0].orelse[0].value) == "step1[(col, -1 + row)]"
    ctx.ob("C11.NAN", CB, g[0] if g else f1, "cbca_step_1 does not propagate NaN in the integral image", ok, expected="if not isnan(cv): S = S[-1] + cv else: S = S[-1]", detail="only computable input costs are summed")
    # planes independent: every array written in the loop is indexed by the plane or created in the iteration
    created = {t.id for s in walk_no_nested(lp) if isinstance(s, ast.Assign) for tt in s.targets for t in (tt.elts if isinstance(tt, ast.Tuple) else [tt]) if isinstance(t, ast.Name)}
    for s in walk_no_nested(lp):
        tg = s.targets if isinstance(s, ast.Assign) else [s.target] if isinstance(s, ast.AugAssign) else []
        for t in tg:
            if isinstance(t, ast.Subscript):
                base = t.value
                while isinstance(base, ast.Subscript):
                    base = base.value
                nm = canon(base)
                first = t.slice.elts[0] if isinstance(t.slice, ast.Tuple) else t.slice
                ok = nm in created or (isinstance(first, ast.Name) and first.id == v)
                ctx.ob("C11.PLANES", CB, s, f"store `{canon(t)[:60]}` in the plane loop", ok, detail="each disparity plane must be aggregated independently: a store that is not keyed by the plane mixes planes", expected=f"first index {v}, or an array created in the iteration")
            elif isinstance(t, ast.Name) and isinstance(s, ast.AugAssign) and t.id not in created:
                ctx.ob("C11.PLANES", CB, s, f"`{src(s)[:60]}` accumulates across planes", False)
    for nm in ("step1", "step2", "step3", "step4"):
        ds = [x for x in d.all_defs(nm) if any(a is lp for a in _anc(x[0]))]
        ctx.ob("C11.PLANES", CB, ds[0][0] if ds else lp, f"{nm} recomputed for every plane", len(ds) == 1, detail="an integral image hoisted out of the loop is shared by all planes")
    s1 = [c for c in calls_in(lp) if (dotted(c.func) or "") == "cbca_step_1"]
    ctx.ob("C11.PLANES", CB, s1[0] if s1 else lp, f"{src(s1[0]) if s1 else 'cbca_step_1'}", len(s1) == 1 and canon(s1[0].args[0]) == f"cv_data[(::, ::, {v})]", expected=f"cbca_step_1(cv_data[:, :, {v}])")
    # sub-pixel image selector and correspondence
    ir = [x for x in d.all_defs("i_right")]
    want = f"int((disparity_range[{v}] % 1) * cv.attrs['subpixel'])"
    ctx.ob("C11.SUBPIX", CB, ir[0][0] if ir else lp, f"i_right = {canon(ir[0][1]) if ir else '?'}", len(ir) == 1 and canon(ir[0][1]) == canon(_e(want)), expected=want, detail="the shifted right image used at a fractional disparity d is number frac(d) * subpix, with Python's modulo (-0.25 % 1 = 0.75)")
    rc = d.all_defs("range_col_right")
    ctx.ob("C11.PAIRING", CB, rc[0][0] if rc else lp, f"range_col_right = {canon(rc[0][1]) if rc else '?'}", bool(rc) and poly(rc[0][1]) == poly(_e(f"range_col + disparity_range[{v}]")), expected=f"range_col + disparity_range[{v}]", detail="the right-image arm is taken at column + disparity")
    vi = d.all_defs("valid_index")
    okv = bool(vi) and isinstance(vi[0][1], ast.Call) and equivalent(boolform(vi[0][1].args[0]), boolform(_e("(range_col_right >= 0) & (range_col_right < cross_right[i_right].shape[1])"))) is None
    ctx.ob("C11.PAIRING", CB, vi[0][0] if vi else lp, f"valid_index = {canon(vi[0][1])[:110] if vi else '?'}", okv, expected="0 <= column + disparity < width of the (shifted) right image")
    for q in ("cbca_step_2", "cbca_step_4"):
        cs = [c for c in calls_in(lp) if (dotted(c.func) or "") == q]
        tail = [canon(a) for a in cs[0].args][-4:] if cs else []
        ok = tail == ["cross_left", "cross_right[i_right]", "range_col[valid_index]", "range_col_right[valid_index].astype(int)"]
        ctx.ob("C11.PAIRING", CB, cs[0] if cs else lp, f"{q}(..., {', '.join(tail)})", ok, expected="cross_left, cross_right[i_right], range_col[valid_index], range_col_right[valid_index].astype(int)", detail="left arms indexed by the pixel's column, right arms by the corresponding column of the right image selected for this sub-pixel plane")
    # normalisation
    seq = [canon_stmt(s) for s in lp.body if isinstance(s, ast.AugAssign)]
    ok = seq[-3:] == ["sum4 Add 1", f"agg[({v}, ::, ::)] Add np.swapaxes(step4, 0, 1)", f"agg[({v}, ::, ::)] Div np.swapaxes(sum4, 0, 1)"]
    ctx.ob("C11.NAN", CB, lp, f"normalisation: {seq[-3:]}", ok, expected="sum4 += 1; agg[dsp] += step4; agg[dsp] /= sum4", detail="the sum over the region is divided by the number of pixels of the region, anchor included (so the divisor is never 0)")
    cm = d.all_defs("cmax")
    ctx.ob("C11.CMAX", CB, cm[0][0] if cm else f, f"cmax = {canon(cm[0][1]) if cm else '?'}", bool(cm) and poly(cm[0][1]) == poly(_e("cv.attrs['cmax'] * ((self._cbca_distance * 2) - 1) ** 2")), expected="cmax * (2 * cbca_distance - 1)^2")


def rule_prefilter(ctx: Ctx) -> None:
    tree = ctx.tree
    f = tree.func(CB, f"{K}.computes_cross_supports")
    d = Defs(f)
    cs = [c for c in calls_in(f) if (dotted(c.func) or "") == "cross_support"]
    ctx.floor("C11.PREFILTER(cross_support calls)", len(cs), 4)
    for c in cs:
        ok = [canon(a) for a in c.args[1:]] == ["self._cbca_distance", "self._cbca_intensity"]
        ctx.ob("C11.PREFILTER", CB, c, f"cross_support({canon(c.args[0])[:40]}, {', '.join(canon(a) for a in c.args[1:])})", ok, expected="(image, self._cbca_distance, self._cbca_intensity)", detail="every cross support (left, right, with or without window offset, every sub-pixel shift) must use the configured distance and intensity: the class defaults are another value")
    fl = [c for c in calls_in(f) if (dotted(c.func) or "") == "AbstractFilter"]
    ok = len(fl) == 1 and canon(next((k.value for k in fl[0].keywords if k.arg == "cfg"), None)) == "{'filter_method': 'median', 'filter_size': 3}"
    ctx.ob("C11.PREFILTER", CB, fl[0] if fl else f, f"{src(fl[0]) if fl else '?'}", ok, expected="3x3 median filter")
    for nm, dsn in (("left_masked", "img_left"), ("right_masked", "img")):
        ds = d.all_defs(nm)
        ok = bool(ds) and canon(ds[0][1]) == f"np.copy({dsn}['im'].data)"
        ctx.ob("C11.PREFILTER", CB, ds[0][0] if ds else f, f"{nm} = {canon(ds[0][1]) if ds else '?'}", ok, expected=f"np.copy({dsn}['im'].data)", detail="the images are masked on copies")
        med = [x for x in ds if canon(x[1]) == f"filter_.median_filter({nm})"]
        ctx.ob("C11.PREFILTER", CB, med[0][0] if med else f, f"{nm} goes through the 3x3 median filter", len(med) == 1)
        nn = [c for c in calls_in(f) if (dotted(c.func) or "") == "np.nan_to_num" and canon(c.args[0]) == nm]
        okn = len(nn) == 1 and canon(next((k.value for k in nn[0].keywords if k.arg == "nan"), None)) == "np.inf" and (not med or nn[0].lineno > med[0][0].lineno)
        ctx.ob("C11.PREFILTER", CB, nn[0] if nn else f, f"{nm}: NaN -> inf after the median: {src(nn[0]) if nn else '?'}", okn, expected=f"np.nan_to_num({nm}, copy=False, nan=np.inf)")
    mk = [s for s in walk_no_nested(f) if isinstance(s, ast.Assign) and isinstance(s.targets[0], ast.Subscript) and (dotted(s.value) or "") in ("np.nan", "numpy.nan")]
    for s in mk:
        idx = s.targets[0].slice
        pred = idx.args[0] if isinstance(idx, ast.Call) else idx
        t = canon(pred)
        ok = "['msk'].data" in t and ".attrs['valid_pixels']" in t and isinstance(pred, ast.Compare) and isinstance(pred.ops[0], ast.NotEq)
        ctx.ob("C11.PREFILTER", CB, s, f"masked pixels -> NaN: {src(s)[:110]}", ok, expected="[msk != valid_pixels] = np.nan", detail="arms stop at masked pixels: every pixel that is not valid (invalid or no-data) must be masked before the median")
    sh = [c for c in calls_in(f) if (dotted(c.func) or "") == "shift_right_img"]
    ctx.ob("C11.PREFILTER", CB, sh[0] if sh else f, f"{src(sh[0]) if sh else '?'}", len(sh) == 1 and [canon(a) for a in sh[0].args] == ["img_right", "subpix"], expected="shift_right_img(img_right, subpix)")
    rets = [r for r in walk_no_nested(f) if isinstance(r, ast.Return)]
    ctx.ob("C11.PREFILTER", CB, rets[0] if rets else f, f"returns {canon(rets[0].value) if rets else '?'}", bool(rets) and canon(rets[0].value) == "(cross_left, cross_right)")
    check_as_strided(ctx, "C11.AS-STRIDED", CB, f"{K}.computes_cross_supports")


def rule_stateless(ctx: Ctx, rid: str = "C11.STATELESS", files=None) -> int:
    """Run-time methods of step classes never assign attributes of self: the same step object is applied to the
    left then to the right data (and to every scale); state kept on it leaks from one application into the next."""
    tree = ctx.tree
    prog = program(tree)
    n = 0
    for (rel, q), s in sorted(prog.summaries.items()):
        if files is not None and rel not in files:
            continue
        if "." not in q or rel.endswith("state_machine.py") or rel.startswith("pandora/margins"):
            continue
        cls, _, m = q.rpartition(".")
        if m in ("__init__", "instantiate_class", "check_conf", "check_config", "__new__", "__set_name__", "__post_init__") or "." in cls:
            continue
        ws = [w for w in s.writes if w.root.startswith("self.") and not w.via]
        n += 1
        ctx.ob(rid, rel, tree.func(rel, q), f"{q} keeps no state on the step object", not ws, detail=f"`{ws[0].text}` stores on self at run time: the second application of the same object (right image, next scale, next run) sees what the first one left" if ws else "", expected="attributes of step objects are only assigned by __init__ / check_conf")
    return n


def canon_stmt(s: ast.stmt) -> str:
    if isinstance(s, ast.AugAssign):
        return f"{canon(s.target)} {type(s.op).__name__} {canon(s.value)}"
    return src(s)


def _anc(node):
    cur = getattr(node, "_parent", None)
    while cur is not None:
        yield cur
        cur = getattr(cur, "_parent", None)


def run(ctx: Ctx) -> None:
    rule_arms(ctx)
    rule_pairing(ctx)
    rule_driver(ctx)
    rule_prefilter(ctx)
    from ..rules_par import rule_ieee

    ctx.floor("C11.IEEE", rule_ieee(ctx, "C11.IEEE", files=(CB,)), 4)
    check_function_effects(ctx, "C11.EFFECTS", f"{CB}::{K}.cost_volume_aggregation")
    n = rule_stateless(ctx, "C11.STATELESS", files=[CB])
    ctx.floor("C11.STATELESS", n, 2)


SPEC = PropSpec(
    pid="C11",
    title="Cross-based aggregation averages costs over the combined support region (structural clauses)",
    explanation=(
        "Thin claim: decides the structural supports of the cbca statement, not the integral-image index arithmetic. cross_support: the four arm blocks are compared with one template instantiated per (axis, "
        "direction): scan range p-+1 .. p-+(len_arms-1) clipped at the image edge, break on |I(anchor) - I(scanned)| >= intensity (boolean equivalence), one-pixel minimum `max(len, 1 * edge test * "
        "isfinite(neighbour))`, slots 0..3 = left, right, top, bottom, only for finite pixels. Steps 2 and 4 take min(left-image arm, right-image arm) of the documented slot with left arrays indexed by the pixel's "
        "column and right arrays by column + disparity, and difference the integral images over [p - arm - 1, p + arm] (canonical polynomials). The driver re-injects NaN with `agg += cv; agg *= 0`, step 1 skips NaN, "
        "every array written in the plane loop is keyed by the plane or created in the iteration, the normalisation divides by support + 1, the sub-pixel selector is int((d % 1) * subpix). The pre-filter masks "
        "non-valid pixels with NaN on copies, applies the 3x3 median, turns NaN into inf, and every cross_support call uses the configured distance and intensity. Effect summary (images untouched) and "
        "statelessness of the step object (it is applied to the left then the right data)."
    ),
    rule_text="instances: 4 arm blocks (range, break test, counter, minimum, start), the arm pairings and integral differences of steps 2 and 4, every store of the plane loop, 4 cross_support call sites, the masking / median / nan_to_num statements",
    run=run,
    not_decided=["the integral-image index arithmetic for runtime arm values (sentinel row/column, bounds)", "that the result equals the mean over the documented region (numeric)"],
    trusted=["numpy: NaN * 0 is NaN; np.nan_to_num(copy=False) works in place on the copy"],
)

MUTANTS = [
    {"id": "right-arm-clamp", "file": CB, "old": "for right in range(row + 1, min(row + len_arms, n_row_)):", "new": "for right in range(row + 1, min(row + len_arms, n_row_ - 1)):"},
    {"id": "bottom-arm-gt", "file": CB, "old": "                    if abs(image[col, row] - image[bot, row]) >= intensity:", "new": "                    if abs(image[col, row] - image[bot, row]) > intensity:"},
    {"id": "step2-slot-2", "file": CB, "old": "                cross_left[col, range_col[row], 1],\n                cross_right[col, range_col_right[row], 1],", "new": "                cross_left[col, range_col[row], 2],\n                cross_right[col, range_col_right[row], 1],"},
    {"id": "cross_right-by-left-column", "file": CB, "old": "                cross_left[col, range_col[row], 3],\n                cross_right[col, range_col_right[row], 3],", "new": "                cross_left[col, range_col[row], 3],\n                cross_right[col, range_col[row], 3],"},
    {"id": "delete-agg-times-0", "file": CB, "old": "        agg *= 0\n", "new": ""},
    {"id": "delete-sum4-plus-1", "file": CB, "old": "            sum4 += 1\n", "new": ""},
    {"id": "hoist-step1", "edits": [(CB, "        for dsp in range(nb_disp):\n            i_right", "        step1 = cbca_step_1(cv_data[:, :, 0])\n        for dsp in range(nb_disp):\n            i_right"), (CB, "            step1 = cbca_step_1(cv_data[:, :, dsp])\n", "")]},
    {"id": "abs-modulo", "file": CB, "old": 'i_right = int((disparity_range[dsp] % 1) * cv.attrs["subpixel"])', "new": 'i_right = int((abs(disparity_range[dsp]) % 1) * cv.attrs["subpixel"])'},
    {"id": "default-distance-at-one-site", "file": CB, "old": "                        right_masked[offset:-offset, offset:-offset],\n                        self._cbca_distance,", "new": "                        right_masked[offset:-offset, offset:-offset],\n                        self._CBCA_DISTANCE,"},
    {"id": "up-arm-one-longer", "file": CB, "old": "for up_col in range(col - 1, max(col - len_arms, -1), -1):", "new": "for up_col in range(col - 1, max(col - len_arms - 1, -1), -1):"},
    {"id": "memoised-supports", "edits": [(CB, "        cross_left, cross_right = self.computes_cross_supports(img_left, img_right, cv)\n", "        key = (img_left[\"im\"].shape, img_right[\"im\"].shape)\n        if getattr(self, \"_supports_key\", None) != key:\n            self._supports = self.computes_cross_supports(img_left, img_right, cv)\n            self._supports_key = key\n        cross_left, cross_right = self._supports\n")]},
    {"id": "mask-left-in-place", "file": CB, "old": 'left_masked = np.copy(img_left["im"].data)', "new": 'left_masked = img_left["im"].data'},
    {"id": "no-median-on-right", "file": CB, "old": "            right_masked = filter_.median_filter(right_masked)  # type: ignore\n", "new": ""},
    {"id": "eq-reorder-arm-blocks", "kind": "equiv", "file": CB, "old": "                left_len = 0\n                left = max(row - 1, 0)\n", "new": "                left = max(row - 1, 0)\n                left_len = 0\n"},
    {"id": "arm-scan-variable-preset-to-the-pixel-itself", "file": CB, "old": "                left = max(row - 1, 0)\n", "new": "                left = row\n"},
    {"id": "eq-edge-test-rewritten", "kind": "equiv", "file": CB, "old": "1 * (row >= 1) * np.isfinite(image[col, left])", "new": "1 * (row > 0) * np.isfinite(image[col, left])"},
]
