"""C19 -- saved products equal the computed ones and the saved configuration replays (writer table, writer/reader agreement)."""
from __future__ import annotations

import ast
import copy
from typing import Dict, List, Optional

from ..astx import calls_in, const_eval, dotted, enclosing_loops, guards_of, kwarg, module_assign, src, stmts_of, walk_no_nested
from ..core import AnalysisError, Ctx, PropSpec
from ..defuse import Defs
from ..sym import boolform, canon, equivalent

COM = "pandora/common.py"
OTDF = "pandora/output_tree_design.py"
INIT = "pandora/__init__.py"

# file -> (variable, dtype keyword expected (None = default float32), band names?, presence guard?)
TABLE = {
    "disparity.tif": ("disparity_map", None, False, False),
    "confidence_measure.tif": ("confidence_measure", None, True, True),
    "validity_mask.tif": ("validity_mask", "rasterio.dtypes.uint16", False, False),
}


class _Swap(ast.NodeTransformer):
    def visit_Name(self, n: ast.Name):
        if n.id == "left":
            return ast.copy_location(ast.Name(id="right", ctx=n.ctx), n)
        if n.id == "right":
            return ast.copy_location(ast.Name(id="left", ctx=n.ctx), n)
        return n

    def visit_Constant(self, n: ast.Constant):
        if isinstance(n.value, str) and n.value.startswith("left_"):
            return ast.copy_location(ast.Constant(value="right_" + n.value[5:]), n)
        if isinstance(n.value, str) and n.value.startswith("right_"):
            return ast.copy_location(ast.Constant(value="left_" + n.value[6:]), n)
        return n


def run(ctx: Ctx) -> None:
    tree = ctx.tree
    otd_node = module_assign(tree, OTDF, "OTD")
    try:
        otd = const_eval(otd_node) if otd_node is not None else None
    except Exception:  # pylint: disable=broad-except
        otd = None
    if not isinstance(otd, dict):
        raise AnalysisError("output_tree_design.OTD is no longer a dict literal")
    for side in ("left", "right"):
        for f in TABLE:
            ctx.ob("C19.WRITER-TABLE", OTDF, otd_node, f"OTD has '{side}_{f}' -> {otd.get(side + '_' + f)!r}", otd.get(f"{side}_{f}") == ".", expected="'.'", detail="the documented output files live at the root of the output directory")
    ctx.ob("C19.WRITER-TABLE", OTDF, otd_node, f"OTD['config.json'] = {otd.get('config.json')!r}", otd.get("config.json") == "./cfg", expected="./cfg")
    gp = tree.func(OTDF, "get_out_file_path")
    rr = [n for n in walk_no_nested(gp) if isinstance(n, ast.Return)]
    ctx.ob("C19.WRITER-TABLE", OTDF, rr[0] if rr else gp, f"get_out_file_path -> {canon(rr[0].value) if rr else '?'}", bool(rr) and canon(rr[0].value) == "os.path.join(get_out_dir(key), key)", expected="os.path.join(get_out_dir(key), key)")

    sr = tree.func(COM, "save_results")
    lp, rp, op = [a.arg for a in sr.args.args][:3]
    calls = [c for c in calls_in(sr) if (dotted(c.func) or "") == "write_data_array"]
    ctx.floor("C19.WRITER-TABLE(calls)", len(calls), 4)
    seen = set()
    for c in calls:
        arr = c.args[0] if c.args else kwarg(c, "data_array")
        fn = c.args[1] if len(c.args) > 1 else kwarg(c, "filename")
        key = None
        for n in ast.walk(fn):
            if isinstance(n, ast.Constant) and isinstance(n.value, str) and n.value.endswith(".tif"):
                key = n.value
        side = "left" if key and key.startswith("left_") else "right" if key and key.startswith("right_") else None
        base = key[len(side) + 1 :] if side else None
        seen.add(key)
        if base not in TABLE:
            ctx.ob("C19.WRITER-TABLE", COM, c, f"writes {key!r}", False, detail="file name outside the documented output table")
            continue
        var, dtype, bands, presence = TABLE[base]
        ds = lp if side == "left" else rp
        ok_arr = canon(arr) == f"{ds}['{var}']"
        ok_path = canon(fn) == f"os.path.join({op}, get_out_file_path('{key}'))" and key in otd
        dk = kwarg(c, "dtype") if len(c.args) < 3 else c.args[2]
        ok_dtype = (dk is None and dtype is None) or (dk is not None and dtype is not None and canon(dk) == dtype) or (dk is not None and dtype is None and canon(dk) == "rasterio.dtypes.float32")
        ok_geo = canon(kwarg(c, "crs")) == f"{ds}.attrs['crs']" and canon(kwarg(c, "transform")) == f"{ds}.attrs['transform']"
        bn = kwarg(c, "band_names")
        ok_bands = (bn is None and not bands) or (bn is not None and bands and canon(bn) in (f"{ds}['{var}']['indicator'].data", f"{ds}['{var}'].coords['indicator'].data", f"{ds}.coords['indicator'].data"))
        ctx.ob("C19.WRITER-TABLE", COM, c, f"{key}: array {canon(arr)}", ok_arr, expected=f"{ds}['{var}']", detail="the file must hold the product it is named after, of the dataset it is named after")
        ctx.ob("C19.WRITER-TABLE", COM, c, f"{key}: path {canon(fn)[:90]}", ok_path, expected=f"os.path.join({op}, get_out_file_path('{key}'))")
        ctx.ob("C19.WRITER-TABLE", COM, c, f"{key}: dtype {canon(dk) if dk is not None else 'default'}", ok_dtype, expected=dtype or "float32 (default)", detail="disparity and confidence are float32, the validity mask uint16")
        ctx.ob("C19.WRITER-TABLE", COM, c, f"{key}: georeferencing crs={canon(kwarg(c, 'crs'))} transform={canon(kwarg(c, 'transform'))}", ok_geo, expected=f"{ds}.attrs['crs'], {ds}.attrs['transform']", detail="each product carries the georeferencing of its own dataset")
        ctx.ob("C19.WRITER-TABLE", COM, c, f"{key}: band names {canon(bn) if bn is not None else 'none'}", ok_bands, expected=f"{ds}['{var}']['indicator'].data" if bands else "none", detail="one band per indicator, named after it")
        gs = [(canon(t), pol) for t, pol in guards_of(c, stop=sr)]
        want = []
        if presence:
            want.append((f"{{'{var}' in {ds}}}", True))
        if side == "right":
            want.append((canon(ast.parse(f"len({rp}.sizes) != 0", mode="eval").body), True))
        alt = [(g[0].replace(f" in {ds}}}", f" in {ds}.data_vars}}"), g[1]) for g in want]
        ctx.ob("C19.WRITER-TABLE", COM, c, f"{key}: written under guards {gs}", gs == want or gs == alt, expected=str(want), detail="left products are always written, confidence iff bands exist, right products iff the right dataset is not empty (i.e. a validation step ran)")
    for side in ("left", "right"):
        for f in TABLE:
            ctx.ob("C19.WRITER-TABLE", COM, sr, f"{side}_{f} is written", f"{side}_{f}" in seen, detail="a documented output file is no longer written")
    # right block == swap(left block)
    body = stmts_of(sr)
    rb = [s for s in body if isinstance(s, ast.If) and rp in src(s.test)]
    if rb:
        idx = body.index(rb[0])
        left_stmts = [s for s in body[:idx] if any((dotted(c.func) or "") == "write_data_array" for c in calls_in(s))]
        a = [canon_stmt(_Swap().visit(copy.deepcopy(s))) for s in left_stmts]
        b = [canon_stmt(s) for s in rb[0].body]
        ctx.ob("C19.SYMMETRY", COM, rb[0], "the right block of save_results is the left block with left <-> right", a == b, expected="; ".join(a)[:300], detail="left and right products must be saved alike")

    # ---- write_data_array
    w = tree.func(COM, "write_data_array")
    da = w.args.args[0].arg
    dflt = dict(zip([a.arg for a in w.args.args][-len(w.args.defaults) :], w.args.defaults))
    ctx.ob("C19.WRITE", COM, w, f"write_data_array default dtype = {canon(dflt.get('dtype'))}", canon(dflt.get("dtype")) == "rasterio.dtypes.float32", expected="rasterio.dtypes.float32")
    top = [s for s in stmts_of(w) if isinstance(s, ast.If)]
    if not top:
        raise AnalysisError("write_data_array: 2D/3D branch not found")
    is2d = any(equivalent(boolform(top[0].test), boolform(ast.parse(t, mode="eval").body)) is None for t in (f"len({da}.shape) == 2", f"{da}.ndim == 2", f"{da}.data.ndim == 2", f"len({da}.data.shape) == 2"))
    ctx.ob("C19.WRITE", COM, top[0], f"branch on {src(top[0].test)}", is2d, expected=f"len({da}.shape) == 2 (the rank of the array as given)", detail="the single-band writer sets no band description: it may be chosen only for a 2-D array, never for a (rows, cols, 1) stack of one named indicator (e.g. after a squeeze)")
    for label, blk, nd in (("2D", top[0].body, 2), ("3D", top[0].orelse, 3)):
        sh = [s for s in blk if isinstance(s, ast.Assign) and isinstance(s.targets[0], ast.Tuple) and canon(s.value) == f"{da}.shape"]
        names = [canon(e) for e in sh[0].targets[0].elts] if sh else []
        oc = [c for s in blk for c in calls_in(s) if (dotted(c.func) or "") == "rasterio_open"]
        ok = len(names) == nd and bool(oc)
        if ok:
            c = oc[0]
            kw = {k.arg: canon(k.value) for k in c.keywords}
            ok = kw.get("width") == names[1] and kw.get("height") == names[0] and kw.get("count") == ("1" if nd == 2 else names[2]) and kw.get("dtype") == "dtype" and kw.get("crs") == "crs" and kw.get("transform") == "transform" and kw.get("driver") == "'GTiff'"
        ctx.ob("C19.WRITE", COM, oc[0] if oc else top[0], f"{label}: raster opened with width/height/count/dtype/crs/transform = {names}", ok, expected="height=rows, width=cols, count=1 | number of planes, dtype/crs/transform as given", detail="the file geometry must be the array's (rows, cols[, planes])")
        wr = [c for s in blk for c in calls_in(s) if isinstance(c.func, ast.Attribute) and c.func.attr == "write"]
        if nd == 2:
            okw = len(wr) == 1 and [canon(a) for a in wr[0].args] == [f"{da}.data", "1"]
            ctx.ob("C19.WRITE", COM, wr[0] if wr else top[0], f"2D: {src(wr[0]) if wr else '?'}", okw, expected=f"write({da}.data, 1)")
        else:
            okw = False
            det = ""
            if len(wr) == 1 and enclosing_loops(wr[0]) and len(names) == 3 and len(wr[0].args) >= 2:
                lp_ = enclosing_loops(wr[0])[0]
                v = lp_.target.id if isinstance(lp_.target, ast.Name) else "?"
                it = canon(lp_.iter)
                a0, a1 = [canon(a) for a in wr[0].args][:2]
                if it == f"range(1, 1 + {names[2]})" and a0 == f"{da}.data[(::, ::, -1 + {v})]" and a1 == v:
                    okw = True
                if it in (f"range({names[2]})", f"range(0, {names[2]})") and a0 == f"{da}.data[(::, ::, {v})]" and a1 == f"1 + {v}":
                    okw = True
                det = f"for {v} in {it}: write({a0}, {a1})"
            elif len(wr) == 1:
                a0 = canon(wr[0].args[0])
                okw = a0 in (f"np.moveaxis({da}.data, 2, 0)", f"{da}.data.transpose(2, 0, 1)", f"np.transpose({da}.data, (2, 0, 1))", f"{da}.transpose('indicator', 'row', 'col').data") and len(wr[0].args) == 1
                det = src(wr[0])
            ctx.ob("C19.WRITE", COM, wr[0] if wr else top[0], f"3D: {det[:140]}", okw, expected="band k of the file = plane k-1 of the array (one write per plane, or a (2,0,1) transpose)", detail="each file band must hold the pixels of the indicator plane of the same rank: a reshape is not a transpose")
            ds_ = [s for s in ast.walk(ast.Module(body=list(blk), type_ignores=[])) if isinstance(s, ast.Assign) and isinstance(s.targets[0], ast.Attribute) and s.targets[0].attr == "descriptions"]
            okd = len(ds_) == 1 and canon(ds_[0].value) == "band_names"
            ctx.ob("C19.WRITE", COM, ds_[0] if ds_ else top[0], f"3D: {src(ds_[0]) if ds_ else 'descriptions'}", okd, expected="source_ds.descriptions = band_names")

    # ---- configuration
    sc = tree.func(COM, "save_config")
    dumps = [c for c in calls_in(sc) if (dotted(c.func) or "") == "json.dump"]
    okj = len(dumps) == 1 and canon(dumps[0].args[0]) == sc.args.args[1].arg and not any(k.arg in ("sort_keys", "skipkeys", "default") for k in dumps[0].keywords)
    ctx.ob("C19.CONFIG", COM, dumps[0] if dumps else sc, f"save_config: {src(dumps[0]) if dumps else '?'}", okj, expected="json.dump(user_cfg, file_, indent=...) keeping the key order", detail="the pipeline section is order-sensitive: re-ordering keys (sort_keys) makes the saved configuration spell another, usually illegal, pipeline")
    op_ = [c for c in calls_in(sc) if (dotted(c.func) or "") == "open"]
    okp = len(op_) == 1 and canon(op_[0].args[0]) == f"os.path.join({sc.args.args[0].arg}, get_out_file_path('config.json'))"
    ctx.ob("C19.CONFIG", COM, op_[0] if op_ else sc, f"save_config writes {canon(op_[0].args[0]) if op_ else '?'}", okp, expected="<output>/cfg/config.json")
    mn = tree.func(INIT, "main")
    ck = [c for c in calls_in(mn) if (dotted(c.func) or "") == "check_conf"]
    sv = [c for c in calls_in(mn) if (dotted(c.func) or "").endswith("save_config")]
    sres = [c for c in calls_in(mn) if (dotted(c.func) or "").endswith("save_results")]
    if not ck or not sv:
        raise AnalysisError("main: check_conf / save_config calls not found")
    cfgname = None
    par = getattr(ck[0], "_parent", None)
    if isinstance(par, ast.Assign) and isinstance(par.targets[0], ast.Name):
        cfgname = par.targets[0].id
    ctx.ob("C19.CONFIG", INIT, sv[0], f"main: {src(sv[0])}", [canon(a) for a in sv[0].args] == ["output", cfgname], expected=f"save_config(output, {cfgname})", detail="the saved configuration must be the completed (checked) one")
    ctx.ob("C19.CONFIG", INIT, sres[0] if sres else mn, f"main: {src(sres[0]) if sres else 'save_results missing'}", bool(sres) and [canon(a) for a in sres[0].args] == ["left", "right", "output"], expected="save_results(left, right, output)")
    rn = [s for s in walk_no_nested(mn) if isinstance(s, ast.Assign) and isinstance(s.value, ast.Call) and (dotted(s.value.func) or "") == "run"]
    okr = bool(rn) and isinstance(rn[0].targets[0], ast.Tuple) and [canon(e) for e in rn[0].targets[0].elts] == ["left", "right"]
    ctx.ob("C19.CONFIG", INIT, rn[0] if rn else mn, f"main: {src(rn[0])[:90] if rn else '?'}", okr, expected="left, right = run(...)")
    ms = [s for s in walk_no_nested(mn) if isinstance(s, ast.Assign) and canon(s.targets[0]) == f"{cfgname}['margins']"]
    ctx.ob("C19.CONFIG", INIT, ms[0] if ms else mn, f"main: {src(ms[0]) if ms else 'margins not stored'} before save_config", len(ms) == 1 and canon(ms[0].value) == "pandora_machine.margins.to_dict()" and ms[0].lineno < sv[0].lineno, expected=f"{cfgname}['margins'] = pandora_machine.margins.to_dict() before saving", detail="cfg/config.json records the completed configuration plus the margins")
    # REPLAY: what main writes into the configuration it saves must be readable back
    for st in walk_no_nested(mn):
        tgts = []
        if isinstance(st, ast.Assign):
            tgts = st.targets
        elif isinstance(st, ast.AugAssign):
            tgts = [st.target]
        for t in tgts:
            if isinstance(t, ast.Subscript):
                root = t
                keys = []
                while isinstance(root, ast.Subscript):
                    keys.append(root.slice)
                    root = root.value
                if isinstance(root, ast.Name) and root.id == cfgname and ck[0].lineno < st.lineno < sv[0].lineno:
                    keys = [k.value if isinstance(k, ast.Constant) else None for k in reversed(keys)]
                    ok = keys == ["margins"]
                    ctx.ob("C19.REPLAY", INIT, st, f"main stores {cfgname}{keys} = {canon(st.value)[:80]} before saving", ok, expected="only the top-level 'margins' key is added to the checked configuration", detail="a value written under 'input' or 'pipeline' is read back by the input/pipeline schemas on replay: a derived right interval [min, max] is refused by the schema selected for an integer left interval (right disp must be None)")
        if isinstance(st, ast.Expr) and isinstance(st.value, ast.Call) and isinstance(st.value.func, ast.Attribute) and st.value.func.attr in ("update", "setdefault", "pop") and cfgname and canon(st.value.func.value).startswith(cfgname) and ck[0].lineno < st.lineno < sv[0].lineno:
            ctx.ob("C19.REPLAY", INIT, st, f"main mutates the configuration: {src(st)[:90]}", False, detail="the checked configuration is modified between checking and saving")
    # aliasing: create_dataset_from_inputs receives cfg sections -- it must not modify them (effect summary)
    from ..effects import program

    s = program(tree).summary("pandora/img_tools.py", "create_dataset_from_inputs")
    bad = [w_ for w_ in s.writes if w_.root == "input_config"]
    ctx.ob("C19.REPLAY", "pandora/img_tools.py", tree.func("pandora/img_tools.py", "create_dataset_from_inputs"), "create_dataset_from_inputs does not modify the configuration section it is given", not bad, detail=f"`{bad[0].text}`" if bad else "")


def canon_stmt(st: ast.stmt) -> str:
    if isinstance(st, ast.Expr):
        return canon(st.value)
    if isinstance(st, ast.If):
        return f"if {canon(st.test)}: [" + "; ".join(canon_stmt(s) for s in st.body) + "]"
    return src(st)


SPEC = PropSpec(
    pid="C19",
    title="Saved products equal the computed ones and the saved configuration replays (writer table, writer/reader agreement)",
    explanation=(
        "Decides the writer table and the writer/reader agreement, not GDAL's round trip. Every write_data_array call of save_results is checked against the documented output table: "
        "file name (a key of OTD) <-> variable of the dataset of the same side <-> dtype (float32 default / uint16 for the mask) <-> crs and transform from that same dataset's attributes <-> "
        "band names = the array's indicator coordinate <-> guards (confidence iff present, right files iff the right dataset is not empty); the right block equals the left block under left<->right. "
        "write_data_array opens the raster with height=rows, width=cols, count=planes and writes plane k-1 into band k (or an explicit (2,0,1) transpose) and sets the band descriptions. "
        "save_config dumps the given configuration with its key order to <output>/cfg/config.json; main saves the checked configuration, and between check_conf and save_config only the top-level "
        "'margins' key is added (anything written under 'input'/'pipeline' would be read back by the schemas on replay); create_dataset_from_inputs has no effect on the section it is given."
    ),
    rule_text="instances: the 6 write_data_array calls, both branches of write_data_array, json.dump / open in save_config, every store into the checked configuration in main",
    run=run,
    not_decided=["that GDAL/rasterio round-trips float32 / uint16 rasters and NaN value for value", "that replaying the saved configuration reproduces the same rasters (follows from determinism, C18, plus the agreement decided here)"],
    trusted=["rasterio: write(array2d, k) writes band k; descriptions sets band names", "json.dump preserves dict order unless sort_keys"],
)

MUTANTS = [
    {"id": "mask-as-float32", "file": COM, "old": '        os.path.join(output, get_out_file_path("left_validity_mask.tif")),\n        dtype=rasterio.dtypes.uint16,\n', "new": '        os.path.join(output, get_out_file_path("left_validity_mask.tif")),\n'},
    {"id": "right-block-unguarded", "file": COM, "old": "    if len(right.sizes) != 0:\n", "new": "    if True:\n"},
    {"id": "right-disparity-left-crs", "file": COM, "old": '            os.path.join(output, get_out_file_path("right_disparity.tif")),\n            crs=right.attrs["crs"],', "new": '            os.path.join(output, get_out_file_path("right_disparity.tif")),\n            crs=left.attrs["crs"],'},
    {"id": "right-mask-left-transform", "file": COM, "old": '            dtype=rasterio.dtypes.uint16,\n            crs=right.attrs["crs"],\n            transform=right.attrs["transform"],', "new": '            dtype=rasterio.dtypes.uint16,\n            crs=left.attrs["crs"],\n            transform=left.attrs["transform"],'},
    {"id": "band-names-other-dataset", "file": COM, "old": 'band_names=right["confidence_measure"]["indicator"].data', "new": 'band_names=left["confidence_measure"]["indicator"].data'},
    {"id": "margins-after-save", "file": INIT, "old": '    cfg["margins"] = pandora_machine.margins.to_dict()\n    # Save the configuration\n    common.save_config(output, cfg)\n', "new": '    # Save the configuration\n    common.save_config(output, cfg)\n    cfg["margins"] = pandora_machine.margins.to_dict()\n'},
    {"id": "file-not-in-otd", "file": COM, "old": 'get_out_file_path("left_disparity.tif")', "new": 'get_out_file_path("left_disp.tif")'},
    {"id": "store-derived-interval-in-cfg", "file": INIT, "old": "    img_right = create_dataset_from_inputs(input_config=input_right)\n", "new": '    cfg["input"]["right"]["disp"] = input_right["disp"]\n    img_right = create_dataset_from_inputs(input_config=input_right)\n'},
    {"id": "bands-by-reshape", "file": COM, "old": "            for dsp in range(1, depth + 1):\n                source_ds.write(data_array.data[:, :, dsp - 1], dsp)\n", "new": "            source_ds.write(data_array.data.reshape(depth, row, col))\n"},
    {"id": "sort-keys", "file": COM, "old": "json.dump(user_cfg, file_, indent=2)", "new": "json.dump(user_cfg, file_, indent=2, sort_keys=True)"},
    {"id": "width-height-swapped", "file": COM, "old": "            width=col,\n            height=row,\n            count=1,", "new": "            width=row,\n            height=col,\n            count=1,"},
    {"id": "band-off-by-one", "file": COM, "old": "source_ds.write(data_array.data[:, :, dsp - 1], dsp)", "new": "source_ds.write(data_array.data[:, :, dsp - 1], depth + 1 - dsp)"},
    {"id": "squeeze-before-rank-test", "edits": [(COM, "    if len(data_array.shape) == 2:\n        row, col = data_array.shape\n", "    data = np.squeeze(data_array.data)\n    if data.ndim == 2:\n        row, col = data.shape\n")]},
    {"id": "eq-ndim", "kind": "equiv", "file": COM, "old": "    if len(data_array.shape) == 2:\n", "new": "    if data_array.ndim == 2:\n"},
    {"id": "eq-moveaxis", "kind": "equiv", "file": COM, "old": "            for dsp in range(1, depth + 1):\n                source_ds.write(data_array.data[:, :, dsp - 1], dsp)\n", "new": "            source_ds.write(np.moveaxis(data_array.data, 2, 0))\n"},
    {"id": "eq-zero-based-loop", "kind": "equiv", "file": COM, "old": "            for dsp in range(1, depth + 1):\n                source_ds.write(data_array.data[:, :, dsp - 1], dsp)\n", "new": "            for dsp in range(depth):\n                source_ds.write(data_array.data[:, :, dsp], dsp + 1)\n"},
]
