"""C09 -- the requested disparity interval is honoured and does not leak into costs (index/axis agreement)."""
from __future__ import annotations

import ast
from typing import List, Optional

from ..astx import calls_in, dotted, enclosing_loops, guards_of, src, stmts_of, walk_no_nested
from ..core import AnalysisError, Ctx, PropSpec
from ..defuse import Defs
from ..rules_sm import MACHINE, SM
from ..sym import boolform, canon, equivalent, poly

MC = "pandora/matching_cost/matching_cost.py"
IMG = "pandora/img_tools.py"
DSP = "pandora/disparity/disparity.py"
A = "AbstractMatchingCost"


def _e(t: str) -> ast.AST:
    return ast.parse(t, mode="eval").body


def run(ctx: Ctx) -> None:
    tree = ctx.tree
    # ---- AXIS: sample k of the disparity axis is dmin + k / subpix, ascending
    f = tree.func(MC, f"{A}.get_disparity_range")
    pmin, pmax, psub = [a.arg for a in f.args.args][:3]
    top = [s for s in stmts_of(f) if isinstance(s, ast.If)]
    ok = False
    det = ""
    if top:
        t = top[0]
        is1 = equivalent(boolform(t.test), boolform(_e(f"{psub} == 1"))) is None
        a1 = [s for s in t.body if isinstance(s, ast.Assign)]
        a2 = [s for s in t.orelse if isinstance(s, ast.Assign)]
        c1 = canon(a1[0].value) if a1 else ""
        ok1 = c1 in (f"np.arange({pmin}, 1 + {pmax})", f"np.arange({pmin}, 1 + {pmax}, 1)")
        c2 = [canon(s.value) for s in a2]
        ok2 = len(c2) == 2 and c2[0].startswith(f"np.arange({pmin}, {pmax}, ") and ("1/float(" + psub + ")" in c2[0].replace(" ", "") or f"{psub}^-1" in c2[0] or f"float({psub})^-1" in c2[0]) and c2[1] in (f"np.append(disparity_range, [{pmax}])", f"np.append(disparity_range, {pmax})")
        ok = is1 and ok1 and ok2
        det = f"subpix==1: {c1}; else: {c2}"
    ctx.ob("C09.AXIS", MC, f, f"get_disparity_range: {det[:200]}", ok, expected="arange(dmin, dmax + 1) | arange(dmin, dmax, 1/subpix) + [dmax]", detail="the disparity axis must be dmin, dmin + 1/subpix, ..., dmax (ascending, both ends included): plane k <-> disparity dmin + k/subpix is what every index conversion relies on")

    # ---- GRID-MINMAX
    g = tree.func(MC, f"{A}.get_min_max_from_grid")
    a0, a1n = [a.arg for a in g.args.args][:2]
    rets = [n for n in walk_no_nested(g) if isinstance(n, ast.Return)]
    okg = len(rets) == 1 and isinstance(rets[0].value, ast.Tuple) and [canon(e) for e in rets[0].value.elts] == [f"int(np.nanmin({a0}))", f"int(np.nanmax({a1n}))"]
    ctx.ob("C09.GRID-MINMAX", MC, rets[0] if rets else g, f"get_min_max_from_grid returns {canon(rets[0].value) if rets else '?'}", okg, expected=f"(int(np.nanmin({a0})), int(np.nanmax({a1n})))", detail="the global interval is the smallest minimum and the largest maximum of the per-pixel grids")
    ge = tree.func(MC, f"{A}.grid_estimation")
    d = Defs(ge)
    c = [x for x in calls_in(ge) if isinstance(x.func, ast.Attribute) and x.func.attr == "get_min_max_from_grid"]
    okc = len(c) == 1 and len(c[0].args) == 1 and isinstance(c[0].args[0], ast.Starred) and canon(c[0].args[0].value) == "disparity_grids"
    ctx.ob("C09.GRID-MINMAX", MC, c[0] if c else ge, f"grid_estimation: {src(c[0]) if c else '?'}", okc, expected="self.get_min_max_from_grid(*disparity_grids)")
    dr = [x for x in calls_in(ge) if isinstance(x.func, ast.Attribute) and x.func.attr == "get_disparity_range"]
    par = getattr(c[0], "_parent", None) if c else None
    names = [canon(e) for e in par.targets[0].elts] if isinstance(par, ast.Assign) and isinstance(par.targets[0], ast.Tuple) else []
    okd = len(dr) == 1 and len(names) == 2 and [canon(a) for a in dr[0].args] == [names[0], names[1], "self._subpix"]
    ctx.ob("C09.GRID-MINMAX", MC, dr[0] if dr else ge, f"grid_estimation: {src(dr[0]) if dr else '?'}", okd, expected="self.get_disparity_range(disparity_min, disparity_max, self._subpix)", detail="the sampled axis must span the global (min, max), in that order, at the configured subpix")
    gr = [s for s in walk_no_nested(ge) if isinstance(s, ast.Assign) and isinstance(s.value, ast.Call) and (dotted(s.value.func) or "") in ("xr.Dataset", "xarray.Dataset")]
    okgr = bool(gr) and "'disp': disparity_range" in canon(gr[0].value)
    ctx.ob("C09.GRID-MINMAX", MC, gr[0] if gr else ge, "grid coords['disp'] = disparity_range", okgr)
    sm_call = [x for x in calls_in(tree.func(SM, f"{MACHINE}.matching_cost_prepare")) if isinstance(x.func, ast.Attribute) and x.func.attr == "allocate_cost_volume"]
    for x in sm_call[:1]:
        ctx.ob("C09.GRID-MINMAX", SM, x, f"matching_cost_prepare: {src(x)[:110]}", canon(x.args[1]) == "(self.disp_min, self.disp_max)", expected="(self.disp_min, self.disp_max)", detail="grids must be passed in (min, max) order")

    # ---- INDEX + MASKING in cv_masked
    cm = tree.func(MC, f"{A}.cv_masked")
    pars = [a.arg for a in cm.args.args]
    cvn, dmn, dmx = pars[3], pars[4], pars[5]
    d = Defs(cm)
    dm = d.all_defs("dmin")
    okm = len(dm) == 1 and dm[0][2] == 0 and canon(dm[0][1]) == f"self.get_min_max_from_grid({dmn}, {dmx})"
    ctx.ob("C09.INDEX", MC, dm[0][0] if dm else cm, f"cv_masked: dmin = first component of {canon(dm[0][1]) if dm else '?'}", okm, expected=f"dmin, _ = self.get_min_max_from_grid({dmn}, {dmx})", detail="the origin of the plane index must be the global minimum of the grids, i.e. the first disparity of the axis")
    loops = [s for s in walk_no_nested(cm) if isinstance(s, ast.For) and not enclosing_loops(s)]
    loops.sort(key=lambda n: n.lineno)
    if len(loops) < 2:
        raise AnalysisError("cv_masked: the two loops (mask planes, interval masking) not found")
    l1, l2 = loops[0], loops[1]
    ok1 = canon(l1.iter) == f"{cvn}.coords['disp'].data" and isinstance(l1.target, ast.Name)
    ctx.ob("C09.INDEX", MC, l1, f"cv_masked: for {src(l1.target)} in {src(l1.iter)}", ok1, expected=f"every disparity of {cvn}.coords['disp']")
    dv = l1.target.id if isinstance(l1.target, ast.Name) else "disp"
    dd = [x for x in d.all_defs("dsp") if any(a is l1 for a in _anc(x[0]))]
    want = canon(_e(f"int(({dv} - dmin) * self._subpix)"))
    ctx.ob("C09.INDEX", MC, dd[0][0] if dd else l1, f"cv_masked: dsp = {canon(dd[0][1]) if dd else '?'}", len(dd) == 1 and canon(dd[0][1]) == want, expected=want, detail="plane index = (disparity - first disparity) * subpix, the inverse of the axis construction; anything else masks the wrong plane")
    # interval masking loop: unconditional, over every plane, strict comparisons
    sh = [s for s in stmts_of(cm) if isinstance(s, ast.Assign) and isinstance(s.targets[0], ast.Tuple) and canon(s.value) == f"{cvn}['cost_volume'].shape"]
    nd = canon(sh[0].targets[0].elts[2]) if sh and len(sh[0].targets[0].elts) == 3 else "nd_"
    okl = canon(l2.iter) in (f"range({nd})", f"range(0, {nd})") and not guards_of(l2, stop=cm) and not enclosing_loops(l2)
    ctx.ob("C09.MASKING", MC, l2, f"cv_masked: for {src(l2.target)} in {src(l2.iter)}, unconditional", okl, expected=f"for dsp in range({nd}) executed on every call", detail="the per-pixel interval masking must run for every plane whatever the grids look like: a shortcut that skips it lets costs outside a pixel's own interval survive (they then win the disparity selection)")
    exits = [n for n in walk_no_nested(l2) if isinstance(n, (ast.Break, ast.Continue, ast.Return))]
    ctx.ob("C09.MASKING", MC, exits[0] if exits else l2, "masking loop has no break/continue/return", not exits)
    v2 = l2.target.id if isinstance(l2.target, ast.Name) else "dsp"
    mk = [s for s in l2.body if isinstance(s, ast.Assign) and isinstance(s.value, ast.Call) and (dotted(s.value.func) or "") in ("np.where", "numpy.where")]
    okp = False
    if mk:
        pred = mk[0].value.args[0]
        # the grids may have been cropped to the cost volume's size by re-binding the parameters
        want = boolform(_e(f"({cvn}.coords['disp'].data[{v2}] < {dmn}) | ({cvn}.coords['disp'].data[{v2}] > {dmx})"))
        okp = equivalent(boolform(pred), want) is None
    ctx.ob("C09.MASKING", MC, mk[0] if mk else l2, f"cv_masked: masked where {src(mk[0].value.args[0])[:150] if mk else '?'}", okp, expected=f"disp[{v2}] < {dmn} or disp[{v2}] > {dmx} (strict on both sides)", detail="a cost is outside the pixel's interval iff its disparity is strictly below the pixel's min or strictly above its max")
    st = [s for s in l2.body if isinstance(s, ast.Assign) and isinstance(s.targets[0], ast.Subscript) and canon(s.targets[0].value) == f"{cvn}['cost_volume'].data"]
    oks = bool(st) and bool(mk) and canon(st[0].targets[0].slice) == f"({mk[0].targets[0].id}[0], {mk[0].targets[0].id}[1], {v2})" and (dotted(st[0].value) or "") in ("np.nan", "numpy.nan") and not guards_of(st[0], stop=l2)
    ctx.ob("C09.MASKING", MC, st[0] if st else l2, f"cv_masked: {src(st[0])[:110] if st else '?'}", oks, expected=f"cost_volume[rows, cols, {v2}] = np.nan", detail="out-of-interval costs become NaN on the plane that was tested")
    # the volume is written by nothing else: any further store (e.g. blanking the pixels where disp_min >= disp_max) removes computable costs
    extra = []
    for s_ in walk_no_nested(cm):
        tg = s_.targets[0] if isinstance(s_, ast.Assign) else (s_.target if isinstance(s_, ast.AugAssign) else None)
        base = tg
        while isinstance(base, ast.Subscript):
            base = base.value
        if tg is not None and tg is not base and canon(base) in (f"{cvn}['cost_volume'].data", f"{cvn}['cost_volume']", f"{cvn}['cost_volume'].values"):
            if not any(a is l1 for a in _anc(s_)) and not (st and s_ is st[0]):
                extra.append(s_)
    ctx.ob("C09.MASKING", MC, extra[0] if extra else l2, f"cv_masked writes the volume only in the mask loop and in the interval-masking store{': `' + src(extra[0])[:110] + '`' if extra else ''}", not extra, expected="no other store into the cost volume", detail="a cost is NaN only when it is not computable or lies outside the pixel's interval [disp_min, disp_max] (bounds included, so a single-disparity interval keeps its candidate): a further blanking store breaks the slice relation between nested intervals")
    # the cropping of the grids keeps the top-left origin
    for s in walk_no_nested(cm):
        if isinstance(s, ast.Assign) and isinstance(s.targets[0], ast.Name) and s.targets[0].id in (dmn, dmx) and isinstance(s.value, ast.Subscript):
            txt = canon(s.value)
            okc = txt in (f"{s.targets[0].id}[(0:ny_:, ::)]", f"{s.targets[0].id}[(::, 0:nx_:)]", f"{s.targets[0].id}[(:ny_:, ::)]", f"{s.targets[0].id}[(::, :nx_:)]")
            ctx.ob("C09.MASKING", MC, s, f"cv_masked: {src(s)}", okc, expected="grids cropped from the origin to the cost volume's rows / columns", detail="cropping the per-pixel grids anywhere else shifts every pixel's interval")

    # ---- BROADCAST: add_disparity
    ad = tree.func(IMG, "add_disparity")
    dsn, dpn = ad.args.args[0].arg, ad.args.args[1].arg
    bd = [s for s in walk_no_nested(ad) if isinstance(s, ast.Assign) and canon(s.targets[0]) == f"{dsn}.coords['band_disp']"]
    okb = len(bd) == 1 and canon(bd[0].value) == "['min', 'max']"
    ctx.ob("C09.BROADCAST", IMG, bd[0] if bd else ad, f"add_disparity: {src(bd[0]) if bd else '?'}", okb, expected="coords['band_disp'] = ['min', 'max']")
    arrs = [s for s in walk_no_nested(ad) if isinstance(s, ast.Assign) and canon(s.targets[0]) == f"{dsn}['disparity']"]
    ok_list = ok_grid = False
    for s in arrs:
        t = canon(s.value)
        if "np.full(" in t:
            i0, i1 = t.find(f"{dpn}[0]"), t.find(f"{dpn}[1]")
            ok_list = 0 <= i0 < i1 and t.count("np.full(") == 2 and "dims=['band_disp', 'row', 'col']" in t
        if ".read(" in t:
            ok_grid = "dims=['band_disp', 'row', 'col']" in t and "out_dtype=np.float32" in t and "window=window" in t and not _has_band_arg(s.value)
    ctx.ob("C09.BROADCAST", IMG, arrs[0] if arrs else ad, "add_disparity: scalar interval broadcast as [full(min), full(max)] on dims (band_disp, row, col)", ok_list, expected="np.array([np.full(shape, disparity[0]), np.full(shape, disparity[1])])", detail="band order must match the band_disp labels ['min', 'max']: swapping them exchanges the interval's ends")
    ctx.ob("C09.BROADCAST", IMG, arrs[-1] if arrs else ad, "add_disparity: grids read as the two bands of the file, in file order, on the same window", ok_grid, expected="disparity_ds.read(out_dtype=np.float32, window=window), dims (band_disp, row, col)")
    src_st = [s for s in walk_no_nested(ad) if isinstance(s, ast.Assign) and canon(s.targets[0]) == f"{dsn}.attrs['disparity_source']"]
    ctx.ob("C09.BROADCAST", IMG, src_st[0] if src_st else ad, f"add_disparity: {src(src_st[0]) if src_st else '?'}", bool(src_st) and canon(src_st[0].value) == dpn and not guards_of(src_st[0], stop=ad), expected=f"attrs['disparity_source'] = {dpn} (always)")

    # ---- run_prepare: which grids are searched
    rp = tree.func(SM, f"{MACHINE}.run_prepare")
    li, ri = rp.args.args[2].arg, rp.args.args[3].arg
    for attr, band in (("disp_min", "min"), ("disp_max", "max")):
        ss = [s for s in walk_no_nested(rp) if isinstance(s, ast.Assign) and any(canon(t) == f"self.{attr}" for tt in s.targets for t in (tt.elts if isinstance(tt, (ast.Tuple, ast.List)) else [tt]))]
        ctx.floor(f"C09.RUN-PREPARE(self.{attr} stores)", len(ss), 2)
        okk = bool(ss) and all(not isinstance(s.targets[0], (ast.Tuple, ast.List)) and f"{li}['disparity'].sel(band_disp='{band}')" in canon(s.value) and not any(f"band_disp='{o}'" in canon(s.value) for o in ("min", "max") if o != band) for s in ss)
        ctx.ob("C09.RUN-PREPARE", SM, ss[0] if ss else rp, f"run_prepare: self.{attr} from band '{band}' of the left dataset ({len(ss)} site(s))", okk, expected=f"{li}['disparity'].sel(band_disp='{band}')", detail="the searched interval must be the requested one: each bound is read by its band label, never by position (a dataset may store its bands as ['max', 'min'])")
    rg = [s for s in walk_no_nested(rp) if isinstance(s, ast.If) and any(canon(x.targets[0]) == "self.right_disp_min" for x in s.body if isinstance(x, ast.Assign)) and "right_img" in src(s.test) or (isinstance(s, ast.If) and ri in src(s.test) and any(isinstance(x, ast.Assign) and canon(x.targets[0]) == "self.right_disp_min" for x in s.body))]
    okr = False
    if rg:
        okr = equivalent(boolform(rg[0].test), boolform(_e(f"'disparity' in {ri}.data_vars"))) is None or equivalent(boolform(rg[0].test), boolform(_e(f"'disparity' in {ri}"))) is None
        for band, attr in (("min", "right_disp_min"), ("max", "right_disp_max")):
            ss = [x for x in rg[0].body if isinstance(x, ast.Assign) and canon(x.targets[0]) == f"self.{attr}"]
            okr = okr and bool(ss) and canon(ss[0].value).startswith(f"{ri}['disparity'].sel(band_disp='{band}')")
    ctx.ob("C09.RUN-PREPARE", SM, rg[0] if rg else rp, f"run_prepare: right grids used iff `{src(rg[0].test) if rg else '?'}`", okr, expected=f"if 'disparity' in {ri}.data_vars: right interval = the right dataset's own grids", detail="a right dataset that carries its own disparity variable must be searched on it (whatever attributes it has); otherwise the requested right interval is silently replaced")

    # ---- STORED interval
    ei = tree.func(DSP, "extract_disparity_interval_from_cost_volume")
    er = [n for n in walk_no_nested(ei) if isinstance(n, ast.Return)]
    p0 = ei.args.args[0].arg
    txt = canon(Defs(ei).expand(er[0].value, er[0], depth=3)) if er else ""
    ctx.ob("C09.STORED", DSP, er[0] if er else ei, f"disparity_interval = {txt[:150]}", f"{p0}.coords['disp'].data[[0, -1]]" in txt and "['min', 'max']" in txt, expected="coords['disp'].data[[0, -1]] labelled ['min', 'max']", detail="the stored disparity_interval must be the interval actually searched")


def _has_band_arg(node: ast.AST) -> bool:
    for c in ast.walk(node):
        if isinstance(c, ast.Call) and isinstance(c.func, ast.Attribute) and c.func.attr == "read":
            return bool(c.args)
    return False


def _anc(node):
    cur = getattr(node, "_parent", None)
    while cur is not None:
        yield cur
        cur = getattr(cur, "_parent", None)


SPEC = PropSpec(
    pid="C09",
    title="The requested disparity interval is honoured and does not leak into costs (index/axis agreement)",
    explanation=(
        "Thin claim: decides the index/axis agreement that 'costs do not depend on the other requested disparities' needs, not the equality of two cost volumes. "
        "The axis is dmin + k/subpix ascending with both ends (get_disparity_range); the global interval is (nanmin of the min grid, nanmax of the max grid) passed in that order; "
        "cv_masked converts a disparity to its plane with int((d - dmin) * subpix) where dmin is that same global minimum, iterating every disparity of the axis; the per-pixel interval masking "
        "loop runs unconditionally over every plane with strict `<` / `>` against the (origin-cropped) grids and writes NaN on the tested plane; add_disparity stacks [min, max] in the order of its "
        "band labels and reads grids in file order; run_prepare searches the left grids' own bands and uses the right dataset's grids exactly when it has a disparity variable; the stored "
        "disparity_interval is the first/last sampled disparity."
    ),
    rule_text="instances: the statements of get_disparity_range, get_min_max_from_grid, grid_estimation, cv_masked (two loops), add_disparity, run_prepare, extract_disparity_interval_from_cost_volume located by role",
    run=run,
    not_decided=["equality of the cost volume of an interval with the slice of the volume of a larger interval (a relation between two runs)", "final disparities within the interval after filtering / filling (numeric)", "constant grids equivalent to the scalar interval (numeric)"],
    trusted=["numpy.arange semantics; xarray .sel(band_disp=...)"],
)

MUTANTS = [
    {"id": "degenerate-interval-blanked", "file": MC, "old": "        mask_invalid_variable_disparity_range(cost_volume)\n\n        # Mask border pixels", "new": "        undefined = np.where(~(disp_min < disp_max))\n        cost_volume[\"cost_volume\"].data[undefined[0], undefined[1], :] = np.nan\n        mask_invalid_variable_disparity_range(cost_volume)\n\n        # Mask border pixels"},
    {"id": "bounds-read-by-position", "file": SM, "old": '            self.disp_min = left_img["disparity"].sel(band_disp="min").data\n            self.disp_max = left_img["disparity"].sel(band_disp="max").data\n', "new": '            self.disp_min, self.disp_max = left_img["disparity"].data\n'},
    {"id": "dsp-without-subpix", "file": MC, "old": "            dsp = int((disp - dmin) * self._subpix)", "new": "            dsp = int(disp - dmin)"},
    {"id": "arange-without-plus-one", "file": MC, "old": "disparity_range = np.arange(disparity_min, disparity_max + 1)", "new": "disparity_range = np.arange(disparity_min, disparity_max)"},
    {"id": "minmax-swapped-reduction", "file": MC, "old": "return int(np.nanmin(disp_min)), int(np.nanmax(disp_max))", "new": "return int(np.nanmax(disp_min)), int(np.nanmax(disp_max))"},
    {"id": "masking-le", "file": MC, "old": 'cost_volume.coords["disp"].data[dsp] < disp_min,', "new": 'cost_volume.coords["disp"].data[dsp] <= disp_min,'},
    {"id": "add_disparity-swapped", "file": IMG, "old": "                        np.full((dataset.sizes[\"row\"], dataset.sizes[\"col\"]), disparity[0]),\n                        np.full((dataset.sizes[\"row\"], dataset.sizes[\"col\"]), disparity[1]),", "new": "                        np.full((dataset.sizes[\"row\"], dataset.sizes[\"col\"]), disparity[1]),\n                        np.full((dataset.sizes[\"row\"], dataset.sizes[\"col\"]), disparity[0]),"},
    {"id": "interval-0-minus2", "file": DSP, "old": 'cost_volume.coords["disp"].data[[0, -1]]', "new": 'cost_volume.coords["disp"].data[[0, -2]]'},
    {"id": "masking-behind-shortcut", "file": MC, "old": "        for dsp in range(nd_):\n            masking = np.where(", "new": "        for dsp in range(nd_ if np.nanmax(disp_min) > dmin and np.nanmin(disp_max) < _ else 0):\n            masking = np.where("},
    {"id": "masking-guarded", "edits": [(MC, "        for dsp in range(nd_):\n            masking = np.where(\n                np.logical_or(\n                    cost_volume.coords[\"disp\"].data[dsp] < disp_min,\n                    cost_volume.coords[\"disp\"].data[dsp] > disp_max,\n                )\n            )\n            cost_volume[\"cost_volume\"].data[masking[0], masking[1], dsp] = np.nan", "        if np.nanmax(disp_min) > dmin and np.nanmin(disp_max) < cost_volume.coords[\"disp\"].data[-1]:\n            for dsp in range(nd_):\n                masking = np.where(\n                    np.logical_or(\n                        cost_volume.coords[\"disp\"].data[dsp] < disp_min,\n                        cost_volume.coords[\"disp\"].data[dsp] > disp_max,\n                    )\n                )\n                cost_volume[\"cost_volume\"].data[masking[0], masking[1], dsp] = np.nan")]},
    {"id": "right-grids-by-attr", "file": SM, "old": 'if "disparity" in right_img.data_vars:', "new": 'if isinstance(right_img.attrs.get("disparity_source"), str):'},
    {"id": "grid-crop-from-end", "file": MC, "old": "            disp_min = disp_min[0:ny_, :]\n", "new": "            disp_min = disp_min[-ny_:, :]\n"},
    {"id": "dmin-from-max-grid", "file": MC, "old": "        dmin, _ = self.get_min_max_from_grid(disp_min, disp_max)", "new": "        dmin, _ = self.get_min_max_from_grid(disp_max, disp_min)"},
    {"id": "eq-arange-step-1", "kind": "equiv", "file": MC, "old": "disparity_range = np.arange(disparity_min, disparity_max + 1)", "new": "disparity_range = np.arange(disparity_min, disparity_max + 1, 1)"},
    {"id": "eq-masking-bitor", "kind": "equiv", "file": MC, "old": "                np.logical_or(\n                    cost_volume.coords[\"disp\"].data[dsp] < disp_min,\n                    cost_volume.coords[\"disp\"].data[dsp] > disp_max,\n                )", "new": "                (disp_min > cost_volume.coords[\"disp\"].data[dsp]) | (cost_volume.coords[\"disp\"].data[dsp] > disp_max)"},
]
