"""Rules over pandora/state_machine.py shared by C01, C08 (and re-used by C07, C12, C14, C15, C20)."""
from __future__ import annotations

import ast
import copy
from typing import Dict, List, Optional, Sequence, Tuple

from .astx import (
    NotConstant,
    calls_in,
    class_assign,
    const_eval,
    dotted,
    self_attr,
    src,
    stmts_of,
    walk_no_nested,
)
from .core import AnalysisError, Ctx, Tree
from .sym import boolform, canon, equivalent

SM = "pandora/state_machine.py"
MACHINE = "PandoraMachine"

SIGMA = {
    "left_img": "right_img",
    "left_cv": "right_cv",
    "left_disparity": "right_disparity",
    "disp_min": "right_disp_min",
    "disp_max": "right_disp_max",
    "dmin_user": "dmin_user_right",
    "dmax_user": "dmax_user_right",
}
SIGMA_FULL = dict(SIGMA)
SIGMA_FULL.update({v: k for k, v in SIGMA.items()})


def transition_table(tree: Tree, name: str) -> Tuple[List[dict], ast.AST]:
    cls = tree.cls(SM, MACHINE)
    node = class_assign(cls, name)
    if node is None:
        raise AnalysisError(f"{SM}: {MACHINE}.{name} not found")
    try:
        val = const_eval(node)
    except NotConstant as exc:
        raise AnalysisError(f"{SM}: {MACHINE}.{name} is no longer a literal table ({exc})") from exc
    if not isinstance(val, list) or not all(isinstance(t, dict) for t in val):
        raise AnalysisError(f"{SM}: {MACHINE}.{name} is not a list of dict literals")
    return val, node


def table_rows(node: ast.AST) -> List[ast.AST]:
    return list(node.elts) if isinstance(node, ast.List) else []


def machine_methods(tree: Tree) -> Dict[str, ast.FunctionDef]:
    return {q.split(".", 1)[1]: f for q, f in tree.funcs(SM).items() if q.startswith(MACHINE + ".") and q.count(".") == 1}


def run_callbacks(tree: Tree) -> List[str]:
    rows, _ = transition_table(tree, "_transitions_run")
    out: List[str] = []
    for r in rows:
        for k in ("prepare", "after", "before"):
            v = r.get(k)
            for name in v if isinstance(v, list) else [v]:
                if isinstance(name, str) and name not in out:
                    out.append(name)
    return out


def reads_right_guard(test: ast.AST) -> bool:
    return any(self_attr(n) == "right_disp_map" for n in ast.walk(test))


def sigma_attrs_in(node: ast.AST) -> set:
    return {self_attr(n) for n in ast.walk(node) if self_attr(n) in SIGMA_FULL}


class _Sigma(ast.NodeTransformer):
    def visit_Attribute(self, node: ast.Attribute):
        self.generic_visit(node)
        a = self_attr(node)
        if a in SIGMA_FULL:
            return ast.copy_location(ast.Attribute(value=node.value, attr=SIGMA_FULL[a], ctx=node.ctx), node)
        return node


def sigma(node: ast.AST) -> ast.AST:
    return _Sigma().visit(copy.deepcopy(node))


def is_logging(st: ast.stmt) -> bool:
    return isinstance(st, ast.Expr) and isinstance(st.value, ast.Call) and (dotted(st.value.func) or "").startswith("logging.")


def is_step_instantiation(st: ast.stmt) -> bool:
    """`local_ = pkg.AbstractX(...)` -- the step object shared by the left and the right pass."""
    if isinstance(st, ast.Assign) and len(st.targets) == 1 and isinstance(st.targets[0], ast.Name) and isinstance(st.value, ast.Call):
        d = dotted(st.value.func) or ""
        return d.split(".")[-1].startswith("Abstract")
    return False


def stmt_canon(st: ast.stmt) -> str:
    """Canonical text of a simple statement (targets and values canonicalised)."""
    if isinstance(st, ast.Assign):
        return " = ".join(canon(t) for t in st.targets) + " = " + canon(st.value)
    if isinstance(st, ast.AugAssign):
        return f"{canon(st.target)} {type(st.op).__name__}= {canon(st.value)}"
    if isinstance(st, ast.Expr):
        return canon(st.value)
    if isinstance(st, ast.If):
        return f"if {canon(st.test)}: [" + "; ".join(stmt_canon(s) for s in st.body) + "] else [" + "; ".join(stmt_canon(s) for s in st.orelse) + "]"
    return src(st)


def registered_names(tree: Tree, rel: str, family: str) -> List[str]:
    """Short names registered by @<family>.register_subclass("name", ...) decorators in rel's package."""
    out: List[str] = []
    pkg = rel.rsplit("/", 1)[0]
    for f in tree.py_files(pkg):
        for c in tree.classes(f).values():
            for d in c.decorator_list:
                if isinstance(d, ast.Call) and (dotted(d.func) or "").endswith(f"{family}.register_subclass"):
                    for a in d.args:
                        if isinstance(a, ast.Constant) and isinstance(a.value, str):
                            out.append(a.value)
    return out


# --------------------------------------------------------------------------------------
# C08.MIRROR (+ GUARD-CONST, GATING, NEG-SWAP)
# --------------------------------------------------------------------------------------
def rule_mirror(ctx: Ctx, rid: str = "C08.MIRROR", only: Optional[Sequence[str]] = None) -> int:
    tree = ctx.tree
    meths = machine_methods(tree)
    n_inst = 0
    names = registered_names(tree, "pandora/validation/validation.py", "AbstractValidation")
    for cb in run_callbacks(tree):
        if only is not None and cb not in only:
            continue
        fn = meths.get(cb)
        if fn is None:
            continue  # reported by C01.WIRING
        body = stmts_of(fn)
        uses_products = bool(sigma_attrs_in(fn))
        if not uses_products:
            continue
        n_inst += 1
        guards = [s for s in body if isinstance(s, ast.If) and reads_right_guard(s.test)]
        if not ctx.ob(
            rid,
            SM,
            fn,
            f"{cb}: right pass guarded by self.right_disp_map",
            len(guards) == 1 and not guards[0].orelse,
            detail="the callback touches left/right products but has no (or several) top-level `if self.right_disp_map == ...` block"
            if len(guards) != 1
            else "the right-pass guard has an else branch",
            expected="exactly one guarded right pass mirroring the left pass",
        ):
            continue
        g = guards[0]
        # guard constant
        t = g.test
        okc = (
            isinstance(t, ast.Compare)
            and len(t.ops) == 1
            and isinstance(t.ops[0], ast.Eq)
            and self_attr(t.left) == "right_disp_map"
            and isinstance(t.comparators[0], ast.Constant)
            and t.comparators[0].value in names
        )
        ctx.ob(
            rid.replace("MIRROR", "GUARD-CONST"),
            SM,
            g,
            f"{cb}: if {src(t)}",
            okc,
            detail="the guard does not compare self.right_disp_map with a registered validation method name",
            expected=f"self.right_disp_map == one of {names}",
        )
        idx = body.index(g)
        left = [s for s in body[:idx] if not is_logging(s) and not is_step_instantiation(s) and sigma_attrs_in(s)]
        right_all = [s for s in g.body if not is_logging(s)]
        right = [s for s in right_all if not (isinstance(s, ast.If)) and not is_step_instantiation(s)]
        nested = [s for s in right_all if isinstance(s, ast.If)]
        exp = [stmt_canon(sigma(s)) for s in left]
        got = [stmt_canon(s) for s in right]
        ok = exp == got
        detail = ""
        if not ok:
            # find the first difference for the report
            for i in range(max(len(exp), len(got))):
                e = exp[i] if i < len(exp) else "<missing>"
                h = got[i] if i < len(got) else "<missing>"
                if e != h:
                    lsrc = src(left[i]) if i < len(left) else "<no left statement>"
                    detail = f"left statement `{lsrc}` expects mirror `{e}` but the right pass has `{h}`"
                    break
        ctx.ob(
            rid,
            SM,
            g,
            f"{cb}: right pass == sigma(left pass) [{len(left)} product statement(s)]",
            ok,
            detail=detail,
            expected="; ".join(exp),
        )
        # statements *after* the guard that touch products must be sigma-symmetric as a set
        tail = [s for s in body[idx + 1 :] if not is_logging(s) and sigma_attrs_in(s)]
        if tail:
            a = sorted(stmt_canon(s) for s in tail)
            b = sorted(stmt_canon(_sigma_pyr(sigma(s))) for s in tail)
            ctx.ob(
                rid,
                SM,
                tail[0],
                f"{cb}: statements after the guard treat left and right alike",
                a == b,
                detail="a product statement after the right-pass guard has no left/right twin",
                expected="; ".join(b),
            )
        for ni in nested:
            nb = [s for s in ni.body if not is_logging(s) and not is_step_instantiation(s) and sigma_attrs_in(s)]
            a = [stmt_canon(s) for s in nb]
            b = [stmt_canon(sigma(s)) for s in nb]
            ok_set = sorted(a) == sorted(b)
            # left before right: the first statement must mention a left attribute
            ok_order = bool(nb) and all(x in SIGMA for x in sigma_attrs_in(nb[0]))
            ctx.ob(
                rid,
                SM,
                ni,
                f"{cb}: nested block `if {src(ni.test)}` applies the same step to left then right",
                ok_set and ok_order,
                detail="the nested block is not a left/right symmetric pair (left first)",
                expected="; ".join(sorted(b)),
            )
    return n_inst


class _SigmaPyr(ast.NodeTransformer):
    M = {"img_left_pyramid": "img_right_pyramid", "img_right_pyramid": "img_left_pyramid"}

    def visit_Attribute(self, node):
        self.generic_visit(node)
        a = self_attr(node)
        if a in self.M:
            return ast.copy_location(ast.Attribute(value=node.value, attr=self.M[a], ctx=node.ctx), node)
        return node


def _sigma_pyr(node: ast.AST) -> ast.AST:
    return _SigmaPyr().visit(node)


def rule_gating(ctx: Ctx, rid: str = "C08.GATING") -> int:
    """Every store to self.right_cv / self.right_disparity other than the empty initialisations is
    inside a right-pass guard; right_disp_map is assigned only from a validation configuration."""
    tree = ctx.tree
    n = 0
    for name, fn in machine_methods(tree).items():
        for st in walk_no_nested(fn):
            if not isinstance(st, (ast.Assign, ast.AugAssign)):
                continue
            tgts = []
            for t in st.targets if isinstance(st, ast.Assign) else [st.target]:
                tgts.extend(t.elts if isinstance(t, (ast.Tuple, ast.List)) else [t])
            for t in tgts:
                a = self_attr(t)
                if a in ("right_cv", "right_disparity"):
                    n += 1
                    v = st.value
                    init = (isinstance(v, ast.Constant) and v.value is None) or (
                        isinstance(v, ast.Call) and (dotted(v.func) or "") in ("xr.Dataset", "xarray.Dataset") and not v.args and not v.keywords
                    )
                    from .astx import guards_of

                    guarded = any(pol and reads_right_guard(test) for test, pol in guards_of(st, stop=fn))
                    ctx.ob(
                        rid,
                        SM,
                        st,
                        f"{name}: {src(st)[:120]}",
                        init or guarded,
                        detail=f"self.{a} receives a product outside the right-pass guard: without a validation step the right dataset would not stay empty",
                        expected="store inside `if self.right_disp_map == ...` or an empty initialisation",
                    )
                elif a == "right_disp_map":
                    n += 1
                    v = st.value
                    # None only where the machine is (re)initialised: a reset between the check phase and the run
                    # (run_prepare, a run callback) discards what validation_check_conf derived for a validation step
                    # named with a suffix ("validation.xxx"), for which run_prepare's own lookup does not fire
                    okv = (isinstance(v, ast.Constant) and v.value is None and name in ("__init__", "check_conf")) or (
                        isinstance(v, ast.Subscript)
                        and isinstance(v.slice, ast.Constant)
                        and v.slice.value == "validation_method"
                    )
                    ctx.ob(
                        rid,
                        SM,
                        st,
                        f"{name}: {src(st)[:120]}",
                        okv,
                        detail="right_disp_map must come from a validation step's 'validation_method' (None only in __init__ / at the start of check_conf): any other store overrides the check phase's decision, so a checked pipeline no longer runs as written",
                    )
    # run_prepare re-creates both disparity datasets empty
    rp = tree.func(SM, f"{MACHINE}.run_prepare")
    for attr in ("left_disparity", "right_disparity"):
        found = [
            st
            for st in walk_no_nested(rp)
            if isinstance(st, ast.Assign)
            and any(self_attr(t) == attr for t in st.targets)
            and isinstance(st.value, ast.Call)
            and (dotted(st.value.func) or "") in ("xr.Dataset", "xarray.Dataset")
            and not st.value.args
        ]
        from .astx import guards_of

        ok = bool(found) and all(not guards_of(s, stop=rp) for s in found)
        ctx.ob(rid, SM, found[0] if found else rp, f"run_prepare: self.{attr} = xr.Dataset()", ok, detail=f"run_prepare no longer re-creates self.{attr} empty on every path")
        own = bool(found) and all(len(s.targets) == 1 for s in found)
        ctx.ob(rid, SM, found[0] if found else rp, f"run_prepare: self.{attr} is an object of its own", own, expected="one constructor call per dataset", detail="`a = b = xr.Dataset()` binds both attributes to ONE dataset: steps that fill an empty dataset in place (allocate_confidence_map) then write the left products into the right dataset, which is no longer empty without a validation step")
    return n


def _neg_of(node: ast.AST) -> Optional[str]:
    """canon text of x when node is -x (or (-x).something-free); else None."""
    if isinstance(node, ast.UnaryOp) and isinstance(node.op, ast.USub):
        return canon(node.operand)
    return None


def rule_neg_swap(ctx: Ctx, rid: str = "C08.NEG-SWAP") -> int:
    """right_min = -left_max and right_max = -left_min wherever the right interval is derived."""
    tree = ctx.tree
    n = 0
    rp = tree.func(SM, f"{MACHINE}.run_prepare")
    # collect, per block, the pair of assignments to self.right_disp_min / self.right_disp_max
    blocks: Dict[int, Dict[str, ast.Assign]] = {}
    for st in walk_no_nested(rp):
        if isinstance(st, ast.Assign) and len(st.targets) == 1 and self_attr(st.targets[0]) in ("right_disp_min", "right_disp_max"):
            par = getattr(st, "_parent", None)
            blocks.setdefault(id(par) * 2 + (1 if st in getattr(par, "orelse", []) else 0), {})[self_attr(st.targets[0])] = st
    # local definitions of self.disp_min / self.disp_max in the same function (to expand -self.disp_max)
    defs: Dict[str, List[str]] = {"disp_min": [], "disp_max": []}
    for st in walk_no_nested(rp):
        if isinstance(st, ast.Assign) and len(st.targets) == 1 and self_attr(st.targets[0]) in defs:
            defs[self_attr(st.targets[0])].append(canon(st.value))

    def band(text: str) -> Optional[str]:
        if "band_disp='min'" in text or 'band_disp="min"' in text:
            return "min"
        if "band_disp='max'" in text or 'band_disp="max"' in text:
            return "max"
        return None

    for blk in blocks.values():
        for tgt, want_src, want_band in (("right_disp_min", "disp_max", "max"), ("right_disp_max", "disp_min", "min")):
            st = blk.get(tgt)
            if st is None:
                continue
            n += 1
            v = st.value
            text = canon(v)
            neg = _neg_of(v)
            if neg is None:
                # not derived by negation: must read the right image's own grid (band of the same name)
                ok = "right_img" in text and band(text) == ("min" if tgt.endswith("min") else "max")
                ctx.ob(rid, SM, st, src(st), ok, detail="right interval read from the right dataset must take the band of the same name", expected=f"right_img['disparity'].sel(band_disp='{'min' if tgt.endswith('min') else 'max'}')")
                continue
            ok = neg == canon(ast.parse(f"self.{want_src}", mode="eval").body) or (band(neg) == want_band and "left_img" in neg)
            ctx.ob(
                rid,
                SM,
                st,
                src(st),
                ok,
                detail=f"the right interval must be (-left max, -left min): self.{tgt} is the negation of `{neg}`",
                expected=f"self.{tgt} = -(left {want_band})",
            )
    # pandora.main
    INIT = "pandora/__init__.py"
    if tree.has_func(INIT, "main"):
        mn = tree.func(INIT, "main")
        for st in walk_no_nested(mn):
            if isinstance(st, ast.Assign) and isinstance(st.value, ast.List) and len(st.value.elts) == 2 and all(
                isinstance(e, ast.UnaryOp) and isinstance(e.op, ast.USub) for e in st.value.elts
            ):
                n += 1
                e0, e1 = st.value.elts
                k0 = _last_index(e0.operand)
                k1 = _last_index(e1.operand)
                base0 = canon(e0.operand.value) if isinstance(e0.operand, ast.Subscript) else None
                base1 = canon(e1.operand.value) if isinstance(e1.operand, ast.Subscript) else None
                ok = k0 == 1 and k1 == 0 and base0 == base1 and base0 is not None and "left" in base0
                ctx.ob(rid, INIT, st, src(st), ok, detail="the derived right interval must be [-left[1], -left[0]]", expected="[-left_disp[1], -left_disp[0]]")
    return n


def _last_index(node: ast.AST):
    if isinstance(node, ast.Subscript) and isinstance(node.slice, ast.Constant):
        return node.slice.value
    return None


# --------------------------------------------------------------------------------------
# STEP-KEY: step keys are `family[.suffix]`; nothing may look a step up by its bare family name
# --------------------------------------------------------------------------------------
_STEP_KEY_POSITIVE = '''
def f(cfg):
    if "validation" in cfg["pipeline"]:
        return cfg["pipeline"]["validation"]["validation_method"]
'''


def _step_key_sites(fn: ast.AST, families: set) -> List[Tuple[ast.AST, str]]:
    out = []
    params = [a.arg for a in getattr(getattr(fn, "args", None), "args", [])]
    # a step callback receives (pipeline section, name of the step as written): cfg[input_step] is the step
    section = params[1] if len(params) >= 3 and params[0] == "self" and params[2] == "input_step" else None
    for n in ast.walk(fn):
        if section and isinstance(n, ast.Subscript) and isinstance(n.value, ast.Name) and n.value.id == section and isinstance(n.slice, ast.Constant) and n.slice.value in families:
            out.append((n, n.slice.value))
        if section and isinstance(n, ast.Compare) and len(n.ops) == 1 and isinstance(n.ops[0], (ast.In, ast.NotIn)) and isinstance(n.left, ast.Constant) and n.left.value in families and isinstance(n.comparators[0], ast.Name) and n.comparators[0].id == section:
            out.append((n, n.left.value))
        if isinstance(n, ast.Compare) and len(n.ops) == 1 and isinstance(n.ops[0], (ast.In, ast.NotIn)) and isinstance(n.left, ast.Constant) and n.left.value in families:
            c = n.comparators[0]
            if isinstance(c, ast.Subscript) and isinstance(c.slice, ast.Constant) and c.slice.value == "pipeline":
                out.append((n, n.left.value))
        if isinstance(n, ast.Subscript) and isinstance(n.slice, ast.Constant) and n.slice.value in families:
            b = n.value
            if isinstance(b, ast.Subscript) and isinstance(b.slice, ast.Constant) and b.slice.value == "pipeline":
                out.append((n, n.slice.value))
    return out


def rule_step_key(ctx: Ctx, rid: str) -> int:
    """No lookup of a pipeline step by its bare family name.  Returns the number of functions scanned."""
    tree = ctx.tree
    rows, _ = transition_table(tree, "_transitions_run")
    families = {r["trigger"] for r in rows if isinstance(r.get("trigger"), str)}
    if len(families) < 8:
        raise AnalysisError(f"{rid}: only {len(families)} step families found in the run table")
    pos = ast.parse(_STEP_KEY_POSITIVE).body[0]
    if len(_step_key_sites(pos, families)) != 2:
        raise AnalysisError(f"{rid}: the positive example is no longer recognised")
    pos2 = ast.parse("def cb(self, cfg, input_step):\n    return cfg['matching_cost']['matching_cost_method']\n").body[0]
    if len(_step_key_sites(pos2, families)) != 1:
        raise AnalysisError(f"{rid}: the positive example (callback reading cfg['matching_cost']) is no longer recognised")
    n = 0
    for rel in (SM, "pandora/check_configuration.py", "pandora/__init__.py", "pandora/Pandora.py"):
        if rel not in tree.py_files("pandora"):
            continue
        for q, fn in sorted(tree.funcs(rel).items()):
            if "." in q and q.split(".")[-2] != MACHINE and rel == SM:
                continue
            n += 1
            for node, fam in _step_key_sites(fn, families):
                # nested functions are visited with their parent by ast.walk: report once, at the innermost owner
                if getattr(enclosing(node), "_qual", q) != q:
                    continue
                ctx.ob(rid, rel, node, f"{q}: `{src(node)[:90]}` looks the `{fam}` step up by its bare family name", False, expected=f"a match on step.split('.')[0] == '{fam}' over the keys of the pipeline", detail=f"steps may be named `{fam}.suffix` (the machine triggers on the part before the dot): an exact-key lookup misses them, so the checked pipeline does not run as written")
            ctx.ob(rid, rel, fn, f"{q}: no step is looked up by a bare family name", True)
    return n


def enclosing(node: ast.AST):
    cur = getattr(node, "_parent", None)
    while cur is not None and not isinstance(cur, (ast.FunctionDef, ast.AsyncFunctionDef)):
        cur = getattr(cur, "_parent", None)
    return cur
