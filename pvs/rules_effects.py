"""Rules that compare the computed effect summaries (pvs.effects) with the who-may-write matrix
(spec/effects.json).  Used by C03, C06, C07, C08, C10, C11, C12, C14, C15, C18."""
from __future__ import annotations

import json
import os
from typing import Dict, Iterable, List, Optional, Sequence, Tuple

from .core import VERIF, AnalysisError, Ctx
from .effects import Program, Summary, Write, program
from .rules_sm import MACHINE, SM, run_callbacks


def effects_spec() -> dict:
    with open(os.path.join(VERIF, "spec", "effects.json"), "r", encoding="utf-8") as fh:
        return json.load(fh)["functions"]


def _allowed(w: Write, rules: List[List[str]]) -> bool:
    for prefix, how in rules:
        pre = tuple(prefix.split("/")) if prefix else ()
        if w.path[: len(pre)] == pre and (how == "*" or how == w.how):
            return True
    return False


def _desc(w: Write) -> str:
    via = (" via " + " -> ".join(w.via)) if w.via else ""
    return f"{w.root}{''.join('[' + repr(p) + ']' for p in w.path)} {w.how} by `{w.text}` ({w.rel}:{w.line} {w.func}{via})"


def check_function_effects(ctx: Ctx, rid: str, key: str, spec: Optional[dict] = None) -> int:
    """One obligation per constrained parameter of the function `rel::qual`."""
    spec = spec or effects_spec()
    if key not in spec:
        raise AnalysisError(f"spec/effects.json has no entry {key}")
    rel, qual = key.split("::")
    prog = program(ctx.tree)
    s = prog.summary(rel, qual)
    ent = spec[key]
    n = 0
    for param, rules in ent.items():
        if param == "why":
            continue
        if param not in s.params:
            raise AnalysisError(f"{key}: parameter {param!r} named in spec/effects.json no longer exists (signature {s.params})")
        n += 1
        bad = [w for w in s.writes if w.root == param and not _allowed(w, rules)]
        allowed_txt = ", ".join(f"{p or '<self>'}:{h}" for p, h in rules) or "nothing"
        fn = ctx.tree.func(rel, qual)
        if not bad:
            ctx.ob(rid, rel, fn, f"{qual}: in-place effects on `{param}` within {{{allowed_txt}}}", True)
        for w in bad:
            ctx.ob(
                rid,
                rel,
                fn,
                f"{qual}: `{param}` {'/'.join(w.path) or '<object>'} {w.how} via `{w.text[:100]}` in {w.func}",
                False,
                detail=f"{_desc(w)} -- {ent.get('why', '')}",
                expected=f"`{param}` may only be written under {{{allowed_txt}}}",
            )
    ctx.count("effect_summaries_consulted")
    return n


def rule_no_disp_write(ctx: Ctx, rid: str) -> None:
    check_function_effects(ctx, rid, "pandora/validation/validation.py::CrossCheckingAccurate.disparity_checking")


def rule_inputs(ctx: Ctx, rid: str) -> int:
    """No in-place write to the caller's image datasets is reachable from pandora.run: directly
    (run -> run_prepare -> prepare_pyramid ...) or through the run callbacks, which reach the inputs as
    self.left_img / self.right_img / the pyramids (aliasing established by run_prepare)."""
    tree = ctx.tree
    prog = program(tree)
    n = check_function_effects(ctx, rid, "pandora/__init__.py::run")
    rp = prog.summary(SM, f"{MACHINE}.run_prepare")
    aliased = {k for k, refs in rp.self_alias.items() if any(r[0] in ("left_img", "right_img") for r in refs)}
    ctx.note(f"{rid}: run_prepare makes {sorted(aliased)} alias the caller's datasets")
    if not aliased:
        return n
    for cb in run_callbacks(tree) + ["run_prepare", "run", "run_exit"]:
        if not tree.has_func(SM, f"{MACHINE}.{cb}"):
            continue
        s = prog.summary(SM, f"{MACHINE}.{cb}")
        fn = tree.func(SM, f"{MACHINE}.{cb}")
        bad = [w for w in s.writes if w.root in aliased and (w.path != () or w.how != "rebind")]
        # popping the pyramid list is machine-owned state, not the caller's dataset
        bad = [w for w in bad if not (w.root.endswith("_pyramid") and w.path == ())]
        n += 1
        if not bad:
            ctx.ob(rid, SM, fn, f"{cb}: no in-place effect on {sorted(aliased)}", True)
        for w in bad:
            ctx.ob(rid, SM, fn, f"{cb}: {w.root}{'/' + '/'.join(w.path) if w.path else ''} {w.how} via `{w.text[:100]}` in {w.func}", False, detail=_desc(w) + " -- the caller's image dataset is modified by a run", expected="inputs are read-only during a run")
    return n
