"""pvs.sym -- canonical forms (E6).

* `poly(expr)`: an arithmetic expression as a canonical polynomial over *atoms* with rational
  coefficients.  Two expressions that are equal by the commutative-ring axioms (re-association,
  commutation, distribution, `a - b` vs `-(b - a)`, `x / 2` vs `0.5 * x`) get the same canonical
  text; calls, subscripts and attribute chains are atoms whose own arguments are canonicalised
  recursively.  Nothing is evaluated numerically.
* `boolform(expr)`: a predicate as a boolean formula over comparison atoms `p < 0`, `p <= 0`,
  `p == 0` (p a sign-normalised canonical polynomial) and opaque atoms.  `equivalent` /
  `complementary` decide by the finite table: for every polynomial p the three atoms are
  functions of sign(p) in {-,0,+}; opaque atoms are free booleans.
"""
from __future__ import annotations

import ast
import itertools
from fractions import Fraction
from typing import Dict, FrozenSet, List, Optional, Tuple, Union

from .astx import dotted, src

Monomial = Tuple[Tuple[str, int], ...]


class Poly:
    __slots__ = ("terms",)

    def __init__(self, terms: Optional[Dict[Monomial, Fraction]] = None):
        self.terms: Dict[Monomial, Fraction] = {m: c for m, c in (terms or {}).items() if c != 0}

    @staticmethod
    def const(c) -> "Poly":
        return Poly({(): Fraction(c)})

    @staticmethod
    def atom(name: str) -> "Poly":
        return Poly({((name, 1),): Fraction(1)})

    def __add__(self, o: "Poly") -> "Poly":
        t = dict(self.terms)
        for m, c in o.terms.items():
            t[m] = t.get(m, Fraction(0)) + c
        return Poly(t)

    def __neg__(self) -> "Poly":
        return Poly({m: -c for m, c in self.terms.items()})

    def __sub__(self, o: "Poly") -> "Poly":
        return self + (-o)

    def __mul__(self, o: "Poly") -> "Poly":
        t: Dict[Monomial, Fraction] = {}
        for m1, c1 in self.terms.items():
            for m2, c2 in o.terms.items():
                d: Dict[str, int] = {}
                for a, e in m1 + m2:
                    d[a] = d.get(a, 0) + e
                m = tuple(sorted((a, e) for a, e in d.items() if e != 0))
                t[m] = t.get(m, Fraction(0)) + c1 * c2
        return Poly(t)

    def is_const(self) -> bool:
        return all(m == () for m in self.terms)

    def const_value(self) -> Fraction:
        return self.terms.get((), Fraction(0))

    def inverse(self) -> "Poly":
        if self.is_const():
            if self.const_value() == 0:
                return Poly.atom("(1/0)")
            return Poly.const(1 / self.const_value())
        if len(self.terms) == 1:
            ((m, c),) = self.terms.items()
            return Poly({tuple((a, -e) for a, e in m): 1 / c})
        return Poly({((f"({self.text()})", -1),): Fraction(1)})

    def text(self) -> str:
        if not self.terms:
            return "0"
        parts = []
        for m in sorted(self.terms):
            c = self.terms[m]
            ms = "*".join(a if e == 1 else f"{a}^{e}" for a, e in m)
            if not ms:
                parts.append(f"{c}")
            elif c == 1:
                parts.append(ms)
            elif c == -1:
                parts.append(f"-{ms}")
            else:
                parts.append(f"{c}*{ms}")
        return " + ".join(parts)

    def __eq__(self, o) -> bool:
        return isinstance(o, Poly) and self.terms == o.terms

    def __hash__(self) -> int:
        return hash(frozenset(self.terms.items()))

    def atoms(self) -> set:
        return {a for m in self.terms for a, _ in m}

    def sign_normalised(self) -> Tuple["Poly", int]:
        """(q, s) with self == s * q and the first (sorted) monomial of q having a positive coefficient."""
        if not self.terms:
            return self, 1
        # choose the first non-constant monomial when there is one, else the constant
        keys = sorted(self.terms)
        nonconst = [k for k in keys if k != ()]
        lead = nonconst[0] if nonconst else keys[0]
        if self.terms[lead] < 0:
            return -self, -1
        return self, 1


_FLOAT_NAMES = {"np.inf": "inf", "numpy.inf": "inf", "np.nan": "nan", "numpy.nan": "nan"}


def _num(v) -> Optional[Fraction]:
    if isinstance(v, bool):
        return None
    if isinstance(v, int):
        return Fraction(v)
    if isinstance(v, float) and v == v and v not in (float("inf"), float("-inf")):
        return Fraction(v).limit_denominator(10**12) if abs(v) < 1e12 else None
    return None


def atom_text(node: ast.AST, ren: Optional[Dict[str, str]] = None) -> str:
    """Canonical text of a non-arithmetic expression (arguments canonicalised recursively)."""
    ren = ren or {}
    if isinstance(node, ast.Name):
        return ren.get(node.id, node.id)
    if isinstance(node, ast.Constant):
        return repr(node.value)
    if isinstance(node, ast.Attribute):
        d = dotted(node)
        if d is not None:
            head, _, rest = d.partition(".")
            head = ren.get(head, head)
            full = head + ("." + rest if rest else "")
            return ren.get(full, full)
        return f"{atom_text(node.value, ren)}.{node.attr}"
    if isinstance(node, ast.Subscript):
        # A[i, :][j]  ==  A[i, j]   (row view then column index)
        inner = node.value
        if isinstance(inner, ast.Subscript) and not isinstance(node.slice, (ast.Tuple, ast.Slice)):
            isl = inner.slice
            if isinstance(isl, ast.Tuple) and len(isl.elts) == 2 and isinstance(isl.elts[1], ast.Slice) and isl.elts[1].lower is None and isl.elts[1].upper is None and isl.elts[1].step is None and not isinstance(isl.elts[0], ast.Slice):
                return f"{atom_text(inner.value, ren)}[({canon(isl.elts[0], ren)}, {canon(node.slice, ren)})]"
        return f"{atom_text(node.value, ren)}[{canon(node.slice, ren)}]"
    if isinstance(node, ast.Slice):
        return ":".join(canon(x, ren) if x is not None else "" for x in (node.lower, node.upper, node.step))
    if isinstance(node, ast.Tuple):
        return "(" + ", ".join(canon(e, ren) for e in node.elts) + ("," if len(node.elts) == 1 else "") + ")"
    if isinstance(node, ast.List):
        return "[" + ", ".join(canon(e, ren) for e in node.elts) + "]"
    if isinstance(node, ast.Call):
        args = [canon(a, ren) for a in node.args]
        kws = sorted(f"{k.arg}={canon(k.value, ren)}" if k.arg else f"**{canon(k.value, ren)}" for k in node.keywords)
        f = atom_text(node.func, ren)
        if f in ("abs", "np.abs", "numpy.abs", "np.absolute"):
            f = "abs"
        return f"{f}({', '.join(args + kws)})"
    if isinstance(node, ast.Starred):
        return "*" + canon(node.value, ren)
    if isinstance(node, (ast.Compare, ast.BoolOp)) or (isinstance(node, ast.UnaryOp) and isinstance(node.op, (ast.Not, ast.Invert))):
        return "{" + boolform(node, ren).text() + "}"
    if isinstance(node, ast.IfExp):
        return f"({canon(node.body, ren)} if {canon(node.test, ren)} else {canon(node.orelse, ren)})"
    if isinstance(node, ast.Lambda):
        return src(node)
    return src(node)


def poly(node: ast.AST, ren: Optional[Dict[str, str]] = None) -> Poly:
    if isinstance(node, ast.Constant):
        n = _num(node.value)
        if n is not None:
            return Poly.const(n)
        return Poly.atom(repr(node.value))
    if isinstance(node, ast.UnaryOp):
        if isinstance(node.op, ast.USub):
            return -poly(node.operand, ren)
        if isinstance(node.op, ast.UAdd):
            return poly(node.operand, ren)
    if isinstance(node, ast.BinOp):
        if isinstance(node.op, ast.Add):
            return poly(node.left, ren) + poly(node.right, ren)
        if isinstance(node.op, ast.Sub):
            return poly(node.left, ren) - poly(node.right, ren)
        if isinstance(node.op, ast.Mult):
            return poly(node.left, ren) * poly(node.right, ren)
        if isinstance(node.op, ast.Div):
            return poly(node.left, ren) * poly(node.right, ren).inverse()
        if isinstance(node.op, ast.Pow):
            e = poly(node.right, ren)
            if e.is_const() and e.const_value().denominator == 1 and 0 <= e.const_value() <= 6:
                out = Poly.const(1)
                b = poly(node.left, ren)
                for _ in range(int(e.const_value())):
                    out = out * b
                return out
            return Poly.atom(f"({poly(node.left, ren).text()})**({e.text()})")
        sym = {ast.FloorDiv: "//", ast.Mod: "%", ast.BitAnd: "&", ast.BitOr: "|", ast.BitXor: "^", ast.LShift: "<<", ast.RShift: ">>", ast.MatMult: "@"}[type(node.op)]
        l, r = poly(node.left, ren).text(), poly(node.right, ren).text()
        if sym in ("&", "|", "^") and r < l:
            l, r = r, l
        return Poly.atom(f"(({l}) {sym} ({r}))")
    return Poly.atom(atom_text(node, ren))


def canon(node: Optional[ast.AST], ren: Optional[Dict[str, str]] = None) -> str:
    """Canonical text of any expression."""
    if node is None:
        return ""
    if isinstance(node, (ast.Compare, ast.BoolOp)) or (isinstance(node, ast.UnaryOp) and isinstance(node.op, ast.Not)):
        return "{" + boolform(node, ren).text() + "}"
    if isinstance(node, (ast.BinOp, ast.UnaryOp, ast.Constant)):
        if isinstance(node, ast.Constant) and _num(node.value) is None:
            return repr(node.value)
        return poly(node, ren).text()
    return atom_text(node, ren)


def same_expr(a: ast.AST, b: ast.AST, ren_a: Optional[Dict[str, str]] = None, ren_b: Optional[Dict[str, str]] = None) -> bool:
    return canon(a, ren_a) == canon(b, ren_b)


# --------------------------------------------------------------------------------------
# boolean forms
# --------------------------------------------------------------------------------------
class B:
    """Boolean formula: ('and', [..]) ('or', [..]) ('not', x) ('cmp', ptext, op) ('atom', text) ('const', bool)."""

    def __init__(self, kind: str, *args):
        self.kind = kind
        self.args = args

    def text(self) -> str:
        k = self.kind
        if k == "const":
            return "T" if self.args[0] else "F"
        if k == "atom":
            return self.args[0]
        if k == "cmp":
            return f"[{self.args[0]}]{self.args[1]}0"
        if k == "not":
            return f"!({self.args[0].text()})"
        sep = " & " if k == "and" else " | "
        return "(" + sep.join(sorted(a.text() for a in self.args[0])) + ")"

    def vars(self) -> Tuple[set, set]:
        polys, atoms = set(), set()
        st = [self]
        while st:
            b = st.pop()
            if b.kind == "cmp":
                polys.add(b.args[0])
            elif b.kind == "atom":
                atoms.add(b.args[0])
            elif b.kind == "not":
                st.append(b.args[0])
            elif b.kind in ("and", "or"):
                st.extend(b.args[0])
        return polys, atoms

    def eval(self, signs: Dict[str, int], atoms: Dict[str, bool]) -> bool:
        k = self.kind
        if k == "const":
            return self.args[0]
        if k == "atom":
            return atoms[self.args[0]]
        if k == "cmp":
            s = signs[self.args[0]]
            op = self.args[1]
            return (s < 0) if op == "<" else (s <= 0) if op == "<=" else (s == 0)
        if k == "not":
            return not self.args[0].eval(signs, atoms)
        if k == "and":
            return all(a.eval(signs, atoms) for a in self.args[0])
        return any(a.eval(signs, atoms) for a in self.args[0])


def _cmp(left: ast.AST, op: ast.cmpop, right: ast.AST, ren) -> B:
    if isinstance(op, (ast.Is, ast.IsNot, ast.In, ast.NotIn)):
        base = B("atom", f"{canon(left, ren)} {'is' if isinstance(op, (ast.Is, ast.IsNot)) else 'in'} {canon(right, ren)}")
        return B("not", base) if isinstance(op, (ast.IsNot, ast.NotIn)) else base
    # string / None comparisons are opaque equalities
    for side in (left, right):
        if isinstance(side, ast.Constant) and not isinstance(side.value, (int, float)) or (isinstance(side, ast.Constant) and isinstance(side.value, bool)):
            a, b = sorted([canon(left, ren), canon(right, ren)])
            base = B("atom", f"{a} == {b}")
            if isinstance(op, ast.Eq):
                return base
            if isinstance(op, ast.NotEq):
                return B("not", base)
    d = poly(left, ren) - poly(right, ren)  # left - right   (op) 0
    q, s = d.sign_normalised()
    t = q.text()
    if isinstance(op, ast.Eq):
        return B("cmp", t, "==")
    if isinstance(op, ast.NotEq):
        return B("not", B("cmp", t, "=="))
    lt, le = B("cmp", t, "<"), B("cmp", t, "<=")
    if isinstance(op, ast.Lt):  # d < 0
        return lt if s > 0 else B("not", le)  # -q<0 == q>0 == !(q<=0)
    if isinstance(op, ast.LtE):
        return le if s > 0 else B("not", lt)
    if isinstance(op, ast.Gt):  # d > 0
        return B("not", le) if s > 0 else lt
    if isinstance(op, ast.GtE):
        return B("not", lt) if s > 0 else le
    return B("atom", f"{canon(left, ren)} ? {canon(right, ren)}")


def boolform(node: ast.AST, ren: Optional[Dict[str, str]] = None) -> B:
    if isinstance(node, ast.Constant) and isinstance(node.value, bool):
        return B("const", node.value)
    if isinstance(node, ast.BoolOp):
        return B("and" if isinstance(node.op, ast.And) else "or", [boolform(v, ren) for v in node.values])
    if isinstance(node, ast.UnaryOp) and isinstance(node.op, (ast.Not, ast.Invert)):
        return B("not", boolform(node.operand, ren))
    if isinstance(node, ast.BinOp) and isinstance(node.op, (ast.BitAnd, ast.BitOr)) and _boolish(node.left) and _boolish(node.right):
        return B("and" if isinstance(node.op, ast.BitAnd) else "or", [boolform(node.left, ren), boolform(node.right, ren)])
    if isinstance(node, ast.Compare):
        parts = []
        left = node.left
        for op, right in zip(node.ops, node.comparators):
            parts.append(_cmp(left, op, right, ren))
            left = right
        return parts[0] if len(parts) == 1 else B("and", parts)
    if isinstance(node, ast.Call):
        f = dotted(node.func) or ""
        if f in ("np.logical_and", "numpy.logical_and") and len(node.args) == 2:
            return B("and", [boolform(a, ren) for a in node.args])
        if f in ("np.logical_or", "numpy.logical_or") and len(node.args) == 2:
            return B("or", [boolform(a, ren) for a in node.args])
        if f in ("np.logical_not", "numpy.logical_not", "np.invert") and len(node.args) == 1:
            return B("not", boolform(node.args[0], ren))
    return B("atom", canon(node, ren) if not isinstance(node, (ast.Compare, ast.BoolOp)) else src(node))


def _boolish(node: ast.AST) -> bool:
    if isinstance(node, (ast.Compare, ast.BoolOp)):
        return True
    if isinstance(node, ast.UnaryOp) and isinstance(node.op, (ast.Not, ast.Invert)):
        return _boolish(node.operand)
    if isinstance(node, ast.BinOp) and isinstance(node.op, (ast.BitAnd, ast.BitOr)):
        return _boolish(node.left) and _boolish(node.right)
    if isinstance(node, ast.Call):
        f = dotted(node.func) or ""
        return f.split(".")[-1] in ("logical_and", "logical_or", "logical_not", "isnan", "isinf", "isfinite", "isin")
    return False


def _assignments(forms: List[B]):
    polys, atoms = set(), set()
    for f in forms:
        p, a = f.vars()
        polys |= p
        atoms |= a
    polys, atoms = sorted(polys), sorted(atoms)
    if len(polys) + len(atoms) > 14:
        raise ValueError("too many atoms for the truth table")
    for signs in itertools.product((-1, 0, 1), repeat=len(polys)):
        for vals in itertools.product((False, True), repeat=len(atoms)):
            yield dict(zip(polys, signs)), dict(zip(atoms, vals))


def equivalent(a: B, b: B) -> Optional[Tuple[dict, dict]]:
    """None when equivalent, else a distinguishing assignment."""
    for s, v in _assignments([a, b]):
        if a.eval(s, v) != b.eval(s, v):
            return s, v
    return None


def complementary(a: B, b: B) -> Optional[Tuple[dict, dict]]:
    """None when b is exactly not-a, else an assignment on which both agree."""
    for s, v in _assignments([a, b]):
        if a.eval(s, v) == b.eval(s, v):
            return s, v
    return None


def satisfiable(a: B) -> bool:
    return any(a.eval(s, v) for s, v in _assignments([a]))


def implies(a: B, b: B) -> bool:
    return all((not a.eval(s, v)) or b.eval(s, v) for s, v in _assignments([a, b]))
