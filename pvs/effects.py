"""pvs.effects -- call resolution (E2) and alias/effect summaries (E4).

For every function of the package a *summary* is computed bottom-up to a fixpoint:

    writes  : in-place effects on caller-visible objects, as (root, path, how) where root is a
              parameter name (or "self.<attr>"), path navigates a dataset/dict ("validity_mask",
              "attrs", ...), how is one of
                 index       a[...] = v / a[...] op= v / a op= v on an array     (writes the buffer)
                 rebind      ds["v"] = ..., ds["v"].data = ..., d[k] = ...        (replaces a member)
                 call        a mutating library call (update/append/pop/fill/copyto/out=)
    returns : which parameters (and paths) the result may alias, per tuple position when the
              function returns tuple literals

Alias rules (numpy/xarray semantics, the trusted library model):
  * `x["v"]`, `.data`, `.values`, `.attrs`, `.coords[...]`, `.T`, `.sel/.isel`, basic slicing, `reshape`,
    `swapaxes`, `transpose`, `squeeze`, `as_strided`, `sliding_window`, `np.asarray` are views (aliases);
  * a *load* through an advanced index (array / list / `np.where` / boolean mask) is a copy;
  * a *store* through any index writes its base;
  * `.copy()` of an ndarray, `.copy(deep=True)`, `np.copy`, `copy.deepcopy`, `.astype`, arithmetic,
    allocation and reduction calls are fresh.
The walk is flow-sensitive in program order; branches are joined, loop bodies are walked twice.
"""
from __future__ import annotations

import ast
from dataclasses import dataclass, field
from typing import Dict, FrozenSet, Iterable, List, Optional, Sequence, Set, Tuple

from .astx import decorators, dotted, src, strip_docstring, walk_no_nested
from .core import AnalysisError, Tree

Ref = Tuple[str, Tuple[str, ...]]  # (root, path)

SCALAR, ARRAY, INDEX, DATASET, DATAARRAY, DICT, LIST, UNKNOWN = "scalar", "ndarray", "index", "dataset", "dataarray", "dict", "list", "unknown"
FLIST, FDICT = "fresh-list", "fresh-dict"  # containers created in this function: mutating the container is no caller-visible effect

VIEW_FUNCS = {
    "np.swapaxes", "np.transpose", "np.reshape", "np.squeeze", "np.expand_dims", "np.asarray", "np.ascontiguousarray",
    "np.lib.stride_tricks.as_strided", "as_strided", "np.ravel", "np.broadcast_to", "np.atleast_1d", "np.atleast_2d",
    "np.atleast_3d", "np.moveaxis", "np.rollaxis", "np.flip", "np.fliplr", "np.flipud", "np.array_split", "np.split",
    "np.diagonal", "np.real", "np.asanyarray", "np.rot90", "cast",
}
VIEW_METHODS = {"reshape", "transpose", "swapaxes", "squeeze", "view", "ravel", "sel", "isel", "get", "items", "values", "keys", "__getitem__", "rename", "assign_coords", "drop_vars", "expand_dims", "flatten_view"}
FRESH_METHODS = {"astype", "flatten", "tolist", "sum", "min", "max", "mean", "std", "any", "all", "argmax", "argmin", "round", "clip", "cumsum", "nonzero", "encode", "format", "split", "index", "count", "join", "to_dict", "item", "dot", "fillna", "where", "isnull", "notnull", "interp", "to_numpy_copy"}
MUTATING_METHODS = {"update", "append", "extend", "pop", "sort", "fill", "clear", "setdefault", "remove", "insert", "popitem", "itemset", "resize", "put", "partition", "reverse"}
MUTATING_FUNCS = {"np.copyto": 0, "np.put": 0, "np.place": 0, "np.putmask": 0, "np.fill_diagonal": 0, "np.put_along_axis": 0, "np.random.shuffle": 0}
INDEX_FUNCS = {"np.where", "np.argwhere", "np.nonzero", "np.flatnonzero", "np.arange", "np.isin", "np.setdiff1d", "np.argsort", "np.unique", "np.ndindex"}
SCALAR_FUNCS = {"len", "int", "float", "bool", "str", "min", "max", "abs", "round", "range", "isinstance", "math.floor", "math.ceil", "np.nanmin", "np.nanmax", "np.isnan_scalar"}
SCALAR_ATTRS = {"shape", "size", "dtype", "ndim", "sizes", "dims", "itemsize", "strides", "nbytes", "name"}


@dataclass(frozen=True)
class AV:
    refs: FrozenSet[Ref] = frozenset()
    kind: str = UNKNOWN

    def join(self, o: "AV") -> "AV":
        return AV(self.refs | o.refs, self.kind if self.kind == o.kind else UNKNOWN)


FRESH = AV()


@dataclass
class Write:
    root: str
    path: Tuple[str, ...]
    how: str
    rel: str
    func: str
    line: int
    text: str
    via: Tuple[str, ...] = ()  # call chain (callee qualnames) through which the effect is reached
    guards: Tuple[str, ...] = ()

    def key(self):
        return (self.root, self.path, self.how, self.rel, self.func, self.text, self.via)


@dataclass
class Summary:
    rel: str
    qual: str
    params: List[str]
    writes: List[Write] = field(default_factory=list)
    returns: List[Set[Ref]] = field(default_factory=list)  # per tuple position; single element when not a tuple
    ret_kinds: List[str] = field(default_factory=list)
    self_alias: Dict[str, Set[Ref]] = field(default_factory=dict)  # self.attr -> refs of params it may alias after the call

    def sig(self):
        return (
            frozenset(w.key() for w in self.writes),
            tuple(frozenset(r) for r in self.returns),
            tuple(sorted((k, frozenset(v)) for k, v in self.self_alias.items())),
        )


# --------------------------------------------------------------------------------------
# program index / call resolution
# --------------------------------------------------------------------------------------
class Program:
    def __init__(self, tree: Tree, package: str = "pandora"):
        self.tree = tree
        self.package = package
        self.files = tree.py_files(package)
        self.funcs: Dict[Tuple[str, str], ast.AST] = {}
        self.classes: Dict[Tuple[str, str], ast.ClassDef] = {}
        self.methods_by_name: Dict[str, List[Tuple[str, str]]] = {}
        self.imports: Dict[str, Dict[str, Tuple[str, Optional[str]]]] = {}  # rel -> local name -> (module dotted, symbol|None)
        self.class_bases: Dict[Tuple[str, str], List[str]] = {}
        for rel in self.files:
            m = tree.module(rel)
            for q, f in tree.funcs(rel).items():
                self.funcs[(rel, q)] = f
            for q, c in tree.classes(rel).items():
                self.classes[(rel, q)] = c
                self.class_bases[(rel, q)] = [dotted(b) or "" for b in c.bases]
            self.imports[rel] = self._imports(rel, m)
        for (rel, q), f in self.funcs.items():
            if "." in q:
                cls, _, name = q.rpartition(".")
                if (rel, cls) in self.classes:
                    self.methods_by_name.setdefault(name, []).append((rel, q))
        self.summaries: Dict[Tuple[str, str], Summary] = {}
        self.unresolved = 0
        self.resolved = 0

    # -- imports -----------------------------------------------------------------------
    def _mod_to_rel(self, dotted_mod: str) -> Optional[str]:
        p = dotted_mod.replace(".", "/")
        for cand in (p + ".py", p + "/__init__.py"):
            if self.tree.exists(cand):
                return cand
        return None

    def _imports(self, rel: str, m: ast.Module) -> Dict[str, Tuple[str, Optional[str]]]:
        out: Dict[str, Tuple[str, Optional[str]]] = {}
        pkg_parts = rel[:-3].split("/")
        if pkg_parts[-1] == "__init__":
            pkg_parts = pkg_parts[:-1]
            cur_pkg = pkg_parts
        else:
            cur_pkg = pkg_parts[:-1]
        for st in ast.walk(m):
            if isinstance(st, ast.Import):
                for a in st.names:
                    out[a.asname or a.name.split(".")[0]] = (a.name if a.asname else a.name.split(".")[0], None)
            elif isinstance(st, ast.ImportFrom):
                if st.level:
                    base = cur_pkg[: len(cur_pkg) - (st.level - 1)]
                    mod = ".".join(base + (st.module.split(".") if st.module else []))
                else:
                    mod = st.module or ""
                for a in st.names:
                    out[a.asname or a.name] = (mod, a.name)
        return out

    def resolve_symbol(self, rel: str, name: str, depth: int = 0) -> Optional[Tuple[str, str, str]]:
        """Resolve a (possibly dotted) name used in module rel to ('func'|'class'|'module', rel2, qual)."""
        if depth > 6:
            return None
        head, _, rest = name.partition(".")
        # local definitions
        if (rel, name) in self.funcs:
            return ("func", rel, name)
        if (rel, name) in self.classes:
            return ("class", rel, name)
        if (rel, head) in self.classes and rest:
            if (rel, name) in self.funcs:
                return ("func", rel, name)
            # inherited method
            r = self.find_method(rel, head, rest)
            if r:
                return ("func", r[0], r[1])
        imp = self.imports.get(rel, {}).get(head)
        if imp is None:
            return None
        mod, sym = imp
        if sym is None:
            # import a.b as x   /  import a
            target = self._mod_to_rel(mod)
            if target is None:
                return None
            if not rest:
                return ("module", target, "")
            # x.y.z : try submodule chain then symbol
            parts = rest.split(".")
            cur = mod
            i = 0
            while i < len(parts) and self._mod_to_rel(cur + "." + parts[i]):
                cur = cur + "." + parts[i]
                i += 1
            t = self._mod_to_rel(cur)
            if i == len(parts):
                return ("module", t, "")
            return self.resolve_symbol(t, ".".join(parts[i:]), depth + 1)
        # from mod import sym
        sub = self._mod_to_rel(mod + "." + sym) if mod else None
        if sub is not None and (self._mod_to_rel(mod) is None or not self._has_symbol(self._mod_to_rel(mod), sym)):
            if not rest:
                return ("module", sub, "")
            return self.resolve_symbol(sub, rest, depth + 1)
        target = self._mod_to_rel(mod) if mod else None
        if target is None:
            return None
        return self.resolve_symbol(target, sym + ("." + rest if rest else ""), depth + 1)

    def _has_symbol(self, rel: str, sym: str) -> bool:
        return (rel, sym) in self.funcs or (rel, sym) in self.classes or sym in self.imports.get(rel, {})

    # -- classes -----------------------------------------------------------------------
    def find_method(self, rel: str, cls: str, meth: str, depth: int = 0) -> Optional[Tuple[str, str]]:
        if (rel, f"{cls}.{meth}") in self.funcs:
            return (rel, f"{cls}.{meth}")
        if depth > 5:
            return None
        for b in self.class_bases.get((rel, cls), []):
            r = self.resolve_symbol(rel, b)
            if r and r[0] == "class":
                m = self.find_method(r[1], r[2], meth, depth + 1)
                if m:
                    return m
        return None

    def subclasses(self, rel: str, cls: str) -> List[Tuple[str, str]]:
        out = []
        for (r2, c2), bases in self.class_bases.items():
            for b in bases:
                rs = self.resolve_symbol(r2, b)
                if rs and rs[0] == "class" and (rs[1], rs[2]) == (rel, cls):
                    out.append((r2, c2))
                    out.extend(self.subclasses(r2, c2))
        return out

    def is_static(self, fn: ast.AST) -> bool:
        return any(d.startswith("staticmethod") for d in decorators(fn))

    def is_classmethod(self, fn: ast.AST) -> bool:
        return any(d.startswith("classmethod") for d in decorators(fn))

    # -- call resolution -----------------------------------------------------------------
    def resolve_call(self, rel: str, fn: ast.AST, call: ast.Call, local_types: Dict[str, List[Tuple[str, str]]]) -> List[Tuple[str, str, int]]:
        """-> list of (rel, qual, shift) possible callees; shift = 1 when the receiver binds `self`."""
        f = call.func
        out: List[Tuple[str, str, int]] = []
        cls_of_fn = getattr(fn, "_qual", "").rpartition(".")[0]
        if isinstance(f, ast.Name):
            r = self.resolve_symbol(rel, f.id)
            if r and r[0] == "func":
                out.append((r[1], r[2], 0))
            elif r and r[0] == "class":
                out.extend(self._ctor(r[1], r[2]))
            elif f.id in local_types:
                pass
        elif isinstance(f, ast.Attribute):
            recv = f.value
            d = dotted(recv)
            if isinstance(recv, ast.Name) and recv.id in ("self", "cls") and cls_of_fn and (rel, cls_of_fn) in self.classes:
                targets = set()
                m = self.find_method(rel, cls_of_fn, f.attr)
                if m:
                    targets.add(m)
                for sr, sc in self.subclasses(rel, cls_of_fn):
                    if (sr, f"{sc}.{f.attr}") in self.funcs:
                        targets.add((sr, f"{sc}.{f.attr}"))
                for t in sorted(targets):
                    out.append((t[0], t[1], 0 if self.is_static(self.funcs[t]) else 1))
            elif isinstance(recv, ast.Call) and isinstance(recv.func, ast.Name) and recv.func.id == "super":
                for b in self.class_bases.get((rel, cls_of_fn), []):
                    rs = self.resolve_symbol(rel, b)
                    if rs and rs[0] == "class":
                        m = self.find_method(rs[1], rs[2], f.attr)
                        if m:
                            out.append((m[0], m[1], 1))
            elif d is not None and d.split(".")[0] in local_types and "." not in d:
                for cr, cq in local_types[d]:
                    m = self.find_method(cr, cq, f.attr)
                    if m:
                        out.append((m[0], m[1], 0 if self.is_static(self.funcs[m]) else 1))
            else:
                r = self.resolve_symbol(rel, d + "." + f.attr) if d else None
                if r and r[0] == "func":
                    fnode = self.funcs[(r[1], r[2])]
                    # Class.method(...) : static -> no shift; else explicit self passed positionally
                    out.append((r[1], r[2], 0))
                    _ = fnode
                elif r and r[0] == "class":
                    out.extend(self._ctor(r[1], r[2]))
                elif d is None or d.split(".")[0] not in self.imports.get(rel, {}):
                    # method call on an arbitrary object: class-hierarchy analysis by method name
                    if f.attr not in VIEW_METHODS and f.attr not in FRESH_METHODS and f.attr not in MUTATING_METHODS and f.attr not in ("copy", "pipe", "data", "astype"):
                        for t in self.methods_by_name.get(f.attr, []):
                            out.append((t[0], t[1], 0 if self.is_static(self.funcs[t]) else 1))
        if out:
            self.resolved += 1
        else:
            self.unresolved += 1
        return out

    def _ctor(self, rel: str, cls: str) -> List[Tuple[str, str, int]]:
        out = []
        family = [(rel, cls)] + self.subclasses(rel, cls)
        for r, c in family:
            for m in ("__new__", "__init__"):
                if (r, f"{c}.{m}") in self.funcs:
                    out.append((r, f"{c}.{m}", 1))
        return out

    def family_classes(self, rel: str, call: ast.Call) -> List[Tuple[str, str]]:
        d = dotted(call.func)
        if not d:
            return []
        r = self.resolve_symbol(rel, d)
        if r and r[0] == "class":
            return [(r[1], r[2])] + self.subclasses(r[1], r[2])
        return []

    # -- summaries -----------------------------------------------------------------------
    def summarize_all(self, max_iter: int = 12) -> None:
        keys = sorted(self.funcs)
        for k in keys:
            f = self.funcs[k]
            self.summaries[k] = Summary(k[0], k[1], [a.arg for a in f.args.posonlyargs + f.args.args] + ([f.args.vararg.arg] if f.args.vararg else []) + [a.arg for a in f.args.kwonlyargs] + ([f.args.kwarg.arg] if f.args.kwarg else []))
        for it in range(max_iter):
            changed = False
            self.resolved = self.unresolved = 0
            for k in keys:
                new = _Analyzer(self, k[0], self.funcs[k]).run()
                if new.sig() != self.summaries[k].sig():
                    changed = True
                self.summaries[k] = new
            if not changed:
                self.iterations = it + 1
                return
        self.iterations = max_iter

    def summary(self, rel: str, qual: str) -> Summary:
        if not self.summaries:
            self.summarize_all()
        s = self.summaries.get((rel, qual))
        if s is None:
            raise AnalysisError(f"no summary for {rel}::{qual} (anchor vanished)")
        return s


def _ann_kind(ann: Optional[ast.AST]) -> str:
    if ann is None:
        return UNKNOWN
    t = src(ann)
    if "Dataset" in t:
        return DATASET
    if "DataArray" in t:
        return DATAARRAY
    if "ndarray" in t:
        return ARRAY
    if t in ("int", "float", "str", "bool") or t.startswith("Union[int") or t.startswith("Union[str, int") or t in ("Union[None, int]", "Optional[int]"):
        return SCALAR
    if t.lower().startswith("dict") or t.startswith("Dict"):
        return DICT
    if t.lower().startswith("list") or t.startswith("List"):
        return LIST
    return UNKNOWN


class _Analyzer:
    def __init__(self, prog: Program, rel: str, fn: ast.AST):
        self.p = prog
        self.rel = rel
        self.fn = fn
        self.qual = getattr(fn, "_qual", "?")
        a = fn.args
        self.params = [x.arg for x in a.posonlyargs + a.args] + ([a.vararg.arg] if a.vararg else []) + [x.arg for x in a.kwonlyargs] + ([a.kwarg.arg] if a.kwarg else [])
        self.env: Dict[str, AV] = {}
        for x in a.posonlyargs + a.args + a.kwonlyargs:
            self.env[x.arg] = AV(frozenset({(x.arg, ())}), _ann_kind(x.annotation))
        if a.vararg:
            self.env[a.vararg.arg] = AV(frozenset({(a.vararg.arg, ())}), LIST)
        if a.kwarg:
            self.env[a.kwarg.arg] = AV(frozenset({(a.kwarg.arg, ())}), DICT)
        self.writes: Dict[tuple, Write] = {}
        self.returns: List[List[AV]] = []
        self.local_types: Dict[str, List[Tuple[str, str]]] = {}
        # a parameter annotated with a class of the package is only ever that class (or a subclass)
        for x in a.posonlyargs + a.args + a.kwonlyargs:
            if x.annotation is not None:
                d = dotted(x.annotation)
                if d:
                    r = prog.resolve_symbol(rel, d)
                    if r and r[0] == "class":
                        self.local_types[x.arg] = [(r[1], r[2])] + prog.subclasses(r[1], r[2])
        self.guard_stack: List[str] = []
        self.selfenv: Dict[str, AV] = {}

    # -- helpers -----------------------------------------------------------------------
    def record(self, av: AV, how: str, node: ast.AST, extra_path: Tuple[str, ...] = (), via: Tuple[str, ...] = (), text: Optional[str] = None):
        for root, path in av.refs:
            w = Write(root, (path + extra_path)[:4], how, self.rel, self.qual, getattr(node, "lineno", 0), text or " ".join(src(node).split())[:200], via, tuple(self.guard_stack))
            self.writes.setdefault(w.key(), w)

    def kind_of_index(self, node: ast.AST) -> str:
        """'basic' | 'advanced' | 'unknown' for a subscript index expression."""
        if isinstance(node, ast.Slice):
            return "basic"
        if isinstance(node, ast.Constant):
            return "basic"
        if isinstance(node, ast.Tuple):
            ks = [self.kind_of_index(e) for e in node.elts]
            if "advanced" in ks:
                return "advanced"
            if "unknown" in ks:
                return "unknown"
            return "basic"
        if isinstance(node, ast.List):
            return "advanced"
        if isinstance(node, ast.UnaryOp):
            return self.kind_of_index(node.operand)
        k = self.eval(node).kind
        if k in (ARRAY, INDEX, LIST, DATAARRAY):
            return "advanced"
        if k == SCALAR:
            return "basic"
        return "unknown"

    # -- expression evaluation ---------------------------------------------------------
    def eval(self, node: Optional[ast.AST]) -> AV:
        if node is None:
            return FRESH
        if isinstance(node, ast.Constant):
            return AV(frozenset(), SCALAR)
        if isinstance(node, ast.Name):
            if node.id in self.env:
                return self.env[node.id]
            return FRESH
        if isinstance(node, ast.Attribute):
            if isinstance(node.value, ast.Name) and node.value.id == "self" and "self" in self.params:
                key = f"self.{node.attr}"
                if key in self.selfenv:
                    cur = self.selfenv[key]
                    return AV(cur.refs | frozenset({(key, ())}), cur.kind)
                return AV(frozenset({(key, ())}), UNKNOWN)
            base = self.eval(node.value)
            if node.attr in SCALAR_ATTRS:
                return AV(frozenset(), SCALAR if node.attr in ("size", "ndim", "itemsize", "nbytes") else UNKNOWN)
            if node.attr in ("data", "values"):
                return AV(base.refs, ARRAY)
            if node.attr == "attrs":
                return AV(frozenset((r, p + ("attrs",)) for r, p in base.refs), DICT)
            if node.attr == "coords":
                return AV(frozenset((r, p + ("coords",)) for r, p in base.refs), DICT)
            if node.attr in ("T", "loc", "flat", "real"):
                return AV(base.refs, base.kind)
            if base.kind in (DATASET,) and base.refs:
                # ds.var_name / ds.coord_name attribute-style access
                return AV(frozenset((r, p + (node.attr,)) for r, p in base.refs), DATAARRAY)
            return AV(base.refs, UNKNOWN)
        if isinstance(node, ast.Subscript):
            base = self.eval(node.value)
            if isinstance(node.slice, ast.Constant) and isinstance(node.slice.value, str) and base.kind not in (FLIST, FDICT):
                k = DATAARRAY if base.kind == DATASET else UNKNOWN
                return AV(frozenset((r, p + (node.slice.value,)) for r, p in base.refs), k)
            if base.kind in (FLIST, FDICT):
                return AV(base.refs, base.kind if isinstance(node.slice, ast.Slice) else UNKNOWN)
            if base.kind in (DATASET, DICT) and base.refs:
                return AV(frozenset((r, p + ("*",)) for r, p in base.refs), UNKNOWN)
            ik = self.kind_of_index(node.slice)
            if ik == "advanced":
                return AV(frozenset(), ARRAY)
            if base.kind == LIST:
                return AV(base.refs, UNKNOWN)
            # integer-only index of an ndarray yields a scalar when all dims are indexed -- unknown rank: keep view
            return AV(base.refs, base.kind if base.kind in (ARRAY, DATAARRAY) else UNKNOWN)
        if isinstance(node, (ast.BinOp,)):
            l, r = self.eval(node.left), self.eval(node.right)
            k = ARRAY if ARRAY in (l.kind, r.kind) or DATAARRAY in (l.kind, r.kind) or INDEX in (l.kind, r.kind) else (SCALAR if l.kind == r.kind == SCALAR else UNKNOWN)
            return AV(frozenset(), k)
        if isinstance(node, ast.UnaryOp):
            o = self.eval(node.operand)
            return AV(frozenset(), o.kind if o.kind in (SCALAR, ARRAY) else UNKNOWN)
        if isinstance(node, ast.Compare):
            ks = [self.eval(node.left).kind] + [self.eval(c).kind for c in node.comparators]
            return AV(frozenset(), INDEX if any(k in (ARRAY, DATAARRAY, INDEX) for k in ks) else (SCALAR if all(k == SCALAR for k in ks) else UNKNOWN))
        if isinstance(node, ast.BoolOp):
            for v in node.values:
                self.eval(v)
            return AV(frozenset(), SCALAR)
        if isinstance(node, ast.IfExp):
            self.eval(node.test)
            return self.eval(node.body).join(self.eval(node.orelse))
        if isinstance(node, (ast.List, ast.Tuple, ast.Set)):
            refs: Set[Ref] = set()
            for e in node.elts:
                refs |= self.eval(e.value if isinstance(e, ast.Starred) else e).refs
            return AV(frozenset(refs), FLIST)
        if isinstance(node, ast.Dict):
            refs = set()
            for v in node.values:
                refs |= self.eval(v).refs
            return AV(frozenset(refs), FDICT)
        if isinstance(node, (ast.ListComp, ast.GeneratorExp, ast.SetComp, ast.DictComp)):
            for g in node.generators:
                it = self.eval(g.iter)
                self.bind_target(g.target, AV(it.refs, UNKNOWN if it.kind != SCALAR else SCALAR))
            if isinstance(node, ast.DictComp):
                v = self.eval(node.value)
            else:
                v = self.eval(node.elt)
            return AV(v.refs, FLIST)
        if isinstance(node, ast.Lambda):
            return FRESH
        if isinstance(node, ast.JoinedStr):
            return AV(frozenset(), SCALAR)
        if isinstance(node, ast.Starred):
            return self.eval(node.value)
        if isinstance(node, ast.Call):
            return self.eval_call(node)
        if isinstance(node, ast.NamedExpr):
            v = self.eval(node.value)
            self.bind_target(node.target, v)
            return v
        return FRESH

    def eval_call(self, call: ast.Call) -> AV:
        f = call.func
        d = dotted(f) or ""
        args = [self.eval(a.value if isinstance(a, ast.Starred) else a) for a in call.args]
        kws = {k.arg: self.eval(k.value) for k in call.keywords}
        # out= keyword writes its argument
        if "out" in kws and kws["out"].refs:
            self.record(kws["out"], "call", call)
        if d in MUTATING_FUNCS and args:
            self.record(args[MUTATING_FUNCS[d]], "call", call)
        # library recognisers ------------------------------------------------------------
        if d in ("np.copy", "numpy.copy", "copy.deepcopy", "deepcopy", "np.array", "np.full_like", "np.zeros_like", "np.ones_like", "np.empty_like"):
            if d in ("copy.deepcopy", "deepcopy"):
                k0 = args[0].kind if args else UNKNOWN
                return AV(frozenset(), FDICT if k0 in (DICT, FDICT) else (FLIST if k0 in (LIST, FLIST) else k0))
            return AV(frozenset(), ARRAY)
        if d in ("copy.copy",):
            a0 = args[0] if args else FRESH
            return AV(a0.refs if a0.kind in (DATASET, DATAARRAY, DICT, LIST, UNKNOWN) else frozenset(), a0.kind)
        if d in VIEW_FUNCS:
            refs = set()
            for a in args[:1]:
                refs |= a.refs
            return AV(frozenset(refs), LIST if d in ("np.array_split", "np.split") else ARRAY)
        if d in INDEX_FUNCS:
            return AV(frozenset(), INDEX)
        if d in SCALAR_FUNCS:
            return AV(frozenset(), SCALAR)
        if d in ("dict", "list", "tuple", "set", "sorted", "reversed", "enumerate", "zip", "filter", "map", "iter", "next"):
            # shallow containers: elements stay shared
            refs = set()
            for a in args:
                refs |= a.refs
            if d == "dict" and call.keywords and not call.args:
                refs = set()
            return AV(frozenset(refs), FDICT if d == "dict" else FLIST)
        if d in ("xr.Dataset", "xarray.Dataset", "xr.DataArray", "xarray.DataArray"):
            # xarray wraps numpy arrays without copying
            # a new container: only the wrapped data arrays stay shared (coords / attrs are copied or immutable indexes)
            refs = set()
            for a in args[:1]:
                refs |= a.refs
            for k in ("data", "data_vars"):
                if k in kws:
                    refs |= kws[k].refs
            return AV(frozenset(refs), DATASET if d.endswith("Dataset") else DATAARRAY)
        if d in ("xr.where", "xarray.where", "xr.align", "xarray.align"):
            if d.endswith("align"):
                refs = set()
                for a in args:
                    refs |= a.refs
                return AV(frozenset(refs), LIST)
            return AV(frozenset(), DATAARRAY)
        if isinstance(f, ast.Attribute):
            recv = self.eval(f.value)
            m = f.attr
            if m == "copy":
                deep = None
                for k in call.keywords:
                    if k.arg == "deep" and isinstance(k.value, ast.Constant):
                        deep = bool(k.value.value)
                if call.args and isinstance(call.args[0], ast.Constant):
                    deep = bool(call.args[0].value)
                if deep is True or recv.kind == ARRAY:
                    return AV(frozenset(), recv.kind)
                if recv.kind in (DATASET, DATAARRAY) and deep is not True:
                    # xarray default copy(deep=False... ) for Dataset.copy() is deep=False: data shared
                    return AV(recv.refs, recv.kind)
                if recv.kind == DICT or recv.kind == LIST:
                    return AV(frozenset((r, p + ("*",)) for r, p in recv.refs), recv.kind)
                return AV(frozenset(), recv.kind)
            if m == "astype":
                cf = next((k.value for k in call.keywords if k.arg == "copy"), None)
                if isinstance(cf, ast.Constant) and cf.value is False:
                    return AV(recv.refs, ARRAY)
                return AV(frozenset(), ARRAY)
            if m == "pipe" and call.args:
                # ds.pipe(f, *a, **k) == f(ds, *a, **k)
                fake = ast.Call(func=call.args[0], args=[f.value] + list(call.args[1:]), keywords=call.keywords)
                ast.copy_location(fake, call)
                fake._parent = getattr(call, "_parent", None)  # type: ignore[attr-defined]
                return self.eval_call(fake)
            if m in MUTATING_METHODS and recv.kind in (FLIST, FDICT):
                own = AV(frozenset(x for x in recv.refs if x[0].startswith("self.") and x[1] == ()), recv.kind)
                if own.refs:
                    self.record(own, "call", call)
                extra = set()
                for a in args:
                    extra |= a.refs
                if isinstance(f.value, ast.Name):
                    self.env[f.value.id] = AV(recv.refs | frozenset(extra), recv.kind)
                return AV(recv.refs, UNKNOWN) if m in ("pop", "setdefault") else FRESH
            if m in MUTATING_METHODS and recv.refs and not self._is_module(f.value):
                self.record(recv, "call", call)
                if m in ("pop", "setdefault", "get"):
                    return AV(frozenset((r, p + ("*",)) for r, p in recv.refs), UNKNOWN)
                return FRESH
            if m in VIEW_METHODS and not self._is_module(f.value):
                return AV(recv.refs, recv.kind if m in ("sel", "isel", "reshape", "transpose", "swapaxes", "squeeze", "view", "ravel") else UNKNOWN)
            if m in FRESH_METHODS and not self._is_module(f.value):
                return AV(frozenset(), ARRAY if recv.kind in (ARRAY, DATAARRAY) else UNKNOWN)
        # in-repo callees ------------------------------------------------------------------
        callees = self.p.resolve_call(self.rel, self.fn, call, self.local_types)
        if not callees:
            k = ARRAY if d.startswith("np.") or d.startswith("numpy.") else UNKNOWN
            return AV(frozenset(), k)
        result = FRESH
        first = True
        for crel, cq, shift in callees:
            s = self.p.summaries.get((crel, cq))
            if s is None:
                continue
            binding = self._bind(call, s, shift)
            # effects
            for w in s.writes:
                av = binding.get(w.root.split(".")[0] if not w.root.startswith("self.") else "self")
                if w.root.startswith("self."):
                    # callee writes its own self.attr: visible to us if receiver aliases something of ours
                    recv_av = binding.get("self")
                    if recv_av is None or not recv_av.refs:
                        continue
                    via2 = w.via if (cq in w.via or len(w.via) >= 5) else (cq,) + w.via
                    for r, p in recv_av.refs:
                        ww = Write(r if r != "self" else "self", (p + (w.root[5:],) + w.path)[:4], w.how, w.rel, w.func, w.line, w.text, via2, tuple(self.guard_stack))
                        if r == "self":
                            ww = Write("self." + w.root[5:], w.path, w.how, w.rel, w.func, w.line, w.text, via2, tuple(self.guard_stack))
                        self.writes.setdefault(ww.key(), ww)
                    continue
                if av is None or not av.refs:
                    continue
                if cq in w.via or len(w.via) >= 5:
                    newvia = w.via
                else:
                    newvia = (cq,) + w.via
                for r, p in av.refs:
                    ww = Write(r, (p + w.path)[:4], w.how, w.rel, w.func, w.line, w.text, newvia, tuple(self.guard_stack))
                    self.writes.setdefault(ww.key(), ww)
            # self aliasing established by the callee (self.left_img = param)
            if s.self_alias and "self" in binding and any(r == "self" for r, _ in binding["self"].refs):
                for attr, refs in s.self_alias.items():
                    got: Set[Ref] = set()
                    for pr, pp in refs:
                        b = binding.get(pr)
                        if b:
                            got |= {(r, p + pp) for r, p in b.refs}
                    if got:
                        cur = self.selfenv.get(attr, FRESH)
                        self.selfenv[attr] = AV(cur.refs | frozenset(got), UNKNOWN)
            # return value
            if cq.endswith(".__init__") or cq.endswith(".__new__"):
                rv = FRESH
            else:
                refs: Set[Ref] = set()
                for pos in s.returns:
                    for pr, pp in pos:
                        b = binding.get(pr) if not pr.startswith("self.") else None
                        if b:
                            refs |= {(r, (p + pp)[:4]) for r, p in b.refs}
                kind = s.ret_kinds[0] if len(s.ret_kinds) == 1 else (LIST if s.ret_kinds else UNKNOWN)
                rv = AV(frozenset(refs), kind)
                rv = AV(rv.refs, rv.kind)
                self._last_positional = (s, binding)
            result = rv if first else result.join(rv)
            first = False
        return result

    def _is_module(self, node: ast.AST) -> bool:
        d = dotted(node)
        return d is not None and d.split(".")[0] in self.p.imports.get(self.rel, {}) and d.split(".")[0] not in self.env

    def _bind(self, call: ast.Call, s: Summary, shift: int) -> Dict[str, AV]:
        params = list(s.params)
        binding: Dict[str, AV] = {}
        pos = 0
        if shift and params:
            recv = call.func.value if isinstance(call.func, ast.Attribute) else None
            binding[params[0]] = self.eval(recv) if recv is not None and not s.qual.endswith((".__init__", ".__new__")) else FRESH
            if isinstance(recv, ast.Name) and recv.id == "self":
                binding[params[0]] = AV(frozenset({("self", ())}), UNKNOWN)
            pos = 1
        for a in call.args:
            if isinstance(a, ast.Starred):
                av = self.eval(a.value)
                for q in params[pos:]:
                    binding.setdefault(q, AV(frozenset((r, p + ("*",)) for r, p in av.refs), UNKNOWN))
                break
            if pos < len(params):
                binding[params[pos]] = self.eval(a)
                pos += 1
        for k in call.keywords:
            if k.arg is None:
                continue  # **mapping : a fresh dict at the callee (values shared, not tracked)
            if k.arg in params:
                binding[k.arg] = self.eval(k.value)
        return binding

    # -- statements --------------------------------------------------------------------
    def bind_target(self, t: ast.AST, v: AV, node: Optional[ast.AST] = None, positional: Optional[List[AV]] = None):
        if isinstance(t, ast.Name):
            self.env[t.id] = v
        elif isinstance(t, (ast.Tuple, ast.List)):
            for i, e in enumerate(t.elts):
                if positional is not None and i < len(positional) and len(positional) == len(t.elts):
                    self.bind_target(e, positional[i], node)
                else:
                    self.bind_target(e.value if isinstance(e, ast.Starred) else e, AV(v.refs, UNKNOWN), node)
        elif isinstance(t, ast.Subscript) and self.eval(t.value).kind in (FLIST, FDICT):
            base = self.eval(t.value)
            if isinstance(t.value, ast.Name):
                self.env[t.value.id] = AV(base.refs | v.refs, base.kind)
        elif isinstance(t, ast.Subscript):
            base = self.eval(t.value)
            if isinstance(t.slice, ast.Constant) and isinstance(t.slice.value, str) and base.kind in (DATASET, DICT, UNKNOWN) and base.refs:
                how = "rebind" if base.kind in (DATASET, DICT) else "index"
                self.record(base, how, node or t, (t.slice.value,))
            elif base.refs:
                how = "rebind" if base.kind in (DICT, DATASET) else "index"
                self.record(base, how, node or t, ("*",) if base.kind in (DICT, DATASET) else ())
            self.eval(t.slice)
        elif isinstance(t, ast.Attribute):
            if isinstance(t.value, ast.Name) and t.value.id == "self" and "self" in self.params:
                key = f"self.{t.attr}"
                self.selfenv[key] = v
                w = Write(key, (), "rebind", self.rel, self.qual, getattr(node or t, "lineno", 0), " ".join(src(node or t).split())[:200], (), tuple(self.guard_stack))
                self.writes.setdefault(w.key(), w)
                return
            base = self.eval(t.value)
            if base.refs:
                if t.attr in ("data", "values"):
                    self.record(base, "rebind", node or t)
                else:
                    self.record(base, "rebind", node or t, (t.attr,))

    def _call_positional(self, value: ast.AST) -> Optional[List[AV]]:
        """When value is a call to a single in-repo callee returning tuple literals: per-position AVs."""
        if isinstance(value, ast.Tuple):
            return [self.eval(e) for e in value.elts]
        if not isinstance(value, ast.Call):
            return None
        callees = self.p.resolve_call(self.rel, self.fn, value, self.local_types)
        outs: Optional[List[AV]] = None
        for crel, cq, shift in callees:
            s = self.p.summaries.get((crel, cq))
            if s is None or len(s.returns) < 2:
                return None
            binding = self._bind(value, s, shift)
            cur = []
            for i, pos in enumerate(s.returns):
                refs: Set[Ref] = set()
                for pr, pp in pos:
                    b = binding.get(pr)
                    if b:
                        refs |= {(r, (p + pp)[:4]) for r, p in b.refs}
                cur.append(AV(frozenset(refs), s.ret_kinds[i] if i < len(s.ret_kinds) else UNKNOWN))
            if outs is None:
                outs = cur
            elif len(outs) == len(cur):
                outs = [a.join(b) for a, b in zip(outs, cur)]
            else:
                return None
        return outs

    def stmt(self, st: ast.stmt):
        if isinstance(st, ast.Assign):
            v = self.eval(st.value)
            positional = None
            if any(isinstance(t, (ast.Tuple, ast.List)) for t in st.targets):
                positional = self._call_positional(st.value)
            # remember the class family of step objects: x = pkg.AbstractY(...)
            if isinstance(st.value, ast.Call) and len(st.targets) == 1 and isinstance(st.targets[0], ast.Name):
                fam = self.p.family_classes(self.rel, st.value)
                if fam:
                    self.local_types[st.targets[0].id] = fam
            for t in st.targets:
                self.bind_target(t, v, st, positional)
        elif isinstance(st, ast.AnnAssign):
            if st.value is not None:
                self.bind_target(st.target, self.eval(st.value), st)
        elif isinstance(st, ast.AugAssign):
            self.eval(st.value)
            t = st.target
            if isinstance(t, ast.Name):
                cur = self.env.get(t.id, FRESH)
                if cur.refs and cur.kind not in (SCALAR,):
                    self.record(cur, "index", st)
                elif not cur.refs:
                    pass
            elif isinstance(t, ast.Subscript):
                base = self.eval(t.value)
                if base.refs:
                    if isinstance(t.slice, ast.Constant) and isinstance(t.slice.value, str) and base.kind in (DATASET, DICT):
                        # ds["v"] += x  : in-place on the variable's data
                        self.record(base, "index", st, (t.slice.value,))
                    else:
                        self.record(base, "index", st)
                self.eval(t.slice)
            elif isinstance(t, ast.Attribute):
                base = self.eval(t.value)
                if isinstance(t.value, ast.Name) and t.value.id == "self":
                    key = f"self.{t.attr}"
                    w = Write(key, (), "rebind", self.rel, self.qual, st.lineno, " ".join(src(st).split())[:200], (), tuple(self.guard_stack))
                    self.writes.setdefault(w.key(), w)
                elif base.refs:
                    self.record(base, "index", st, () if t.attr in ("data", "values") else (t.attr,))
        elif isinstance(st, ast.Expr):
            self.eval(st.value)
        elif isinstance(st, ast.Return):
            if st.value is not None:
                if isinstance(st.value, ast.Tuple):
                    self.returns.append([self.eval(e) for e in st.value.elts])
                else:
                    self.returns.append([self.eval(st.value)])
        elif isinstance(st, ast.If):
            self.eval(st.test)
            before = dict(self.env), dict(self.selfenv)
            self.guard_stack.append(" ".join(src(st.test).split())[:160])
            self.block(st.body)
            self.guard_stack.pop()
            e1, s1 = self.env, self.selfenv
            self.env, self.selfenv = dict(before[0]), dict(before[1])
            self.guard_stack.append("not (" + " ".join(src(st.test).split())[:150] + ")")
            self.block(st.orelse)
            self.guard_stack.pop()
            self.env = _join_env(e1, self.env)
            self.selfenv = _join_env(s1, self.selfenv)
        elif isinstance(st, (ast.For, ast.While)):
            if isinstance(st, ast.For):
                it = self.eval(st.iter)
                itk = SCALAR if (isinstance(st.iter, ast.Call) and (dotted(st.iter.func) or "") in ("range", "prange", "np.arange", "numba.prange")) else UNKNOWN
                if isinstance(st.iter, ast.Call) and (dotted(st.iter.func) or "") in ("enumerate",) and isinstance(st.target, ast.Tuple) and len(st.target.elts) == 2:
                    self.bind_target(st.target.elts[0], AV(frozenset(), SCALAR))
                    self.bind_target(st.target.elts[1], AV(it.refs, UNKNOWN))
                elif isinstance(st.iter, ast.Call) and (dotted(st.iter.func) or "") in ("np.ndenumerate",) and isinstance(st.target, ast.Tuple):
                    self.bind_target(st.target.elts[0], AV(frozenset(), SCALAR))
                    self.bind_target(st.target.elts[1], AV(frozenset(), SCALAR))
                else:
                    self.bind_target(st.target, AV(it.refs if itk != SCALAR else frozenset(), itk))
            else:
                self.eval(st.test)
            before = dict(self.env), dict(self.selfenv)
            for _ in range(2):
                self.block(st.body)
                self.env = _join_env(before[0], self.env)
                self.selfenv = _join_env(before[1], self.selfenv)
            self.block(st.orelse)
        elif isinstance(st, ast.With):
            for it in st.items:
                v = self.eval(it.context_expr)
                if it.optional_vars is not None:
                    self.bind_target(it.optional_vars, v)
            self.block(st.body)
        elif isinstance(st, ast.Try):
            self.block(st.body)
            for h in st.handlers:
                self.block(h.body)
            self.block(st.orelse)
            self.block(st.finalbody)
        elif isinstance(st, ast.Delete):
            for t in st.targets:
                if isinstance(t, ast.Subscript):
                    base = self.eval(t.value)
                    if base.refs:
                        self.record(base, "call", st)
        elif isinstance(st, (ast.FunctionDef, ast.AsyncFunctionDef, ast.ClassDef)):
            pass
        elif isinstance(st, ast.Raise):
            self.eval(st.exc)
        elif isinstance(st, ast.Assert):
            self.eval(st.test)

    def block(self, body: Sequence[ast.stmt]):
        for st in body:
            self.stmt(st)

    def run(self) -> Summary:
        self.block(strip_docstring(self.fn.body))
        s = Summary(self.rel, self.qual, self.params)
        pset = set(self.params)
        for w in self.writes.values():
            root0 = w.root.split(".")[0]
            if root0 in pset or w.root.startswith("self."):
                s.writes.append(w)
        # returns
        if self.returns:
            n = len(self.returns[0])
            if all(len(r) == n for r in self.returns) and n > 1:
                for i in range(n):
                    refs: Set[Ref] = set()
                    kinds = set()
                    for r in self.returns:
                        refs |= {x for x in r[i].refs if x[0].split(".")[0] in pset}
                        kinds.add(r[i].kind)
                    s.returns.append(refs)
                    s.ret_kinds.append(kinds.pop() if len(kinds) == 1 else UNKNOWN)
            else:
                refs = set()
                kinds = set()
                for r in self.returns:
                    for av in r:
                        refs |= {x for x in av.refs if x[0].split(".")[0] in pset}
                    kinds.add(r[0].kind if len(r) == 1 else LIST)
                s.returns.append(refs)
                s.ret_kinds.append(kinds.pop() if len(kinds) == 1 else UNKNOWN)
        # self aliasing: self.attr may alias params after the call
        for key, av in self.selfenv.items():
            refs = {x for x in av.refs if x[0] in pset and x[0] != "self"}
            if refs:
                s.self_alias[key] = refs
        return s


def _join_env(a: Dict[str, AV], b: Dict[str, AV]) -> Dict[str, AV]:
    out = dict(a)
    for k, v in b.items():
        out[k] = out[k].join(v) if k in out else v
    return out


_PROGRAMS: Dict[int, Program] = {}


def program(tree: Tree) -> Program:
    p = _PROGRAMS.get(id(tree))
    if p is None:
        p = Program(tree)
        p.summarize_all()
        _PROGRAMS[id(tree)] = p
    return p
