"""pvs.jsonchk -- predicate evaluator and model of json_checker 2.0.0 (E5).

A schema entry of the repository (`And(int, lambda x: ...)`, `Or(int, float, lambda ...)`, a bare type, a bare
lambda, `[int, int]`, a named function) is parsed from the syntax tree into a small checker tree and its
accepted set is computed over a finite *partition of the value space*: the kinds {None, bool, int, float, nan,
+-inf, str, list, dict} and, inside int/float, the cells induced by every constant and modulus that occurs in
the code's predicate *or* in the specification's predicate.  The predicates allowed (comparisons with constants,
`% m == r`, `in (constants)`, `is None`, and/or/not/&/|, chained comparisons, np.isnan, common.is_method) are
constant on each cell, so one representative per cell decides the entry exactly; anything outside this language
raises AnalysisError (never a guess).

Model of json_checker 2.0.0 (read from its source, /venv/lib/python3.12/site-packages/json_checker/core):
  Validator   expected == current accepts at once; otherwise dispatch on the kind of `expected`
  type        isinstance(current, type)                   (bool passes int)
  function    truthiness of f(current); TypeError / ValueError count as rejection
  And         every member accepts
  Or          members are pre-filtered: kept iff isinstance(member, (type(current), FunctionType)) or member is
              type(current); nothing kept -> rejection; then any kept member accepts
  [a, b]      current must be a non-empty list/tuple/set; same length -> positional, else every element against a
  OptionalKey the key may be absent; unknown keys are rejected (ignore_extra_keys=False)
"""
from __future__ import annotations

import ast
import math
from typing import Any, Callable, Dict, List, Optional, Sequence, Set, Tuple

from .astx import dotted, src
from .core import AnalysisError


class Reject(Exception):
    """TypeError / ValueError inside a predicate: json_checker's FunctionChecker turns them into a rejection."""


class Escapes(Exception):
    """Another exception escapes the checker (AttributeError ...): neither accepted nor cleanly rejected."""


# --------------------------------------------------------------------------------------
# predicate interpreter (restricted language)
# --------------------------------------------------------------------------------------
def _isnan(v: Any) -> bool:
    if isinstance(v, (bool, int, float)):
        return math.isnan(float(v))
    if isinstance(v, (list, tuple)):
        raise Reject("truth value of an array is ambiguous")  # ValueError in numpy
    raise Reject("ufunc 'isnan' not supported for the input types")  # TypeError


def eval_pred(node: ast.AST, env: Dict[str, Any], helpers: Optional[Dict[str, Callable]] = None) -> Any:
    helpers = helpers or {}
    try:
        return _ev(node, env, helpers)
    except (TypeError, ValueError) as exc:
        raise Reject(str(exc)) from exc
    except ZeroDivisionError as exc:
        raise Escapes(str(exc)) from exc


def _ev(n: ast.AST, env, helpers):
    if isinstance(n, ast.Constant):
        return n.value
    if isinstance(n, ast.Name):
        if n.id in env:
            return env[n.id]
        if n.id in ("True", "False", "None"):
            return {"True": True, "False": False, "None": None}[n.id]
        raise AnalysisError(f"predicate uses an unknown name `{n.id}`")
    if isinstance(n, (ast.Tuple, ast.List, ast.Set)):
        vals = [_ev(e, env, helpers) for e in n.elts]
        return tuple(vals) if isinstance(n, ast.Tuple) else vals if isinstance(n, ast.List) else set(vals)
    if isinstance(n, ast.UnaryOp):
        v = _ev(n.operand, env, helpers)
        if isinstance(n.op, ast.Not):
            return not v
        if isinstance(n.op, ast.USub):
            return -v
        if isinstance(n.op, ast.UAdd):
            return +v
        if isinstance(n.op, ast.Invert):
            return ~v
    if isinstance(n, ast.BoolOp):
        if isinstance(n.op, ast.And):
            v = True
            for x in n.values:
                v = _ev(x, env, helpers)
                if not v:
                    return v
            return v
        v = False
        for x in n.values:
            v = _ev(x, env, helpers)
            if v:
                return v
        return v
    if isinstance(n, ast.BinOp):
        l, r = _ev(n.left, env, helpers), _ev(n.right, env, helpers)
        ops = {ast.Add: lambda a, b: a + b, ast.Sub: lambda a, b: a - b, ast.Mult: lambda a, b: a * b, ast.Mod: lambda a, b: a % b, ast.FloorDiv: lambda a, b: a // b, ast.Div: lambda a, b: a / b, ast.BitAnd: lambda a, b: a & b, ast.BitOr: lambda a, b: a | b, ast.Pow: lambda a, b: a**b}
        if type(n.op) not in ops:
            raise AnalysisError(f"operator {type(n.op).__name__} outside the predicate language")
        return ops[type(n.op)](l, r)
    if isinstance(n, ast.Compare):
        left = _ev(n.left, env, helpers)
        for op, c in zip(n.ops, n.comparators):
            right = _ev(c, env, helpers)
            if isinstance(op, ast.Eq):
                ok = left == right
            elif isinstance(op, ast.NotEq):
                ok = left != right
            elif isinstance(op, ast.Lt):
                ok = left < right
            elif isinstance(op, ast.LtE):
                ok = left <= right
            elif isinstance(op, ast.Gt):
                ok = left > right
            elif isinstance(op, ast.GtE):
                ok = left >= right
            elif isinstance(op, ast.Is):
                ok = left is right
            elif isinstance(op, ast.IsNot):
                ok = left is not right
            elif isinstance(op, ast.In):
                ok = left in right
            elif isinstance(op, ast.NotIn):
                ok = left not in right
            else:
                raise AnalysisError("comparison outside the predicate language")
            if not ok:
                return False
            left = right
        return True
    if isinstance(n, ast.Call):
        f = dotted(n.func) or ""
        args = [_ev(a, env, helpers) for a in n.args]
        if f in ("np.isnan", "numpy.isnan", "math.isnan"):
            return _isnan(args[0])
        if f in ("np.isinf", "numpy.isinf"):
            if isinstance(args[0], (bool, int, float)):
                return math.isinf(float(args[0]))
            raise Reject("isinf")
        if f.split(".")[-1] == "is_method" and len(args) == 2:
            return args[0] in args[1]
        if f == "isinstance":
            raise AnalysisError("isinstance in a predicate is not modelled")
        if f == "len":
            return len(args[0])
        if f == "abs":
            return abs(args[0])
        if f == "float":
            return float(args[0])
        if f == "int":
            return int(args[0])
        if f in helpers:
            return helpers[f](*args)
        raise AnalysisError(f"call to `{f}` outside the predicate language")
    if isinstance(n, ast.IfExp):
        return _ev(n.body, env, helpers) if _ev(n.test, env, helpers) else _ev(n.orelse, env, helpers)
    raise AnalysisError(f"construct `{src(n)[:60]}` outside the predicate language")


# --------------------------------------------------------------------------------------
# checker trees
# --------------------------------------------------------------------------------------
class Chk:
    def __init__(self, kind: str, *args, node: Optional[ast.AST] = None):
        self.kind = kind  # type | func | named | and | or | list | const | any
        self.args = args
        self.node = node

    def text(self) -> str:
        if self.kind == "type":
            return self.args[0].__name__
        if self.kind == "func":
            return src(self.args[1])
        if self.kind == "named":
            return self.args[0]
        if self.kind in ("and", "or"):
            return f"{self.kind.capitalize()}({', '.join(c.text() for c in self.args[0])})"
        if self.kind == "list":
            return "[" + ", ".join(c.text() for c in self.args[0]) + "]"
        if self.kind == "const":
            return repr(self.args[0])
        return self.kind


TYPES = {"int": int, "float": float, "str": str, "bool": bool, "dict": dict, "list": list}


def parse_checker(node: ast.AST, named: Optional[Dict[str, Callable[[Any], bool]]] = None) -> Chk:
    named = named or {}
    if isinstance(node, ast.Name) and node.id in TYPES:
        return Chk("type", TYPES[node.id], node=node)
    if isinstance(node, ast.Lambda):
        if len(node.args.args) != 1:
            raise AnalysisError("schema lambda with several parameters")
        return Chk("func", node.args.args[0].arg, node.body, node=node)
    if isinstance(node, ast.Call) and (dotted(node.func) or "") in ("And", "Or"):
        return Chk((dotted(node.func) or "").lower(), [parse_checker(a, named) for a in node.args], node=node)
    if isinstance(node, ast.List):
        return Chk("list", [parse_checker(a, named) for a in node.elts], node=node)
    if isinstance(node, ast.Name):
        return Chk("named", node.id, node=node)
    if isinstance(node, ast.Constant):
        return Chk("const", node.value, node=node)
    raise AnalysisError(f"schema entry `{src(node)[:80]}` is outside the modelled json_checker forms")


def accepts(c: Chk, v: Any, named: Optional[Dict[str, Callable[[Any], bool]]] = None) -> bool:
    named = named or {}
    if c.kind == "const":
        return v == c.args[0] and type(v) is type(c.args[0]) or v == c.args[0]
    if c.kind == "type":
        return isinstance(v, c.args[0])
    if c.kind == "func":
        try:
            return bool(eval_pred(c.args[1], {c.args[0]: v}))
        except Reject:
            return False
    if c.kind == "named":
        f = named.get(c.args[0])
        if f is None:
            raise AnalysisError(f"named checker `{c.args[0]}` has no model")
        return bool(f(v))
    if c.kind == "and":
        return all(accepts(x, v, named) for x in c.args[0])
    if c.kind == "or":
        kept = []
        for x in c.args[0]:
            if x.kind in ("func", "named"):
                kept.append(x)
            elif x.kind == "type" and x.args[0] is type(v):
                kept.append(x)
            elif x.kind == "const" and isinstance(x.args[0], type(v)):
                kept.append(x)
            elif x.kind in ("and", "or", "list"):
                # operators are objects: isinstance(obj, type(current)) is false unless current is such an object
                if x.kind == "list" and isinstance(v, list):
                    kept.append(x)
        if not kept:
            return False
        return any(accepts(x, v, named) for x in kept)
    if c.kind == "list":
        exp = c.args[0]
        if not isinstance(v, (list, tuple, set, frozenset)):
            return False
        if (not v and exp) or (not exp and v):
            return False
        if not exp and not v:
            return True
        if len(exp) == len(v):
            return all(accepts(e, x, named) for e, x in zip(exp, v))
        return all(accepts(exp[0], x, named) for x in v)
    raise AnalysisError(f"checker kind {c.kind}")


# --------------------------------------------------------------------------------------
# representatives: one value per cell of the partition induced by the constants and moduli
# --------------------------------------------------------------------------------------
def constants_in(nodes: Sequence[ast.AST]) -> Tuple[Set[float], Set[int], Set[str]]:
    nums: Set[float] = set()
    mods: Set[int] = set()
    strs: Set[str] = set()
    for node in nodes:
        for n in ast.walk(node):
            if isinstance(n, ast.Constant):
                if isinstance(n.value, bool):
                    continue
                if isinstance(n.value, (int, float)):
                    nums.add(n.value)
                elif isinstance(n.value, str):
                    strs.add(n.value)
            if isinstance(n, ast.BinOp) and isinstance(n.op, ast.Mod) and isinstance(n.right, ast.Constant) and isinstance(n.right.value, int):
                mods.add(n.right.value)
    return nums, mods, strs


def representatives(nodes: Sequence[ast.AST], extra_strings: Sequence[str] = ()) -> List[Any]:
    nums, mods, strs = constants_in(nodes)
    lcm = 1
    for m in mods:
        if m:
            lcm = lcm * abs(m) // math.gcd(lcm, abs(m))
    ints: Set[int] = set(range(-2 * lcm - 2, 2 * lcm + 8))
    floats: Set[float] = {-1.5, -0.5, 0.0, 0.25, 0.5, 0.75, 1.0, 1.5, 2.5, 1e6, -1e6}
    for c in nums:
        ci = int(math.floor(c))
        for k in range(-lcm - 1, lcm + 2):
            ints.add(ci + k)
        for d in (-1.0, -0.5, -1e-9, 0.0, 1e-9, 0.5, 1.0):
            floats.add(float(c) + d)
    ints |= {10**6, -(10**6)}
    out: List[Any] = [None, True, False]
    out += sorted(ints)
    out += sorted(floats) + [float("nan"), float("inf"), float("-inf")]
    out += sorted(set(strs) | set(extra_strings) | {"", "x", "NaN", "1"})
    out += [[], [1], [1, 2], [2, 1], [1, 2, 3], ["a", "b"], [1.5, 2], {}, {"a": 1}]
    return out


def kind_of(v: Any) -> str:
    if v is None:
        return "None"
    if isinstance(v, bool):
        return "bool"
    if isinstance(v, int):
        return "int"
    if isinstance(v, float):
        if math.isnan(v):
            return "nan"
        if math.isinf(v):
            return "inf"
        return "float"
    if isinstance(v, str):
        return "str"
    if isinstance(v, list):
        return "list"
    if isinstance(v, dict):
        return "dict"
    return type(v).__name__


def compare_with_spec(code: Chk, spec_kinds: Sequence[str], spec_pred: Optional[str], reps: Sequence[Any], named=None, skip_kinds: Sequence[str] = ("bool",)) -> Tuple[Optional[Tuple[Any, bool, bool]], int]:
    """First representative on which code and specification disagree (value, code accepts, spec accepts)."""
    pred = ast.parse(spec_pred, mode="eval").body if spec_pred else None
    n = 0
    for v in reps:
        k = kind_of(v)
        if k in skip_kinds:
            continue
        n += 1
        a = accepts(code, v, named)
        if k not in spec_kinds:
            b = False
        elif pred is None:
            b = True
        else:
            try:
                b = bool(eval_pred(pred, {"x": v}))
            except Reject:
                b = False
        if a != b:
            return (v, a, b), n
    return None, n
