"""pvs.flow -- structured control-flow walker (E3).

Enumerates the acyclic paths of a function body (loops are taken 0, 1 and 2 times; the
statement kinds handled are the ones this repository uses: If/For/While/Try/With/Return/
Raise/Break/Continue/Match-free).  A path is a list of *events* in execution order:

    ("call", ast.Call)         every call expression, in evaluation order
    ("store", ast.stmt, tgt)   every assignment target
    ("test", ast.expr, bool)   a branch decision
    ("enter-loop", node) / ("exit-loop", node)
    ("return", ast.Return) / ("raise", ast.Raise)

and ends in one of the exits "return" (explicit), "fall" (end of body), "raise".  Rules are then
predicates over *all* normal-exit paths (must-pass-through, ordering, dominance), which is exact
for loop-free code and a sound under-approximation of "must" facts for loops (a fact that holds
on 0, 1 and 2 iterations of a structured loop whose body is iteration-independent holds on n).

Exceptional control flow: a `try` body is assumed to complete normally on the normal paths; a
handler contributes paths that start at the *beginning* of the try statement (none of the body's
events is assumed to have happened: conservative for must-facts).
"""
from __future__ import annotations

import ast
from typing import Callable, Dict, List, Optional, Sequence, Tuple

from .core import AnalysisError
from .astx import strip_docstring

Event = tuple
MAX_PATHS = 20000


class Path:
    __slots__ = ("events", "exit")

    def __init__(self, events: List[Event], exit_: str):
        self.events = events
        self.exit = exit_

    def calls(self) -> List[ast.Call]:
        return [e[1] for e in self.events if e[0] == "call"]

    def index_of(self, pred: Callable[[Event], bool], start: int = 0) -> int:
        for i in range(start, len(self.events)):
            if pred(self.events[i]):
                return i
        return -1

    def last_index_of(self, pred: Callable[[Event], bool]) -> int:
        for i in range(len(self.events) - 1, -1, -1):
            if pred(self.events[i]):
                return i
        return -1


def _expr_events(node: Optional[ast.AST]) -> List[Event]:
    """Calls inside an expression in evaluation (post-)order; lambdas/comprehension bodies included
    syntactically (they are tiny here), nested defs excluded."""
    out: List[Event] = []
    if node is None:
        return out

    def visit(n: ast.AST):
        if isinstance(n, (ast.FunctionDef, ast.AsyncFunctionDef, ast.ClassDef, ast.Lambda)):
            return
        for ch in ast.iter_child_nodes(n):
            visit(ch)
        if isinstance(n, ast.Call):
            out.append(("call", n))

    visit(node)
    return out


class _Enum:
    def __init__(self, inline: Optional[Callable[[ast.Call], Optional[ast.AST]]] = None, loop_iters: Sequence[int] = (0, 1, 2)):
        self.inline = inline
        self.loop_iters = tuple(loop_iters)
        self.count = 0
        self._inlining: List[ast.AST] = []

    # every function returns a list of (events, state) with state in
    # "next" | "return" | "raise" | "break" | "continue"
    def block(self, stmts: Sequence[ast.stmt]) -> List[Tuple[List[Event], str]]:
        paths: List[Tuple[List[Event], str]] = [([], "next")]
        for st in stmts:
            new: List[Tuple[List[Event], str]] = []
            live = [(ev, s) for ev, s in paths if s == "next"]
            done = [(ev, s) for ev, s in paths if s != "next"]
            if not live:
                break
            sub = self.stmt(st)
            for ev, _ in live:
                for ev2, s2 in sub:
                    new.append((ev + ev2, s2))
            paths = done + new
            self.count = len(paths)
            if len(paths) > MAX_PATHS:
                raise AnalysisError("too many paths for the structured walker")
        return paths

    def _call_events(self, node: Optional[ast.AST]) -> List[List[Event]]:
        """Expression events, with optional one-level inlining of helper calls: returns alternatives."""
        evs = _expr_events(node)
        if self.inline is None:
            return [evs]
        alts: List[List[Event]] = [[]]
        for e in evs:
            target = self.inline(e[1]) if e[0] == "call" else None
            if target is not None and target not in self._inlining and len(self._inlining) < 2:
                self._inlining.append(target)
                sub = self.block(strip_docstring(target.body))  # type: ignore[attr-defined]
                self._inlining.pop()
                subs = [ev for ev, s in sub if s in ("next", "return")]
                if not subs:
                    subs = [[]]
                alts = [a + [e] + list(s) for a in alts for s in subs]
            else:
                alts = [a + [e] for a in alts]
        return alts

    def stmt(self, st: ast.stmt) -> List[Tuple[List[Event], str]]:
        if isinstance(st, (ast.FunctionDef, ast.AsyncFunctionDef, ast.ClassDef, ast.Import, ast.ImportFrom, ast.Pass, ast.Global, ast.Nonlocal)):
            return [([], "next")]
        if isinstance(st, ast.Expr):
            return [(ev, "next") for ev in self._call_events(st.value)]
        if isinstance(st, ast.Assign):
            out = []
            for ev in self._call_events(st.value):
                evs = list(ev)
                for t in st.targets:
                    evs += _expr_events(t)
                    evs.append(("store", st, t))
                out.append((evs, "next"))
            return out
        if isinstance(st, ast.AugAssign):
            return [(ev + _expr_events(st.target) + [("store", st, st.target)], "next") for ev in self._call_events(st.value)]
        if isinstance(st, ast.AnnAssign):
            if st.value is None:
                return [([], "next")]
            return [(ev + [("store", st, st.target)], "next") for ev in self._call_events(st.value)]
        if isinstance(st, ast.Return):
            return [(ev + [("return", st)], "return") for ev in self._call_events(st.value)]
        if isinstance(st, ast.Raise):
            return [(_expr_events(st.exc) + [("raise", st)], "raise")]
        if isinstance(st, ast.Delete):
            return [([("delete", st)], "next")]
        if isinstance(st, ast.Assert):
            return [(_expr_events(st.test), "next")]
        if isinstance(st, ast.Break):
            return [([], "break")]
        if isinstance(st, ast.Continue):
            return [([], "continue")]
        if isinstance(st, ast.If):
            out = []
            for tev in self._call_events(st.test):
                for ev, s in self.block(st.body):
                    out.append((tev + [("test", st.test, True)] + ev, s))
                for ev, s in self.block(st.orelse):
                    out.append((tev + [("test", st.test, False)] + ev, s))
            return out
        if isinstance(st, (ast.For, ast.While)):
            head = _expr_events(st.iter) if isinstance(st, ast.For) else _expr_events(st.test)
            body = self.block(st.body)
            results: List[Tuple[List[Event], str]] = []
            for n in self.loop_iters:
                # paths that do exactly n (or fewer, when breaking) iterations
                cur: List[Tuple[List[Event], str]] = [(list(head) + [("enter-loop", st)], "next")]
                for _ in range(n):
                    nxt = []
                    for ev, s in cur:
                        if s != "next":
                            nxt.append((ev, s))
                            continue
                        for bev, bs in body:
                            if bs in ("next", "continue"):
                                nxt.append((ev + [("iter", st)] + bev, "next"))
                            elif bs == "break":
                                nxt.append((ev + [("iter", st)] + bev, "broke"))
                            else:
                                nxt.append((ev + [("iter", st)] + bev, bs))
                    cur = nxt
                    if len(cur) > MAX_PATHS:
                        raise AnalysisError("too many paths for the structured walker (loop)")
                for ev, s in cur:
                    if s == "next":
                        # loop condition false / iterable exhausted -> else clause
                        for eev, es in self.block(st.orelse) if st.orelse else [([], "next")]:
                            results.append((ev + [("exit-loop", st)] + eev, es))
                    elif s == "broke":
                        results.append((ev + [("exit-loop", st)], "next"))
                    else:
                        results.append((ev, s))
            # de-duplicate identical event lists
            seen, uniq = set(), []
            for ev, s in results:
                k = (tuple(id(e[1]) if len(e) > 1 else e[0] for e in ev), tuple(e[0] for e in ev), s)
                if k not in seen:
                    seen.add(k)
                    uniq.append((ev, s))
            return uniq
        if isinstance(st, ast.With):
            head: List[Event] = []
            for it in st.items:
                head += _expr_events(it.context_expr)
            return [(head + ev, s) for ev, s in self.block(st.body)]
        if isinstance(st, ast.Try):
            out = []
            fin = self.block(st.finalbody) if st.finalbody else [([], "next")]
            normal = []
            for ev, s in self.block(st.body):
                if s == "next" and st.orelse:
                    for eev, es in self.block(st.orelse):
                        normal.append((ev + eev, es))
                else:
                    normal.append((ev, s))
            handled = []
            for h in st.handlers:
                for ev, s in self.block(h.body):
                    handled.append(([("except", h)] + ev, s))
            for ev, s in normal + handled:
                for fev, fs in fin:
                    out.append((ev + fev, s if fs == "next" else fs))
            return out
        if isinstance(st, ast.Match):
            raise AnalysisError("match statement not modelled by the structured walker")
        return [(_expr_events(st), "next")]


def paths_of(fn: ast.AST, inline: Optional[Callable[[ast.Call], Optional[ast.AST]]] = None, loop_iters: Sequence[int] = (0, 1, 2)) -> List[Path]:
    en = _Enum(inline, loop_iters)
    res = en.block(strip_docstring(fn.body))  # type: ignore[attr-defined]
    out = []
    for ev, s in res:
        if s == "next":
            out.append(Path(ev, "fall"))
        elif s in ("return", "raise"):
            out.append(Path(ev, s))
        else:  # break/continue outside a loop cannot happen in valid code
            out.append(Path(ev, "fall"))
    return out


def normal_paths(fn: ast.AST, **kw) -> List[Path]:
    return [p for p in paths_of(fn, **kw) if p.exit in ("return", "fall")]
