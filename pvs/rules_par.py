"""Schedule independence of numba prange kernels (C18.PRANGE, C12.PRANGE, C06.PRANGE) and the
PANDORA_NUMBA_PARALLEL switch (C18.SWITCH)."""
from __future__ import annotations

import ast
from typing import Dict, List, Optional, Set, Tuple

from .astx import calls_in, decorators, dotted, src, walk_no_nested
from .core import AnalysisError, Ctx, Tree
from .sym import canon

FRESH_CALLS = {"zeros", "ones", "empty", "full", "copy", "arange", "repeat", "array", "hstack", "vstack", "zeros_like", "full_like", "linspace", "flatten", "reshape", "cumsum", "nanquantile", "where", "argwhere", "tile", "astype"}


def is_prange(node: ast.AST) -> bool:
    return isinstance(node, ast.For) and isinstance(node.iter, ast.Call) and (dotted(node.iter.func) or "").split(".")[-1] == "prange"


def outer_pranges(fn: ast.AST) -> List[ast.For]:
    out = []
    for n in walk_no_nested(fn):
        if is_prange(n):
            anc = getattr(n, "_parent", None)
            nested = False
            while anc is not None and anc is not fn:
                if is_prange(anc):
                    nested = True
                anc = getattr(anc, "_parent", None)
            if not nested:
                out.append(n)
    return out


def functions_with_prange(tree: Tree) -> List[Tuple[str, str, ast.AST]]:
    out = []
    for rel in tree.py_files("pandora"):
        for q, fn in sorted(tree.funcs(rel).items()):
            if any(is_prange(n) for n in walk_no_nested(fn)):
                out.append((rel, q, fn))
    return out


def _first_index(sub: ast.Subscript) -> ast.AST:
    sl = sub.slice
    return sl.elts[0] if isinstance(sl, ast.Tuple) and sl.elts else sl


def _base_name(node: ast.AST) -> Optional[str]:
    cur = node
    while isinstance(cur, (ast.Subscript, ast.Attribute)):
        cur = cur.value
    return cur.id if isinstance(cur, ast.Name) else None


def check_prange_loop(ctx: Ctx, rid: str, rel: str, fn: ast.AST, lp: ast.For) -> None:
    qual = getattr(fn, "_qual", "?")
    v = lp.target.id if isinstance(lp.target, ast.Name) else None
    if v is None:
        raise AnalysisError(f"{qual}: prange target is not a simple name")
    # names bound before the loop (shared) vs first bound inside (private)
    params = {a.arg for a in fn.args.posonlyargs + fn.args.args + fn.args.kwonlyargs}
    before: Set[str] = set(params)
    for st in walk_no_nested(fn):
        if isinstance(st, (ast.Assign, ast.AugAssign, ast.AnnAssign, ast.For)) and st.lineno < lp.lineno and not any(a is lp for a in _anc(st)):
            for t in ast.walk(st.targets[0] if isinstance(st, ast.Assign) and len(st.targets) == 1 else (st.target if hasattr(st, "target") else st)):
                if isinstance(t, ast.Name) and isinstance(t.ctx, ast.Store):
                    before.add(t.id)
            if isinstance(st, ast.Assign):
                for tt in st.targets:
                    for t in ast.walk(tt):
                        if isinstance(t, ast.Name) and isinstance(t.ctx, ast.Store):
                            before.add(t.id)
    # classification of names assigned inside the body
    private: Dict[str, str] = {}  # name -> 'fresh' | 'own-view' | 'alias:<shared>' | 'scalar'
    inner_vars = {n.target.id for n in walk_no_nested(lp) if isinstance(n, ast.For) and isinstance(n.target, ast.Name)}
    for st in walk_no_nested(lp):
        if isinstance(st, ast.Assign):
            for tt in st.targets:
                names = [tt] if isinstance(tt, ast.Name) else ([e for e in tt.elts if isinstance(e, ast.Name)] if isinstance(tt, (ast.Tuple, ast.List)) else [])
                for t in names:
                    val = st.value
                    kind = "scalar"
                    if isinstance(val, ast.Call):
                        f = (dotted(val.func) or "").split(".")[-1]
                        kind = "fresh" if f in FRESH_CALLS or isinstance(val.func, ast.Attribute) else "scalar"
                    elif isinstance(val, ast.Subscript):
                        b = _base_name(val)
                        if b in before and b not in private:
                            fi = _first_index(val)
                            kind = "own-view" if isinstance(fi, ast.Name) and fi.id == v else f"alias:{b}"
                            # advanced (array / boolean) index yields a copy
                            if isinstance(fi, ast.Subscript) or (isinstance(fi, ast.Name) and fi.id not in inner_vars and fi.id != v and fi.id in private):
                                kind = "fresh"
                        else:
                            kind = private.get(b, "fresh") if b else "fresh"
                    elif isinstance(val, ast.Name) and val.id in before and val.id not in private:
                        kind = f"alias:{val.id}"
                    elif isinstance(val, ast.Tuple):
                        kind = "fresh"
                    if t.id in before and t.id not in private:
                        # (S) a name that exists before the loop is re-bound inside: shared scalar / hidden reduction
                        ctx.ob(rid, rel, st, f"{qual}: `{src(st)[:80]}` re-binds `{t.id}`, defined before the prange loop over {v}", False, detail="a variable defined outside a prange loop and assigned inside is shared between threads (numba turns it into a reduction or a race): the result depends on the schedule", expected="variables assigned in the loop body are created in the loop body")
                    private.setdefault(t.id, kind)
        elif isinstance(st, ast.AugAssign) and isinstance(st.target, ast.Name):
            if st.target.id in before and st.target.id not in private and st.target.id not in inner_vars:
                ctx.ob(rid, rel, st, f"{qual}: `{src(st)[:80]}` accumulates into `{st.target.id}`, defined before the prange loop over {v}", False, detail="accumulation into a variable shared by all iterations: numba makes it a reduction whose floating-point order depends on the thread count", expected="no scalar accumulation across prange iterations")
    # (W) stores
    written: Dict[str, List[ast.AST]] = {}
    stores = []
    for st in walk_no_nested(lp):
        tg = []
        if isinstance(st, ast.Assign):
            tg = st.targets
        elif isinstance(st, ast.AugAssign):
            tg = [st.target]
        for t in tg:
            for tt in (t.elts if isinstance(t, (ast.Tuple, ast.List)) else [t]):
                if isinstance(tt, ast.Subscript):
                    stores.append((st, tt))
    for st, t in stores:
        b = _base_name(t)
        if b is None:
            continue
        kind = private.get(b)
        if kind in ("fresh", "own-view", "scalar"):
            continue
        shared = b if kind is None else kind.split(":", 1)[1] if kind.startswith("alias:") else b
        if kind is None and b not in before:
            continue
        written.setdefault(shared, []).append(t)
        fi = _first_index(t)
        # innermost subscript chain: A[v, ...] possibly followed by further subscripts
        root = t
        while isinstance(root.value, ast.Subscript):
            root = root.value
        fi = _first_index(root)
        ok = isinstance(fi, ast.Name) and fi.id == v and kind is None
        how = "own index"
        if not ok and kind is None:
            # indirect own index: T[v, c] with T a shared table not written in the loop
            if isinstance(fi, ast.Subscript) and _base_name(fi) in before and isinstance(_first_index(fi), ast.Name) and _first_index(fi).id == v:
                ok, how = True, f"indirect index {canon(fi)} through a table keyed by {v} (rows of the table assumed disjoint: documented exception)"
                ctx.note(f"{rid}: {qual}: store `{canon(t)[:80]}` relies on the rows of `{_base_name(fi)}` addressing disjoint cells (segments produced by argwhere): stated assumption, not checked")
        ctx.ob(rid, rel, st, f"{qual}: store `{canon(t)[:90]}` in prange({v}) [{how if ok else 'foreign index'}]", ok or _same_constant_everywhere(lp, shared, stores), expected=f"first subscript is the prange variable `{v}` (one iteration = one slice), or every store writes the same literal", detail=f"iterations of the prange loop over `{v}` write overlapping cells of the shared array `{shared}`: the result depends on the schedule" + ("" if kind is None else f" (`{b}` aliases `{shared}`)"))
    # (R) a shared array written in the loop is read at the iteration's own index only
    for arr, tgts in written.items():
        for n in walk_no_nested(lp):
            if isinstance(n, ast.Subscript) and isinstance(n.ctx, ast.Load) and _base_name(n) == arr:
                root = n
                while isinstance(root.value, ast.Subscript):
                    root = root.value
                if not (isinstance(root.value, ast.Name) and root.value.id == arr):
                    continue
                fi = _first_index(root)
                ok = isinstance(fi, ast.Name) and fi.id == v
                if not ok and _same_constant_everywhere(lp, arr, stores):
                    ok = False  # the same-constant exception requires the array not to be read at all
                ctx.ob(rid, rel, n, f"{qual}: read `{canon(n)[:80]}` of an array written in prange({v})", ok, expected=f"read at the iteration's own index `{v}` only", detail=f"`{arr}` is written by other iterations: reading another iteration's cells observes the schedule")


def _same_constant_everywhere(lp: ast.For, arr: str, stores) -> bool:
    vals = set()
    for st, t in stores:
        if _base_name(t) == arr:
            if isinstance(st, ast.Assign) and isinstance(st.value, ast.Constant):
                vals.add(repr(st.value.value))
            else:
                return False
    if len(vals) != 1:
        return False
    # not read in the loop
    for n in walk_no_nested(lp):
        if isinstance(n, ast.Subscript) and isinstance(n.ctx, ast.Load) and _base_name(n) == arr:
            return False
        if isinstance(n, ast.Name) and isinstance(n.ctx, ast.Load) and n.id == arr and not isinstance(getattr(n, "_parent", None), ast.Subscript):
            return False
    return True


def _anc(node):
    cur = getattr(node, "_parent", None)
    while cur is not None:
        yield cur
        cur = getattr(cur, "_parent", None)


SWITCH = 'literal_eval(os.environ.get("PANDORA_NUMBA_PARALLEL", "True"))'


def rule_prange(ctx: Ctx, rid: str, files: Optional[List[str]] = None) -> int:
    n = 0
    for rel, q, fn in functions_with_prange(ctx.tree):
        if files is not None and rel not in files:
            continue
        for lp in outer_pranges(fn):
            n += 1
            before = len(ctx.obligations)
            check_prange_loop(ctx, rid, rel, fn, lp)
            if len(ctx.obligations) == before:
                ctx.ob(rid, rel, lp, f"{q}: prange({src(lp.target)}) writes nothing shared", True)
    return n


def rule_switch(ctx: Ctx, rid: str) -> int:
    n = 0
    want = canon(ast.parse(SWITCH, mode="eval").body)
    for rel, q, fn in functions_with_prange(ctx.tree):
        n += 1
        ok = False
        got = ""
        for d in fn.decorator_list:
            if isinstance(d, ast.Call) and (dotted(d.func) or "").split(".")[-1] in ("njit", "jit"):
                for k in d.keywords:
                    if k.arg == "parallel":
                        got = canon(k.value)
                        ok = got == want
        ctx.ob(rid, rel, fn, f"{q}: njit(parallel={got or 'absent'})", ok, expected=f"parallel={SWITCH}", detail="every parallel kernel must honour the PANDORA_NUMBA_PARALLEL switch (the documented way to get schedule-free results); a hard-coded parallel=True ignores it, and a prange without parallel= runs sequentially whatever the switch")
        cached = [d for d in fn.decorator_list if isinstance(d, ast.Call) and any(k.arg == "cache" and isinstance(k.value, ast.Constant) and k.value.value is True for k in d.keywords) and any(k.arg == "parallel" and not isinstance(k.value, ast.Constant) for k in d.keywords)]
        ctx.ob(rid, rel, cached[0] if cached else fn, f"{q}: the build selected by the switch is not cached on disk", not cached, expected="no cache=True next to parallel=<environment switch>", detail="numba's on-disk cache key does not contain `parallel`: with cache=True a process reuses the build cached by a process started with the other value of PANDORA_NUMBA_PARALLEL, so the switch is silently ignored and identical runs differ with the cache they find")
    return n


def rule_float_arange(ctx: Ctx, rid: str, files=None) -> int:
    """Inside a compiled kernel, np.arange(start, stop, step) with a non-integer step has an ill-defined length (it
    depends on the precision the quotient is evaluated in): numba's serial and parallel builds were seen to return 71 and
    70 samples for (0, 0.7, 0.01) in float32.  Sample counts must be computed explicitly."""
    n = 0
    for rel in ctx.tree.py_files("pandora"):
        if files is not None and rel not in files:
            continue
        for q, fn in sorted(ctx.tree.funcs(rel).items()):
            if not any((dotted(d.func if isinstance(d, ast.Call) else d) or "").split(".")[-1] in ("njit", "jit") for d in fn.decorator_list):
                continue
            n += 1
            for c in calls_in(fn):
                if (dotted(c.func) or "") in ("np.arange", "numpy.arange") and len(c.args) == 3 and not (isinstance(c.args[2], ast.Constant) and isinstance(c.args[2].value, int)):
                    ctx.ob(rid, rel, c, f"{q}: `{src(c)[:70]}` has a well-defined number of samples", False, expected="an explicit integer count: start + np.arange(count) * step", detail="the length of a float-stepped arange depends on how the quotient (stop - start) / step is rounded; the serial and the parallel numba builds disagree on it, so the products depend on PANDORA_NUMBA_PARALLEL")
            ctx.ob(rid, rel, fn, f"{q}: no float-stepped np.arange in the kernel", True)
    return n


# --------------------------------------------------------------------------------------
# IEEE: compiled kernels keep IEEE-754 semantics (NaN / inf guards must not be folded away)
# --------------------------------------------------------------------------------------
_IEEE_POSITIVE = '''
@njit(fastmath=True)
def k(x):
    if np.isnan(x):
        return 0.0
    return x
'''


def _relaxed_math(fn: ast.AST):
    """[(decorator, option text)] for jit decorators that relax floating-point semantics."""
    out = []
    for d in getattr(fn, "decorator_list", []):
        if isinstance(d, ast.Call) and (dotted(d.func) or "").split(".")[-1] in ("njit", "jit", "vectorize", "guvectorize", "stencil"):
            for k in d.keywords:
                if k.arg == "fastmath" and not (isinstance(k.value, ast.Constant) and k.value.value is False):
                    out.append((d, f"fastmath={canon(k.value)}"))
    return out


def rule_ieee(ctx: Ctx, rid: str, files=None) -> int:
    """No compiled kernel is built with fastmath: numba's fastmath assumes no NaN and no inf, so `np.isnan(x)` /
    `x != x` / comparisons with inf are folded to constants and every NaN-based guard of the kernel silently vanishes.
    Returns the number of jit-decorated functions examined."""
    pos = ast.parse(_IEEE_POSITIVE).body[0]
    if not _relaxed_math(pos):
        raise AnalysisError(f"{rid}: the positive example (@njit(fastmath=True)) is no longer recognised")
    n = 0
    for rel in ctx.tree.py_files("pandora"):
        if files is not None and rel not in files:
            continue
        for q, fn in sorted(ctx.tree.funcs(rel).items()):
            jit = [d for d in fn.decorator_list if (dotted(d.func if isinstance(d, ast.Call) else d) or "").split(".")[-1] in ("njit", "jit", "vectorize", "guvectorize", "stencil")]
            if not jit:
                continue
            n += 1
            bad = _relaxed_math(fn)
            ctx.ob(rid, rel, bad[0][0] if bad else fn, f"{q}: compiled with IEEE-754 semantics ({bad[0][1] if bad else 'no fastmath'})", not bad, expected="no fastmath option on a kernel of the pipeline", detail="fastmath lets the compiler assume that no value is NaN or infinite: the kernel's `np.isnan(...)` / isfinite / inf comparisons are folded away, so its NaN guards (invalid costs, 'no valid neighbour found', masked pixels) stop working without any error")
    return n
