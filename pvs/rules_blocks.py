"""Cursor discipline of the internal processing blocks (C03.BLOCKS, C10.BLOCKS, C15.BLOCKS).

Recognised idiom A (the repository's): two nested loops over `np.array_split` chunk lists

    outer = np.array_split(A, np.arange(c, N0, c), axis=0);  y = Y0
    for .. outer element E0 ..:
        inner = np.array_split(E0, np.arange(c, N1, c), axis=1);  x = X0
        for .. inner element E1 ..:
            OUT[y : y + E0.shape[0], x : x + E1.shape[1]] = f(E1)
            x += E1.shape[1]
        y += E0.shape[0]

with direct iteration, `enumerate` or index-based iteration over the chunk lists.  Obligations: the row
cursor starts at the stated start, is advanced once per outer iteration by the outer chunk's own extent
on axis 0, after the inner loop, unconditionally; the column cursor is (re)initialised inside the outer
loop and advanced once per inner iteration by the inner chunk's extent on axis 1 after the stores; every
store slice is [cursor : cursor + extent] on both axes; no continue / break / return inside the nest;
the split axes are 0 then 1; the stored value is computed from the inner chunk.

Recognised idiom B (a common rewrite): `for v in range(start, N, c)` with slices `[v : v + c]` -- then the
range must start at the stated start and stop at the extent of the axis it walks.
Anything else is reported as ANALYSIS-ERROR (unrecognised idiom), not as a violation.
"""
from __future__ import annotations

import ast
from typing import Dict, List, Optional, Tuple

from .astx import calls_in, dotted, guards_of, src, stmts_of, walk_no_nested
from .core import AnalysisError, Ctx
from .defuse import Defs
from .sym import canon, poly


def _is_array_split(node: ast.AST) -> bool:
    return isinstance(node, ast.Call) and (dotted(node.func) or "") in ("np.array_split", "numpy.array_split")


def _axis_of(call: ast.Call) -> Optional[int]:
    for k in call.keywords:
        if k.arg == "axis" and isinstance(k.value, ast.Constant):
            return k.value.value
    if len(call.args) >= 3 and isinstance(call.args[2], ast.Constant):
        return call.args[2].value
    return 0


def _elem_of(loop: ast.For, chunks: str) -> Optional[str]:
    """canonical text of 'the current chunk' inside `loop` iterating the chunk list `chunks`."""
    it = loop.iter
    if canon(it) == chunks and isinstance(loop.target, ast.Name):
        return loop.target.id
    if isinstance(it, ast.Call) and (dotted(it.func) or "") == "enumerate" and it.args and canon(it.args[0]) == chunks and isinstance(loop.target, ast.Tuple) and len(loop.target.elts) == 2:
        return canon(loop.target.elts[1])
    txt = canon(it)
    if txt in (f"np.arange(len({chunks}))", f"range(len({chunks}))", f"range(0, len({chunks}))") and isinstance(loop.target, ast.Name):
        return f"{chunks}[{loop.target.id}]"
    return None


def _all_loops(fn: ast.AST) -> List[ast.For]:
    return [n for n in walk_no_nested(fn) if isinstance(n, ast.For)]


def check_block_nest(ctx: Ctx, rid: str, rel: str, qual: str, start: str, reduce_hint: str = "") -> None:
    """start: canonical text the two cursors must start from ('0', 'radius', 'offset')."""
    fn = ctx.tree.func(rel, qual)
    defs = Defs(fn)
    splits = [(st, st.value) for st in walk_no_nested(fn) if isinstance(st, ast.Assign) and len(st.targets) == 1 and isinstance(st.targets[0], ast.Name) and _is_array_split(st.value)]
    if len(splits) < 2:
        _check_range_idiom(ctx, rid, rel, fn, defs, start)
        return
    # outer split: not inside a loop ; inner: inside the loop over the outer chunks
    outer = [s for s in splits if not any(isinstance(a, ast.For) for a in _anc(s[0], fn))]
    inner = [s for s in splits if any(isinstance(a, ast.For) for a in _anc(s[0], fn))]
    if len(outer) != 1 or len(inner) != 1:
        raise AnalysisError(f"{rel}::{qual}: block nest not recognised ({len(outer)} outer / {len(inner)} inner array_split)")
    (ost, ocall), (ist, icall) = outer[0], inner[0]
    ochunks, ichunks = ost.targets[0].id, ist.targets[0].id
    oloop = next((l for l in _all_loops(fn) if _elem_of(l, ochunks) is not None), None)
    if oloop is None:
        raise AnalysisError(f"{rel}::{qual}: loop over {ochunks} not recognised")
    iloop = next((l for l in _all_loops(oloop) if l is not oloop and _elem_of(l, ichunks) is not None), None)
    if iloop is None:
        raise AnalysisError(f"{rel}::{qual}: loop over {ichunks} not recognised")
    e0, e1 = _elem_of(oloop, ochunks), _elem_of(iloop, ichunks)

    # split axes / split points
    ctx.ob(rid, rel, ost, f"{qual}: outer split {src(ocall)[:110]}", _axis_of(ocall) == 0, expected="axis=0", detail="outer blocks must be cut along axis 0")
    ctx.ob(rid, rel, ist, f"{qual}: inner split {src(icall)[:110]}", _axis_of(icall) == 1 and canon(icall.args[0]) == e0, expected=f"np.array_split({e0}, ..., axis=1)", detail="inner blocks must cut the *current* outer block along axis 1")
    for lab, call in (("outer", ocall), ("inner", icall)):
        pts = call.args[1] if len(call.args) > 1 else None
        okp = isinstance(pts, ast.Call) and (dotted(pts.func) or "") in ("np.arange", "numpy.arange") and len(pts.args) == 3 and canon(pts.args[0]) == canon(pts.args[2])
        ctx.ob(rid, rel, call, f"{qual}: {lab} split points {src(pts)[:80] if pts is not None else '?'}", okp, expected="np.arange(c, N, c)", detail="split points must be the multiples of the chunk size (first == step)")

    # no early exits in the nest
    exits = [n for n in walk_no_nested(oloop) if isinstance(n, (ast.Break, ast.Continue, ast.Return))]
    ctx.ob(rid, rel, exits[0] if exits else oloop, f"{qual}: no break/continue/return inside the block loops", not exits, detail="skipping (part of) an iteration desynchronises the cursors from the blocks: following blocks are written at the wrong place")

    # stores into an output array indexed by two cursor slices
    stores = []
    for st in walk_no_nested(iloop):
        if isinstance(st, ast.Assign) and len(st.targets) == 1 and isinstance(st.targets[0], ast.Subscript):
            sl = st.targets[0].slice
            if isinstance(sl, ast.Tuple) and len(sl.elts) == 2 and all(isinstance(e, ast.Slice) for e in sl.elts):
                stores.append(st)
    if not stores:
        raise AnalysisError(f"{rel}::{qual}: no block store OUT[y0:y1, x0:x1] = ... found in the inner loop")
    ycur = xcur = None
    for st in stores:
        sy, sx = st.targets[0].slice.elts
        if not (isinstance(sy.lower, ast.Name) and isinstance(sx.lower, ast.Name)):
            raise AnalysisError(f"{rel}::{qual}: store slice lower bounds are not cursor names")
        ycur, xcur = sy.lower.id, sx.lower.id
        uy = canon(defs.expand(sy.upper, st, depth=2, stop=(ycur, xcur, ochunks, ichunks))) if sy.upper is not None else ""
        ux = canon(defs.expand(sx.upper, st, depth=2, stop=(ycur, xcur, ochunks, ichunks))) if sx.upper is not None else ""
        wy = canon(ast.parse(f"{ycur} + {e0}.shape[0]", mode="eval").body)
        wx = canon(ast.parse(f"{xcur} + {e1}.shape[1]", mode="eval").body)
        ctx.ob(rid, rel, st, f"{qual}: store rows [{ycur} : {uy}]", uy == wy, expected=f"{ycur} : {wy}", detail="the row extent of the written block must be the outer chunk's own extent on axis 0")
        ctx.ob(rid, rel, st, f"{qual}: store cols [{xcur} : {ux}]", ux == wx, expected=f"{xcur} : {wx}", detail="the column extent of the written block must be the inner chunk's own extent on axis 1")
        uses = e1 in canon(st.value) or any(isinstance(n, ast.Name) and n.id == e1 for n in ast.walk(st.value))
        ctx.ob(rid, rel, st, f"{qual}: stored value computed from the inner chunk {e1}", uses, detail="the block written does not come from the block read")
        ctx.ob(rid, rel, st, f"{qual}: block store unconditional", not guards_of(st, stop=oloop), detail="a conditional block store leaves blocks unprocessed")
        if reduce_hint:
            ctx.ob(rid, rel, st, f"{qual}: reduction `{reduce_hint}` in {canon(st.value)[:90]}", reduce_hint in canon(st.value), expected=reduce_hint, detail="the reduction must run over the documented axes")

    # cursor initialisation
    def inits(name):
        return [d for d in defs.all_defs(name) if isinstance(d[0], ast.Assign)]

    yi, xi = inits(ycur), inits(xcur)
    oky = len(yi) == 1 and yi[0][0].lineno < oloop.lineno and not any(a is oloop for a in _anc(yi[0][0], fn)) and canon(yi[0][1]) == start
    ctx.ob(rid, rel, yi[0][0] if yi else fn, f"{qual}: row cursor {ycur} = {canon(yi[0][1]) if yi else '?'} before the outer loop", oky, expected=f"{ycur} = {start}, once, before the loop", detail="the first block must be written at the stated start")
    okx = len(xi) == 1 and any(a is oloop for a in _anc(xi[0][0], fn)) and not any(a is iloop for a in _anc(xi[0][0], fn)) and xi[0][0].lineno < iloop.lineno and canon(xi[0][1]) == start
    ctx.ob(rid, rel, xi[0][0] if xi else fn, f"{qual}: column cursor {xcur} = {canon(xi[0][1]) if xi else '?'} reset inside the outer loop", okx, expected=f"{xcur} = {start} at the start of every outer iteration", detail="a column cursor that is not reset for every row of blocks writes the second row of blocks outside the image")

    # cursor advances
    def advs(name):
        """(stmt, canonical increment) of every statement that moves the cursor after its initialisation."""
        out = []
        for st in walk_no_nested(fn):
            if isinstance(st, ast.AugAssign) and isinstance(st.target, ast.Name) and st.target.id == name:
                inc = canon(st.value) if isinstance(st.op, ast.Add) else f"<{type(st.op).__name__}> {canon(st.value)}"
                out.append((st, inc))
            elif isinstance(st, ast.Assign) and len(st.targets) == 1 and isinstance(st.targets[0], ast.Name) and st.targets[0].id == name and any(a is oloop for a in _anc(st, fn)):
                if name in {n.id for n in ast.walk(st.value) if isinstance(n, ast.Name)}:
                    out.append((st, (poly(st.value) - poly(ast.Name(id=name, ctx=ast.Load()))).text()))
        return out

    xa = [a for a in advs(xcur)]
    ya = [a for a in advs(ycur)]
    last_store = max(s.lineno for s in stores)
    okxa = len(xa) == 1 and xa[0][1] == f"{e1}.shape[1]" and _direct_child(xa[0][0], iloop) and xa[0][0].lineno > last_store
    ctx.ob(rid, rel, xa[0][0] if xa else iloop, f"{qual}: {xcur} += {xa[0][1] if xa else '?'} once per inner iteration, after the stores", okxa, expected=f"{xcur} += {e1}.shape[1]", detail="the column cursor must advance by the extent of the block just written, exactly once per block")
    okya = len(ya) == 1 and ya[0][1] == f"{e0}.shape[0]" and _direct_child(ya[0][0], oloop) and ya[0][0].lineno > iloop.end_lineno
    ctx.ob(rid, rel, ya[0][0] if ya else oloop, f"{qual}: {ycur} += {ya[0][1] if ya else '?'} once per outer iteration, after the inner loop", okya, expected=f"{ycur} += {e0}.shape[0]", detail="the row cursor must advance by the extent of the row of blocks just written, exactly once")


def _direct_child(st: ast.stmt, loop: ast.For) -> bool:
    """st is a statement of the loop body itself or of a `with` block directly inside it (never conditional)."""
    par = getattr(st, "_parent", None)
    while isinstance(par, ast.With):
        par = getattr(par, "_parent", None)
    return par is loop


def _anc(node: ast.AST, stop: ast.AST):
    cur = getattr(node, "_parent", None)
    while cur is not None and cur is not stop:
        yield cur
        cur = getattr(cur, "_parent", None)


def _check_range_idiom(ctx: Ctx, rid: str, rel: str, fn: ast.AST, defs: Defs, start: str) -> None:
    """Idiom B: for v in range(a, N, c): ... X[..., v : v + c] ..."""
    qual = getattr(fn, "_qual", "?")
    loops = [l for l in _all_loops(fn) if isinstance(l.iter, ast.Call) and (dotted(l.iter.func) or "") == "range" and len(l.iter.args) == 3 and isinstance(l.target, ast.Name)]
    if len(loops) < 1:
        raise AnalysisError(f"{rel}::{qual}: neither the array_split nest nor a stepped range loop was recognised")
    # extents from `a, b, ... = X.shape`
    extents: Dict[str, Tuple[str, int]] = {}
    for st in walk_no_nested(fn):
        if isinstance(st, ast.Assign) and isinstance(st.targets[0], ast.Tuple) and canon(st.value).endswith(".shape"):
            for i, e in enumerate(st.targets[0].elts):
                if isinstance(e, ast.Name):
                    extents[e.id] = (canon(st.value), i)
    for l in loops:
        a, n, c = l.iter.args
        v = l.target.id
        okn = isinstance(n, ast.Name) and n.id in extents
        ctx.ob(rid, rel, l, f"{qual}: for {v} in {src(l.iter)}", okn and canon(a) == start, expected=f"range({start}, <extent of the axis>, c)", detail="a stepped block loop must start at the stated start and stop at the full extent of the axis it walks (an edited bound leaves the last rows/columns unprocessed)")
        exits = [x for x in walk_no_nested(l) if isinstance(x, (ast.Break, ast.Continue, ast.Return))]
        ctx.ob(rid, rel, exits[0] if exits else l, f"{qual}: no break/continue/return inside the block loop over {v}", not exits, detail="blocks can be skipped")
        # every slice using v as lower bound has upper bound v + c (or min(v + c, N))
        for sl in [x for x in walk_no_nested(l) if isinstance(x, ast.Slice) and isinstance(x.lower, ast.Name) and x.lower.id == v]:
            up = canon(sl.upper) if sl.upper is not None else ""
            want = canon(ast.BinOp(left=ast.Name(id=v, ctx=ast.Load()), op=ast.Add(), right=c))
            if sl.upper is None or not (poly(sl.upper) - poly(ast.Name(id=v, ctx=ast.Load()))).is_const():
                continue  # extent taken from the block itself (e.g. v + chunk.shape[k]): consistent by construction
            ctx.ob(rid, rel, l, f"{qual}: slice [{v} : {up}]", up == want or up.startswith("min(") and want in up, expected=f"{v} : {want}", detail="the slice extent must equal the loop step")
    if len(loops) < 2:
        ctx.note(f"{rid}: {qual} mixes block idioms (array_split on one axis, stepped range on the other): only the stepped-range obligations were checked")
