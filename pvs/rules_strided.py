"""Consistency of `np.lib.stride_tricks.as_strided` window views (C02.AS-STRIDED, C10, C13).

For `as_strided(A, shape, strides)`:
  * every stride comes from `.strides` of the *same* array A that is passed (position k = axis k);
  * an axis that occurs once in the strides keeps its full extent;
  * an axis that occurs twice is a (slid, window) pair: the slid dimension has extent N_axis - (W - 1) and the
    window dimension has extent W, with the same W;
  * a reduction applied to the view in the same function runs over exactly the window dimensions.
numpy does no bounds checking on as_strided: an inconsistent view silently reads foreign memory.
"""
from __future__ import annotations

import ast
from typing import Dict, List, Optional, Tuple

from .astx import calls_in, dotted, src, walk_no_nested
from .core import AnalysisError, Ctx
from .defuse import Defs
from .sym import Poly, canon, poly


def _tuple_elts(node: ast.AST, defs: Defs, at: ast.AST, depth: int = 4) -> Optional[List[ast.AST]]:
    """Resolve an expression to a list of tuple elements (through names and `+` concatenation)."""
    if depth < 0:
        return None
    if isinstance(node, ast.Tuple):
        return list(node.elts)
    if isinstance(node, ast.BinOp) and isinstance(node.op, ast.Add):
        l, r = _tuple_elts(node.left, defs, at, depth), _tuple_elts(node.right, defs, at, depth)
        if l is None or r is None:
            return None
        return l + r
    if isinstance(node, ast.BinOp) and isinstance(node.op, ast.Mult):
        for a, b in ((node.left, node.right), (node.right, node.left)):
            if isinstance(b, ast.Constant) and isinstance(b.value, int) and 0 < b.value < 6:
                e = _tuple_elts(a, defs, at, depth)
                if e is not None:
                    return e * b.value
        return None
    if isinstance(node, ast.Name):
        r = defs.reaching(node.id, at)
        if r is not None and r[2] is None:
            return _tuple_elts(r[1], defs, r[0], depth - 1)
        if node.id in defs.params:
            # a tuple parameter of unknown length: (p[0], p[1]) by convention of the callers (2-D windows)
            return [ast.Subscript(value=node, slice=ast.Constant(value=0), ctx=ast.Load()), ast.Subscript(value=node, slice=ast.Constant(value=1), ctx=ast.Load())]
        return None
    if isinstance(node, ast.Attribute) and node.attr in ("strides", "shape"):
        # X.strides of unknown rank: assume 2-D (callers pass 2-D arrays) -> two symbolic elements
        return [ast.Subscript(value=node, slice=ast.Constant(value=0), ctx=ast.Load()), ast.Subscript(value=node, slice=ast.Constant(value=1), ctx=ast.Load())]
    return None


def check_as_strided(ctx: Ctx, rid: str, rel: str, qual: str) -> int:
    fn = ctx.tree.func(rel, qual)
    defs = Defs(fn)
    calls = [c for c in calls_in(fn) if (dotted(c.func) or "").endswith("as_strided")]
    if not calls:
        raise AnalysisError(f"{rel}::{qual}: as_strided call vanished")
    n = 0
    for c in calls:
        n += 1
        arr = c.args[0]
        shp = c.args[1] if len(c.args) > 1 else next((k.value for k in c.keywords if k.arg == "shape"), None)
        strd = c.args[2] if len(c.args) > 2 else next((k.value for k in c.keywords if k.arg == "strides"), None)
        se, te = _tuple_elts(shp, defs, c), _tuple_elts(strd, defs, c)
        if se is None or te is None:
            raise AnalysisError(f"{rel}::{qual}: shape/strides of as_strided are not resolvable tuples")
        A = canon(arr)
        ctx.ob(rid, rel, c, f"{qual}: as_strided({A}, {len(se)} dims, {len(te)} strides)", len(se) == len(te), detail="shape and strides have different lengths")
        if len(se) != len(te):
            continue
        # stride element -> axis
        axes: List[Optional[int]] = []
        for e in te:
            ax = None
            ok_src = False
            if isinstance(e, ast.Subscript) and isinstance(e.value, ast.Attribute) and e.value.attr == "strides" and isinstance(e.slice, ast.Constant):
                ax = e.slice.value
                ok_src = canon(e.value.value) == A
            elif isinstance(e, ast.Name):
                r = defs.reaching(e.id, c)
                if r is not None and r[2] is not None and isinstance(r[1], ast.Attribute) and r[1].attr == "strides":
                    ax = r[2]
                    ok_src = canon(r[1].value) == A
            ctx.ob(rid, rel, c, f"{qual}: stride `{src(e)}` is {A}.strides[{ax}]", ok_src and ax is not None, expected=f"a component of {A}.strides", detail="strides must be taken from the array that is passed to as_strided (a stride of another array / a recomputed stride addresses the wrong elements for non-contiguous or differently typed inputs)")
            axes.append(ax)
        if any(a is None for a in axes):
            continue
        # extents: symbol -> axis
        ext: Dict[str, int] = {}
        for st in walk_no_nested(fn):
            if isinstance(st, ast.Assign) and isinstance(st.targets[0], ast.Tuple):
                v = st.value
                if isinstance(v, ast.Attribute) and v.attr == "shape" and canon(v.value) == A:
                    for i, t in enumerate(st.targets[0].elts):
                        if isinstance(t, ast.Name):
                            ext[t.id] = i
                elif isinstance(v, ast.Tuple) and len(v.elts) == len(st.targets[0].elts):
                    for t, x in zip(st.targets[0].elts, v.elts):
                        cx = canon(x)
                        if isinstance(t, ast.Name) and ".sizes['row']" in cx:
                            ext[t.id] = max(axes) - 1 if max(axes) >= 1 else 0
                        if isinstance(t, ast.Name) and ".sizes['col']" in cx:
                            ext[t.id] = max(axes)
        ext[f"{A}.shape[0]"] = 0
        ext[f"{A}.shape[1]"] = 1
        ext[f"{A}.shape[2]"] = 2

        def split(e: ast.AST) -> Tuple[Optional[int], Poly]:
            """(axis of the extent symbol or None, remaining polynomial)."""
            p = poly(e)
            ax = None
            rest = Poly(dict(p.terms))
            for a in list(p.atoms()):
                if a in ext and p.terms.get(((a, 1),)) == 1:
                    ax = ext[a]
                    rest = rest - Poly.atom(a)
            return ax, rest

        by_axis: Dict[int, List[Tuple[int, Optional[int], Poly]]] = {}
        for i, (e, ax) in enumerate(zip(se, axes)):
            eax, rest = split(e)
            by_axis.setdefault(ax, []).append((i, eax, rest))
        window_dims: List[int] = []
        for ax, dims in sorted(by_axis.items()):
            if len(dims) == 1:
                i, eax, rest = dims[0]
                ok = eax == ax and not rest.terms
                ctx.ob(rid, rel, c, f"{qual}: dim {i} `{canon(se[i])}` walks axis {ax} entirely", ok, expected=f"the full extent of axis {ax}", detail="an axis that is not windowed must keep its full extent and its own stride")
            elif len(dims) == 2:
                slid = [d for d in dims if d[1] is not None]
                win = [d for d in dims if d[1] is None]
                ok = len(slid) == 1 and len(win) == 1 and slid[0][1] == ax
                w = None
                if ok:
                    w = win[0][2]
                    # slid extent = N - (W - 1)  <=>  rest == 1 - W
                    ok = (slid[0][2] + w - Poly.const(1)).terms == {}
                    window_dims.append(win[0][0])
                ctx.ob(rid, rel, c, f"{qual}: axis {ax}: slid dim `{canon(se[slid[0][0]]) if slid else '?'}` / window dim `{canon(se[win[0][0]]) if win else '?'}`", ok, expected=f"extent(axis {ax}) - (W - 1) and W with the same stride", detail="a windowed axis must appear as one slid dimension of extent N - (W - 1) and one window dimension of extent W sharing the axis' stride: otherwise windows run past the end of the array or skip elements")
            else:
                ctx.ob(rid, rel, c, f"{qual}: axis {ax} used by {len(dims)} dimensions", False, detail="an axis can be windowed at most once")
        # reduction over the window dims, when the view is reduced in this function
        tgt = None
        par = getattr(c, "_parent", None)
        if isinstance(par, ast.Assign) and len(par.targets) == 1 and isinstance(par.targets[0], ast.Name):
            tgt = par.targets[0].id
        if tgt:
            for r in calls_in(fn):
                f = dotted(r.func) or ""
                if f.split(".")[-1] in ("sum", "nansum", "nanmedian", "median", "mean", "nanmean", "min", "max", "nanmin", "nanmax") and r.args and canon(r.args[0]) == tgt and r.lineno > c.lineno:
                    axn = r.args[1] if len(r.args) > 1 else next((k.value for k in r.keywords if k.arg == "axis"), None)
                    got = None
                    if isinstance(axn, ast.Constant):
                        got = [axn.value]
                    elif isinstance(axn, ast.Tuple):
                        got = [e.value for e in axn.elts if isinstance(e, ast.Constant)]
                    ctx.ob(rid, rel, r, f"{qual}: {src(r)[:80]} reduces window dims {sorted(window_dims)}", got is not None and sorted(got) == sorted(window_dims), expected=f"axis = {tuple(sorted(window_dims))}", detail="the reduction must run over exactly the window dimensions of the strided view")
        ctx.extra.setdefault("strided_window_dims", {})[f"{rel}::{qual}"] = sorted(window_dims)
    return n
