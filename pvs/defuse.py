"""pvs.defuse -- reaching definitions inside one function, for straight-line reasoning.

`Defs(fn)` lists, for every local name, its assignments in program order (with the statement node).
`reaching(name, before)` returns the value expression of the last assignment to `name` that textually
precedes node `before` and *dominates it syntactically or lies in the same straight-line region*:
the analysis is used on vectorised numpy code whose definitions are straight-line inside a loop
body, so "last textual definition before the use, inside the same function" is exact there; when
two definitions sit in different branches of an `if` both are returned (`all_reaching`).

`expand(node, before, depth)` substitutes names by their (unique) reaching definition recursively,
giving the closed form of an index / predicate in terms of parameters, loop variables and calls.
"""
from __future__ import annotations

import ast
import copy
from typing import Dict, List, Optional, Sequence, Tuple

from .astx import ancestors, src, walk_no_nested


class Defs:
    def __init__(self, fn: ast.AST):
        self.fn = fn
        self.defs: Dict[str, List[Tuple[ast.stmt, ast.AST, Optional[int]]]] = {}  # name -> [(stmt, value, tuple position)]
        self.params = [a.arg for a in fn.args.posonlyargs + fn.args.args + fn.args.kwonlyargs]  # type: ignore[attr-defined]
        self.loopvars: Dict[str, ast.AST] = {}
        for st in walk_no_nested(fn):
            if isinstance(st, ast.Assign):
                for t in st.targets:
                    self._bind(t, st, st.value)
            elif isinstance(st, ast.AnnAssign) and st.value is not None:
                self._bind(st.target, st, st.value)
            elif isinstance(st, ast.AugAssign) and isinstance(st.target, ast.Name):
                # x op= v   ==  x = x op v
                val = ast.BinOp(left=ast.Name(id=st.target.id, ctx=ast.Load()), op=st.op, right=st.value)
                ast.copy_location(val, st)
                ast.fix_missing_locations(val)
                self.defs.setdefault(st.target.id, []).append((st, val, None))
            elif isinstance(st, ast.For):
                for n in ast.walk(st.target):
                    if isinstance(n, ast.Name):
                        self.loopvars[n.id] = st
        for k in self.defs:
            self.defs[k].sort(key=lambda d: (d[0].lineno, d[0].col_offset))

    def _bind(self, t: ast.AST, st: ast.stmt, value: ast.AST, pos: Optional[int] = None):
        if isinstance(t, ast.Name):
            self.defs.setdefault(t.id, []).append((st, value, pos))
        elif isinstance(t, (ast.Tuple, ast.List)):
            for i, e in enumerate(t.elts):
                if isinstance(value, (ast.Tuple, ast.List)) and len(value.elts) == len(t.elts):
                    self._bind(e, st, value.elts[i])
                else:
                    self._bind(e, st, value, i)

    def all_defs(self, name: str):
        return self.defs.get(name, [])

    def reaching_all(self, name: str, before: ast.AST):
        """Definitions of `name` textually before `before` that are not overwritten by a later one in the
        same or an enclosing block (branches are not pruned)."""
        pos = (getattr(before, "lineno", 10**9), getattr(before, "col_offset", 0))
        cands = [d for d in self.defs.get(name, []) if (d[0].lineno, d[0].col_offset) < pos and not _contains(d[0], before)]
        # an AugAssign/Assign that contains `before` in its own value is not "before" it
        if not cands:
            return []
        last = cands[-1]
        out = [last]
        # if the last def is inside a branch that does not enclose `before`, earlier defs may also reach
        anc_before = set(id(a) for a in ancestors(before))
        branch = _branch_of(last[0])
        i = len(cands) - 2
        while branch is not None and id(branch[0]) not in anc_before and i >= 0:
            out.append(cands[i])
            branch = _branch_of(cands[i][0])
            i -= 1
        if branch is not None and id(branch[0]) in anc_before and branch[1] is not None:
            # the definition and the use are in the same If: fine when in the same arm
            pass
        return out

    def reaching(self, name: str, before: ast.AST) -> Optional[Tuple[ast.stmt, ast.AST, Optional[int]]]:
        r = self.reaching_all(name, before)
        return r[0] if len(r) == 1 else (r[0] if r and all(src(x[1]) == src(r[0][1]) for x in r) else (r[0] if r else None))

    def expand(self, node: ast.AST, before: Optional[ast.AST] = None, depth: int = 6, stop: Sequence[str] = ()) -> ast.AST:
        before = before if before is not None else node
        defs = self

        class X(ast.NodeTransformer):
            def visit_Name(self, n: ast.Name):
                if not isinstance(n.ctx, ast.Load) or n.id in stop or depth <= 0:
                    return n
                if n.id in defs.params and not defs.defs.get(n.id):
                    return n
                r = defs.reaching(n.id, before)
                if r is None or r[2] is not None:
                    return n
                st, val, _ = r
                return defs.expand(copy.deepcopy(val), st, depth - 1, stop)

        node = copy.deepcopy(node)
        out = X().visit(node)
        ast.fix_missing_locations(out)
        return out


def _contains(root: ast.AST, node: ast.AST) -> bool:
    return any(n is node for n in ast.walk(root))


def _branch_of(st: ast.AST):
    """(If node, arm) of the innermost enclosing If of st, else None."""
    child = st
    for anc in ancestors(st):
        if isinstance(anc, ast.If):
            arm = "body" if any(child is s for s in anc.body) else "orelse"
            return (anc, arm)
        if isinstance(anc, (ast.FunctionDef, ast.AsyncFunctionDef)):
            return None
        child = anc
    return None


def strip_casts(node: ast.AST) -> ast.AST:
    """(X).astype(T) -> X ; np.uint16(X) -> X ; int(X) is kept (it rounds)."""
    while True:
        if isinstance(node, ast.Call) and isinstance(node.func, ast.Attribute) and node.func.attr == "astype":
            node = node.func.value
            continue
        return node
