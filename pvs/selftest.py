"""Mutation self-test of the rules (E9): single-edit mutants and behaviour-preserving variants,
applied as in-memory overlays on the *current* tree (nothing is executed, so no scratch copy)."""
from __future__ import annotations

import importlib
import os
from multiprocessing import Pool
from typing import Dict, List, Optional, Tuple

from .core import AnalysisError, Tree, load_known_findings, match_known, run_rules


def _edits(m: dict) -> List[Tuple[str, str, str, int]]:
    if "edits" in m:
        return [(e[0], e[1], e[2], e[3] if len(e) > 3 else 1) for e in m["edits"]]
    return [(m["file"], m["old"], m["new"], m.get("count", 1))]


def build_overlay(tree: Tree, m: dict) -> Optional[Dict[str, str]]:
    ov: Dict[str, str] = {}
    for rel, old, new, count in _edits(m):
        if not tree.exists(rel):
            return None
        s = ov.get(rel, tree.source(rel))
        if s.count(old) != count:
            return None
        ov[rel] = s.replace(old, new)
    return ov


def _one(args) -> dict:
    pid, idx = args
    mod = importlib.import_module(f"pvs.props.{pid.lower()}")
    m = mod.MUTANTS[idx]
    base = Tree()
    ov = build_overlay(base, m)
    res = {"pid": pid, "id": m["id"], "kind": m.get("kind", "mutant"), "status": "", "rules": [], "detail": ""}
    if ov is None:
        res["status"] = "skipped"
        res["detail"] = "edit site not found in the current tree"
        return res
    try:
        ctx = run_rules(mod.SPEC, "quick", Tree(overlay=ov))
        known = load_known_findings()
        viol = [o for o in ctx.violations if match_known(o, pid, known) is None]
        res["rules"] = sorted({o.rule for o in viol})
        res["detail"] = "; ".join(f"{o.rule}@{o.function}" for o in viol[:3])
        res["status"] = "violation" if viol else "silent"
    except AnalysisError as exc:
        res["status"] = "analysis-error"
        res["detail"] = str(exc)[:300]
    except Exception as exc:  # pylint: disable=broad-except
        res["status"] = "crash"
        res["detail"] = f"{type(exc).__name__}: {exc}"[:300]
    return res


def run_selftest(pids: List[str], jobs: int = 16, seed: int = 0, quiet: bool = True) -> Dict[str, dict]:
    tasks = []
    for pid in pids:
        try:
            mod = importlib.import_module(f"pvs.props.{pid.lower()}")
        except ModuleNotFoundError:
            continue
        for i, _ in enumerate(getattr(mod, "MUTANTS", [])):
            tasks.append((pid, i))
    if not tasks:
        return {pid: {"applied": 0, "killed": 0, "equivalents": 0, "silent": 0, "skipped": 0, "problems": [], "details": []} for pid in pids}
    if jobs > 1 and len(tasks) > 1:
        with Pool(min(jobs, len(tasks))) as pool:
            results = pool.map(_one, tasks, chunksize=1)
    else:
        results = [_one(t) for t in tasks]
    out: Dict[str, dict] = {}
    for pid in pids:
        out[pid] = {"applied": 0, "killed": 0, "equivalents": 0, "silent": 0, "skipped": 0, "problems": [], "details": []}
    for r in results:
        o = out[r["pid"]]
        o["details"].append({k: r[k] for k in ("id", "kind", "status", "rules")})
        if r["status"] == "skipped":
            o["skipped"] += 1
            continue
        if r["kind"] == "mutant":
            o["applied"] += 1
            if r["status"] == "violation":
                o["killed"] += 1
            else:
                o["problems"].append(f"mutant {r['id']} not reported as a violation ({r['status']}: {r['detail']})")
        else:
            o["equivalents"] += 1
            if r["status"] == "silent":
                o["silent"] += 1
            else:
                o["problems"].append(f"equivalent variant {r['id']} raised {r['status']} ({r['detail']})")
        if not quiet:
            print(f"  {r['pid']} {r['kind']:7s} {r['id']:45s} {r['status']:15s} {','.join(r['rules'])} {r['detail'][:100]}")
    return out


def _cross_one(args) -> dict:
    """Run property `chk`'s rules on the overlay of the equivalent variant `idx` of property `owner`."""
    owner, idx, chk = args
    m = importlib.import_module(f"pvs.props.{owner.lower()}").MUTANTS[idx]
    mod = importlib.import_module(f"pvs.props.{chk.lower()}")
    ov = build_overlay(Tree(), m)
    res = {"owner": owner, "id": m["id"], "check": chk, "status": "", "detail": ""}
    if ov is None:
        res["status"] = "skipped"
        return res
    try:
        ctx = run_rules(mod.SPEC, "quick", Tree(overlay=ov))
        known = load_known_findings()
        viol = [o for o in ctx.violations if match_known(o, chk, known) is None]
        res["status"] = "violation" if viol else "silent"
        res["detail"] = "; ".join(f"{o.rule}@{o.function}" for o in viol[:3])
    except AnalysisError as exc:
        res["status"] = "analysis-error"
        res["detail"] = str(exc)[:200]
    except Exception as exc:  # pylint: disable=broad-except
        res["status"] = "crash"
        res["detail"] = f"{type(exc).__name__}: {exc}"[:200]
    return res


def run_cross(pids: List[str], jobs: int = 16, kind: str = "equiv") -> List[dict]:
    """Every behaviour-preserving variant of every property against the rule sets of *all* properties: none may
    report a violation (a false alarm) or lose sight of the code (analysis error)."""
    tasks = []
    for owner in pids:
        mod = importlib.import_module(f"pvs.props.{owner.lower()}")
        for i, m in enumerate(getattr(mod, "MUTANTS", [])):
            if m.get("kind", "mutant") == kind:
                for chk in pids:
                    if chk != owner:
                        tasks.append((owner, i, chk))
    with Pool(min(jobs, max(1, len(tasks)))) as pool:
        return pool.map(_cross_one, tasks, chunksize=4)


def run_foreign(pid: str, pids: List[str], jobs: int = 16, seed: int = 0, max_mutants: int = 120) -> dict:
    """This property's rule set against the variants of all the *other* properties: their behaviour-preserving
    variants must leave it silent (no false alarm, no loss of sight); their breaking variants may be reported or not,
    but must not crash it."""
    tasks = []
    for owner in pids:
        if owner == pid:
            continue
        try:
            mod = importlib.import_module(f"pvs.props.{owner.lower()}")
        except ModuleNotFoundError:
            continue
        for i, _ in enumerate(getattr(mod, "MUTANTS", [])):
            tasks.append((owner, i, pid))
    if not tasks:
        return {}
    # every foreign behaviour-preserving variant is run; of the foreign breaking variants a deterministic sample
    # (stride chosen from the count, offset from VERIF_SEED) keeps the thorough tier within a few minutes
    eq = [t for t in tasks if importlib.import_module(f"pvs.props.{t[0].lower()}").MUTANTS[t[1]].get("kind") == "equiv"]
    mu = [t for t in tasks if t not in eq]
    if len(mu) > max_mutants:
        stride = -(-len(mu) // max_mutants)
        mu = mu[seed % stride :: stride]
    tasks = eq + mu
    with Pool(min(jobs, len(tasks))) as pool:
        res = pool.map(_cross_one, tasks, chunksize=4)
    kinds = {}
    for owner, i, _ in tasks:
        kinds[(owner, i)] = importlib.import_module(f"pvs.props.{owner.lower()}").MUTANTS[i].get("kind", "mutant")
    out = {"foreign_equivalents": 0, "foreign_equivalents_silent": 0, "foreign_mutants": 0, "foreign_mutants_reported": 0, "foreign_mutants_analysis_error": 0, "problems": []}
    for (owner, i, _), r in zip(tasks, res):
        if r["status"] == "skipped":
            continue
        if kinds[(owner, i)] == "equiv":
            out["foreign_equivalents"] += 1
            if r["status"] == "silent":
                out["foreign_equivalents_silent"] += 1
            else:
                out["problems"].append(f"behaviour-preserving variant {owner}/{r['id']} is not silent under {pid}: {r['status']} {r['detail']}")
        else:
            out["foreign_mutants"] += 1
            if r["status"] == "violation":
                out["foreign_mutants_reported"] += 1
            elif r["status"] == "analysis-error":
                out["foreign_mutants_analysis_error"] += 1
            elif r["status"] == "crash":
                out["problems"].append(f"breaking variant {owner}/{r['id']} crashes {pid}: {r['detail']}")
    return out
