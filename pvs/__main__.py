"""Command line of the static verifier.

    /venv/bin/python -m pvs check <ID> [--tier quick|thorough]
    /venv/bin/python -m pvs selftest [<ID> ...] [-j N]
    /venv/bin/python -m pvs list
    /venv/bin/python -m pvs explain <report.json>
"""
from __future__ import annotations

import argparse
import importlib
import json
import os
import sys
import time

from .core import AnalysisError, Tree, finish, guarded, run_rules

ALL = [f"C{n:02d}" for n in range(1, 21)]


def load_spec(pid: str):
    try:
        mod = importlib.import_module(f"pvs.props.{pid.lower()}")
    except ModuleNotFoundError as exc:
        raise AnalysisError(f"no rule set for property {pid}") from exc
    return mod


def cmd_check(pid: str, tier: str, seed: int) -> int:
    t0 = time.time()
    mod = load_spec(pid)
    spec = mod.SPEC
    tree = Tree()
    ctx = None
    error = None
    st = None
    try:
        ctx = run_rules(spec, tier, tree, seed)
    except AnalysisError as exc:
        error = str(exc)
    except Exception as exc:  # pylint: disable=broad-except
        import traceback

        traceback.print_exc()
        error = f"checker crashed: {type(exc).__name__}: {exc}"
    new_viol = []
    if ctx is not None:
        from .core import load_known_findings, match_known

        known = load_known_findings()
        new_viol = [o for o in ctx.violations if match_known(o, pid, known) is None]
    if error is None and tier == "thorough" and ctx is not None and not new_viol:
        from .selftest import run_selftest

        st = run_selftest([pid], jobs=int(os.environ.get("PVS_JOBS", "16")), seed=seed, quiet=True).get(pid)
        if st is not None and os.environ.get("PVS_NO_FOREIGN") != "1":
            from .selftest import run_foreign

            fr = run_foreign(pid, ALL, jobs=int(os.environ.get("PVS_JOBS", "16")), seed=seed)
            st["foreign"] = {k: v for k, v in fr.items() if k != "problems"}
            st["problems"] = list(st.get("problems", [])) + fr.get("problems", [])
    return finish(spec, ctx, tier, seed, t0, error, st)


def main(argv=None) -> int:
    ap = argparse.ArgumentParser(prog="pvs")
    sub = ap.add_subparsers(dest="cmd", required=True)
    c = sub.add_parser("check")
    c.add_argument("pid")
    c.add_argument("--tier", default=os.environ.get("VERIF_TIER", "quick"), choices=["quick", "thorough"])
    c.add_argument("--no-evidence", action="store_true", help="development: do not rewrite evidence/<ID>.json")
    s = sub.add_parser("selftest")
    s.add_argument("pids", nargs="*")
    s.add_argument("-j", type=int, default=16)
    s.add_argument("-v", action="store_true")
    s.add_argument("--json", default=None, help="also write the per-property counts and per-variant outcomes to this file")
    x = sub.add_parser("cross", help="development: every equivalent variant against every other property's rule set")
    x.add_argument("-j", type=int, default=16)
    x.add_argument("--mutants", action="store_true", help="breaking variants instead: another property's rule set may report or stay silent, but must not crash")
    sub.add_parser("list")
    e = sub.add_parser("explain")
    e.add_argument("report")
    a = ap.parse_args(argv)
    seed = int(os.environ.get("VERIF_SEED", "0") or 0)
    if a.cmd == "check":
        if a.no_evidence:
            os.environ["PVS_NO_EVIDENCE"] = "1"
        return guarded(lambda: cmd_check(a.pid.upper(), a.tier, seed))
    if a.cmd == "selftest":
        from .selftest import run_selftest

        def go():
            res = run_selftest([p.upper() for p in a.pids] or ALL, jobs=a.j, seed=seed, quiet=not a.v)
            bad = 0
            if a.json:
                with open(a.json, "w", encoding="utf-8") as fh:
                    json.dump(res, fh, indent=1, sort_keys=True, default=str)
            for pid, r in sorted(res.items()):
                print(f"{pid}: mutants applied={r['applied']} killed={r['killed']} equivalents={r['equivalents']} silent={r['silent']} skipped={r['skipped']}")
                for p in r["problems"]:
                    print("   ", p)
                    bad += 1
            return 2 if bad else 0

        return guarded(go)
    if a.cmd == "cross":
        from .selftest import run_cross

        def gox():
            res = run_cross(ALL, jobs=a.j, kind="mutant" if a.mutants else "equiv")
            if a.mutants:
                bad = [r for r in res if r["status"] == "crash"]
                print(f"cross self-test (mutants): {len(res)} pairs: " + ", ".join(f"{k} {sum(r['status'] == k for r in res)}" for k in ("violation", "silent", "analysis-error", "crash", "skipped")))
                for r in res:
                    if r["status"] in ("analysis-error", "crash"):
                        print(f"   {r['owner']}/{r['id']} under {r['check']}: {r['status']} {r['detail']}")
                return 2 if bad else 0
            bad = [r for r in res if r["status"] not in ("silent", "skipped")]
            print(f"cross self-test: {len(res)} (equivalent variant, other property) pairs, {sum(r['status'] == 'silent' for r in res)} silent, {sum(r['status'] == 'skipped' for r in res)} skipped, {len(bad)} not silent")
            for r in bad:
                print(f"   {r['owner']}/{r['id']} under {r['check']}: {r['status']} {r['detail']}")
            return 2 if bad else 0

        return guarded(gox)
    if a.cmd == "list":
        for pid in ALL:
            try:
                mod = load_spec(pid)
                print(pid, "-", mod.SPEC.title, f"({len(getattr(mod, 'MUTANTS', []))} self-test variants)")
            except AnalysisError:
                print(pid, "- (no rule set)")
        return 0
    if a.cmd == "explain":
        with open(a.report, "r", encoding="utf-8") as fh:
            rep = json.load(fh)
        print(json.dumps(rep, indent=1))
        pid = rep.get("property")
        print(f"--- re-running {pid} on the current tree")
        return guarded(lambda: cmd_check(pid, rep.get("tier", "quick"), seed))
    return 2


if __name__ == "__main__":
    sys.exit(main())
