"""Point / vector typing of image positions (C13.COORD-TAINT).

Abstract kinds:
  C   an absolute coordinate along row/col (values of ``.coords["row"|"col"]``, ``attrs["col_to_compute"]``)
  C0  the first coordinate of an axis (``coords[...][0]``) -- subtracting it turns a coordinate into an index
  I   a 0-based array position or a count (``len``, ``.shape[k]``, ``.sizes[k]``, ``range``/``arange`` from 0, ``np.where`` ...)
  D   a displacement or a plain scalar (literals, disparities, ``attrs[...]`` scalars, ``self._xxx`` parameters)
  U   unknown (nothing is concluded from it)

Sinks:
  T1  a subscript position typed C/C0  (a coordinate used as an array position)
  T2  a comparison between a C side and a side that is I or D (a coordinate compared with an index, a count or a constant)
The rule is an affine-space discipline: it holds or fails whatever the values are, and it fails exactly on the index-origin
slips the property names ("absolute column used instead of relative, coordinates not starting at 0").
"""
from __future__ import annotations

import ast
from typing import Dict, List, Optional, Tuple

from .astx import ancestors, calls_in, dotted, src, walk_no_nested
from .core import Ctx
from .defuse import Defs
from .sym import canon

C, C0, I, D, U = "C", "C0", "I", "D", "U"
AXES = ("row", "col")
INDEX_CALLS = {"len", "np.where", "np.argwhere", "np.argmin", "np.argmax", "np.nanargmin", "np.nanargmax", "np.flatnonzero", "np.nonzero", "np.searchsorted", "np.setdiff1d"}
PASS_CALLS = {"int", "float", "np.rint", "np.floor", "np.ceil", "np.round", "np.copy", "np.array", "np.asarray", "np.squeeze", "np.int64", "np.float32", "np.float64", "abs", "np.abs"}
PASS_METHODS = {"astype", "copy", "flatten", "ravel", "squeeze", "item", "tolist", "transpose"}


def _is_c(k: str) -> bool:
    return k in (C, C0)


def _join(ks: List[str]) -> str:
    ks = [k for k in ks]
    if not ks:
        return U
    s = set(C if k == C0 else k for k in ks)
    if len(s) == 1:
        return ks[0] if len(set(ks)) == 1 else s.pop()
    if s == {C, D} or s == {I, D}:
        # min(coord, coord + delta) style joins are not concluded
        return U
    return U


class Kinds:
    def __init__(self, fn: ast.AST):
        self.fn = fn
        self.defs = Defs(fn)
        self._memo: Dict[Tuple[int, int], str] = {}
        self._busy: set = set()

    def of(self, node: ast.AST, at: Optional[ast.AST] = None, depth: int = 8) -> str:
        at = at if at is not None else node
        if depth <= 0:
            return U
        if isinstance(node, ast.Constant):
            return D if isinstance(node.value, (int, float)) and not isinstance(node.value, bool) else U
        if isinstance(node, ast.Name):
            return self._name(node, at, depth)
        if isinstance(node, ast.Attribute):
            if node.attr in ("data", "values", "T"):
                return self.of(node.value, at, depth)
            if node.attr in ("size", "shape", "sizes", "ndim"):
                return I
            if isinstance(node.value, ast.Name) and node.value.id == "self" and node.attr.startswith("_"):
                return D
            return U
        if isinstance(node, ast.Subscript):
            base = node.value
            key = node.slice
            if isinstance(base, ast.Attribute) and base.attr == "coords" and isinstance(key, ast.Constant):
                if key.value in AXES:
                    return C
                if key.value == "disp":
                    return D
                return U
            if isinstance(base, ast.Attribute) and base.attr == "attrs" and isinstance(key, ast.Constant):
                return C if key.value == "col_to_compute" else D
            if isinstance(base, ast.Attribute) and base.attr in ("shape", "sizes"):
                return I
            kb = self.of(base, at, depth)
            if _is_c(kb):
                if isinstance(key, ast.Constant) and key.value == 0 and kb == C:
                    return C0
                return C
            if kb in (I, D):
                return kb
            return U
        if isinstance(node, ast.Call):
            name = dotted(node.func) or ""
            if name in INDEX_CALLS:
                return I
            if name in ("range", "np.arange", "numpy.arange"):
                if len(node.args) == 1:
                    return I
                if len(node.args) >= 2:
                    k0 = self.of(node.args[0], at, depth - 1)
                    return C if _is_c(k0) else (I if k0 in (I, D) else U)
                return U
            if name in PASS_CALLS and node.args:
                return self.of(node.args[0], at, depth - 1)
            if name in ("min", "max", "np.minimum", "np.maximum") and node.args:
                return _join([self.of(a, at, depth - 1) for a in node.args])
            if isinstance(node.func, ast.Attribute) and node.func.attr in PASS_METHODS:
                return self.of(node.func.value, at, depth - 1)
            return U
        if isinstance(node, ast.BinOp):
            a, b = self.of(node.left, at, depth - 1), self.of(node.right, at, depth - 1)
            if isinstance(node.op, ast.Add):
                if _is_c(a) and b in (D, I):
                    return C
                if _is_c(b) and a in (D, I):
                    return C
                if a == I and b in (I, D) or b == I and a == D:
                    return I
                if a == D and b == D:
                    return D
                return U
            if isinstance(node.op, ast.Sub):
                if _is_c(a) and b == C0:
                    return I
                if _is_c(a) and b == C:
                    return D
                if _is_c(a) and b in (D, I):
                    return C
                if a == I and b in (I, D):
                    return I
                if a == D and b == D:
                    return D
                return U
            if isinstance(node.op, (ast.Mult, ast.Div, ast.FloorDiv, ast.Mod)):
                if a == D and b == D:
                    return D
                if a == I and b == D or a == D and b == I:
                    return I
                return U
            return U
        if isinstance(node, ast.UnaryOp) and isinstance(node.op, ast.USub):
            k = self.of(node.operand, at, depth - 1)
            return D if k == D else U
        if isinstance(node, ast.IfExp):
            return _join([self.of(node.body, at, depth - 1), self.of(node.orelse, at, depth - 1)])
        if isinstance(node, ast.Tuple) and len(node.elts) == 1:
            return self.of(node.elts[0], at, depth - 1)
        return U

    def _name(self, node: ast.Name, at: ast.AST, depth: int) -> str:
        key = (id(node), id(at))
        if key in self._memo:
            return self._memo[key]
        if key in self._busy:
            return U
        self._busy.add(key)
        try:
            out = self._name_kind(node, at, depth)
        finally:
            self._busy.discard(key)
        self._memo[key] = out
        return out

    def _name_kind(self, node: ast.Name, at: ast.AST, depth: int) -> str:
        d = self.defs
        lp = d.loopvars.get(node.id)
        if lp is not None and any(a is lp for a in ancestors(at)):
            it = lp.iter
            if isinstance(lp.target, ast.Name):
                return self.of(it, lp, depth - 1)
            if isinstance(lp.target, ast.Tuple) and isinstance(it, ast.Call) and (dotted(it.func) or "") == "enumerate" and it.args:
                pos = [i for i, e in enumerate(lp.target.elts) if isinstance(e, ast.Name) and e.id == node.id]
                if pos == [0]:
                    return I
                if pos == [1]:
                    return self.of(it.args[0], lp, depth - 1)
            return U
        rs = d.reaching_all(node.id, at)
        if not rs:
            return U
        ks = []
        for st, val, pos in rs:
            if pos is None:
                ks.append(self.of(val, st, depth - 1))
            elif isinstance(val, ast.Attribute) and val.attr == "shape":
                ks.append(I)  # nb_row, nb_col = x.shape
            else:
                k = self.of(val, st, depth - 1)  # d_min, d_max = coords["disp"].data[[0, -1]]
                ks.append(k if k == D else U)
        return _join(ks)


def _slice_elems(sl: ast.AST) -> List[ast.AST]:
    out: List[ast.AST] = []
    parts = sl.elts if isinstance(sl, ast.Tuple) else [sl]
    for p in parts:
        if isinstance(p, ast.Slice):
            out.extend(x for x in (p.lower, p.upper) if x is not None)
        else:
            out.append(p)
    return out


def has_coord_source(fn: ast.AST) -> bool:
    for n in walk_no_nested(fn):
        if isinstance(n, ast.Subscript) and isinstance(n.value, ast.Attribute) and isinstance(n.slice, ast.Constant):
            if n.value.attr == "coords" and n.slice.value in AXES:
                return True
            if n.value.attr == "attrs" and n.slice.value == "col_to_compute" and isinstance(n.ctx, ast.Load):
                return True
    return False


def check_coord_discipline(ctx: Ctx, rid: str, rel: str, qual: str) -> Tuple[int, int]:
    """Returns (subscript sinks decided, comparison sinks decided)."""
    fn = ctx.tree.func(rel, qual)
    K = Kinds(fn)
    n_sub = n_cmp = 0
    for n in walk_no_nested(fn):
        if isinstance(n, ast.Subscript):
            base = n.value
            if isinstance(base, ast.Attribute) and base.attr in ("coords", "attrs", "sizes", "shape", "data_vars"):
                continue
            if isinstance(n.slice, ast.Constant) and isinstance(n.slice.value, str):
                continue
            for e in _slice_elems(n.slice):
                if isinstance(e, ast.Constant):
                    continue
                k = K.of(e, n)
                if k == U or k == D:
                    continue
                n_sub += 1
                ctx.ob(rid, rel, n, f"{qual}: position `{canon(e)[:80]}` of `{canon(base)[:60]}[...]` is {'a coordinate' if _is_c(k) else 'an index'}", not _is_c(k), expected="an index (coordinate minus the first coordinate of the axis, or a 0-based position)", detail="a coordinate is used as an array position: identical to an index only while the coordinates start at 0 with step 1, so the result depends on where the crop/ROI starts")
        elif isinstance(n, ast.Compare) and len(n.ops) == 1:
            a, b = n.left, n.comparators[0]
            ka, kb = K.of(a, n), K.of(b, n)
            if not (_is_c(ka) or _is_c(kb)):
                continue
            other, ko = (b, kb) if _is_c(ka) else (a, ka)
            if ko == U:
                ctx.count(f"{rid}(undecided comparisons)")
                ctx.note(f"{rid}: {rel}:{n.lineno} {qual}: `{canon(n)[:120]}` compares a coordinate with a value of unknown kind (not decided)")
                continue
            n_cmp += 1
            ctx.ob(rid, rel, n, f"{qual}: `{canon(n)[:140]}` compares a coordinate with {'a coordinate' if _is_c(ko) else ('an index / count' if ko == I else 'a constant')}", _is_c(ko), expected="coordinate against coordinate (col[0], col[-1] +/- offset)", detail=f"`{canon(other)[:80]}` is {'an index or a count' if ko == I else 'a plain number'}, not a coordinate of the same axis: the test is right only for coordinates starting at 0")
    return n_sub, n_cmp


def parity_sites(fn: ast.AST) -> List[Tuple[ast.AST, str]]:
    """(`x % m` / `x // m` node, kind of x) for every modulo / floor division of the function."""
    K = Kinds(fn)
    out = []
    for n in walk_no_nested(fn):
        if isinstance(n, ast.BinOp) and isinstance(n.op, (ast.Mod, ast.FloorDiv)):
            if isinstance(n.left, ast.Constant) and isinstance(n.left.value, str):
                continue
            out.append((n, K.of(n.left, n)))
        elif isinstance(n, ast.BinOp) and isinstance(n.op, ast.BitAnd) and isinstance(n.right, ast.Constant) and n.right.value == 1:
            out.append((n, K.of(n.left, n)))
        elif isinstance(n, ast.Call) and (dotted(n.func) or "") in ("np.rint", "np.round", "np.around", "round", "numpy.rint") and n.args:
            # round-half-to-even of (position + something): the tie-break follows the parity of the position
            terms, stack = [], [K.defs.expand(n.args[0], n, depth=2)]
            while stack:
                t = stack.pop()
                if isinstance(t, ast.BinOp) and isinstance(t.op, (ast.Add, ast.Sub)):
                    stack += [t.left, t.right]
                else:
                    terms.append(t)
            kinds = [K.of(t, n) for t in terms]
            if len(terms) > 1:
                out.append((n, I if any(k in (C, C0, I) for k in kinds) else D))
    return out


_POSITIVE = """
def kernel(img):
    n_row, n_col = img.shape
    for row in range(n_row):
        for col in range(1, n_col):
            if col % 2 == 0:
                img[row, col] = img[row, col - 1]
"""


def check_position_parity(ctx: Ctx, rid: str, rel: str, qual: str) -> int:
    fn = ctx.tree.func(rel, qual)
    n = 0
    for node, k in parity_sites(fn):
        n += 1
        ctx.ob(rid, rel, node, f"{qual}: `{canon(node)[:100]}` takes the remainder / quotient / half-to-even rounding of {'a position' if k in (C, C0, I) else 'a non-positional value'}", k not in (C, C0, I), expected="no parity / modulo of a row or column position", detail="the treatment of a pixel depends on the parity (or residue) of its absolute position: a crop starting one pixel later gives different values")
    return n


def parity_self_example() -> bool:
    """The zero-count rule must still recognise a violation: `col % 2` on a range index."""
    fn = ast.parse(_POSITIVE).body[0]
    for node in ast.walk(fn):
        for ch in ast.iter_child_nodes(node):
            ch._parent = node  # type: ignore[attr-defined]
    return any(k == I for _, k in parity_sites(fn))



_GLOBAL_POSITIVE = """
def f(mask, out):
    if not mask.any():
        return
    out += 1
"""


def global_exit_sites(fn: ast.AST):
    """`if <whole-array aggregate>: return / continue-free early exit` -- the treatment of every pixel then depends on
    pixels arbitrarily far away (outside any dependency cone)."""
    out = []
    for n in walk_no_nested(fn):
        if isinstance(n, ast.If) and any(isinstance(x, ast.Return) for x in n.body + n.orelse):
            agg = [c for c in ast.walk(n.test) if isinstance(c, ast.Call) and ((isinstance(c.func, ast.Attribute) and c.func.attr in ("any", "all") and not c.args) or (dotted(c.func) or "") in ("np.any", "np.all", "np.count_nonzero", "np.sum", "np.nansum", "np.max", "np.nanmax", "np.min", "np.nanmin"))]
            if agg:
                out.append((n, agg[0]))
    return out


def check_global_exits(ctx: Ctx, rid: str, rel: str, qual: str) -> int:
    fn = ctx.tree.func(rel, qual)
    sites = global_exit_sites(fn)
    for node, agg in sites:
        ctx.ob(rid, rel, node, f"{qual}: early exit decided by a whole-array aggregate `{canon(agg)[:70]}`", False, expected="per-pixel treatment that does not branch on a property of the whole image", detail="the flags / values of a pixel then depend on whether some pixel anywhere in the image (outside its dependency cone) has a property: a crop without that pixel gives other results")
    return len(sites)


def global_exit_self_example() -> bool:
    fn = ast.parse(_GLOBAL_POSITIVE).body[0]
    for node in ast.walk(fn):
        for ch in ast.iter_child_nodes(node):
            ch._parent = node  # type: ignore[attr-defined]
    return len(global_exit_sites(fn)) == 1
