"""Flag arithmetic rules (C04.FLAG-STORE and friends), shared by C04, C06, C07, C10, C14.

A *mask store* is an assignment whose target is mask-typed: a `["validity_mask"]` variable (or its
`.data`, sliced or indexed), or a local / parameter that call sites bind to one (inferred through the
resolved call graph), or a copy of one.  Every mask store is classified by operator:

  =  CONST            documented constant                     -> fine (erases, used for the border)
  =  <mask expr>      carry-over / kernel result / copy       -> fine
  |= CONST [* s]      idempotent raise                        -> fine
  =  np.where(c, v + CONST, v)   with c == (v & CONST) == 0   -> proof P3
  += CONST [* s]      needs a proof that CONST is clear on the written cells (P1, P2, P4, P5, P6)
  -= CONST [* s]      needs control/data dependence on (mask & CONST) != 0 at the same cell, or P4

The proofs are the ones confirmed by reading the code (DESIGN.md, C04); the table PROOFS freezes which
proof applies to (function, bit), the checker re-validates the structural conditions of that proof on
every run.  An additive store without a table entry is a violation: nothing shows the bit is clear.
"""
from __future__ import annotations

import ast
from typing import Dict, List, Optional, Set, Tuple

from .astx import NotConstant, ancestors, calls_in, const_eval, dotted, enclosing_loops, guards_of, module_constants, src, walk_no_nested
from .core import AnalysisError, Ctx, Tree
from .defuse import Defs, strip_casts
from .effects import Program, program
from .sym import Poly, boolform, canon, complementary, equivalent, poly

CONST = "pandora/constants.py"


def flag_constants(tree: Tree) -> Dict[str, int]:
    env = module_constants(tree, CONST)
    return {k: v for k, v in env.items() if k.startswith("PANDORA_MSK_") and isinstance(v, int)}


def flag_name(node: ast.AST, consts: Dict[str, int]) -> Optional[str]:
    d = dotted(node)
    if d is None:
        return None
    n = d.split(".")[-1]
    return n if n in consts else None


def flags_in(node: ast.AST, consts: Dict[str, int]) -> List[str]:
    out = []
    for n in ast.walk(node):
        f = flag_name(n, consts) if isinstance(n, (ast.Name, ast.Attribute)) else None
        if f and f not in out:
            out.append(f)
    return out


# --------------------------------------------------------------------------------------
# mask typing
# --------------------------------------------------------------------------------------
def _mentions_mask_var(node: ast.AST) -> bool:
    for n in ast.walk(node):
        if isinstance(n, ast.Subscript) and isinstance(n.slice, ast.Constant) and n.slice.value == "validity_mask":
            return True
    return False


class MaskTypes:
    """(rel, qual) -> set of parameter / local names that hold a validity mask array."""

    def __init__(self, tree: Tree):
        self.tree = tree
        self.prog = program(tree)
        self.names: Dict[Tuple[str, str], Set[str]] = {}
        changed = True
        rounds = 0
        while changed and rounds < 6:
            changed = False
            rounds += 1
            for (rel, q), fn in self.prog.funcs.items():
                cur = self.names.setdefault((rel, q), set())
                # locals: x = np.copy(mask) / mask.copy() / mask / mask[...]
                for st in walk_no_nested(fn):
                    if isinstance(st, ast.Assign) and len(st.targets) == 1 and isinstance(st.targets[0], ast.Name):
                        v = st.value
                        inner = v
                        if isinstance(v, ast.Call) and (dotted(v.func) or "") in ("np.copy", "numpy.copy", "copy.deepcopy") and v.args:
                            inner = v.args[0]
                        elif isinstance(v, ast.Call) and isinstance(v.func, ast.Attribute) and v.func.attr == "copy":
                            inner = v.func.value
                        if self.is_mask_expr(rel, q, inner) and not isinstance(inner, ast.Call) and st.targets[0].id not in cur:
                            cur.add(st.targets[0].id)
                            changed = True
                # call sites: bind mask-typed arguments to callee parameters
                for call in calls_in(fn):
                    callees = self.prog.resolve_call(rel, fn, call, {})
                    for crel, cq, shift in callees:
                        s = self.prog.summaries.get((crel, cq))
                        if s is None:
                            continue
                        params = s.params[1:] if shift else s.params
                        for i, a in enumerate(call.args):
                            if i < len(params) and not isinstance(a, ast.Starred) and self.is_mask_expr(rel, q, a):
                                tgt = self.names.setdefault((crel, cq), set())
                                if params[i] not in tgt:
                                    tgt.add(params[i])
                                    changed = True
                        for k in call.keywords:
                            if k.arg and k.arg in params and self.is_mask_expr(rel, q, k.value):
                                tgt = self.names.setdefault((crel, cq), set())
                                if k.arg not in tgt:
                                    tgt.add(k.arg)
                                    changed = True

    def is_mask_expr(self, rel: str, qual: str, node: ast.AST) -> bool:
        """node denotes (a view of) a validity mask array."""
        cur = node
        while True:
            if isinstance(cur, ast.Subscript):
                if isinstance(cur.slice, ast.Constant) and cur.slice.value == "validity_mask":
                    return True
                cur = cur.value
            elif isinstance(cur, ast.Attribute) and cur.attr in ("data", "values", "loc"):
                cur = cur.value
            else:
                break
        if isinstance(cur, ast.Name):
            return cur.id in self.names.get((rel, qual), set())
        return False


# --------------------------------------------------------------------------------------
# store enumeration
# --------------------------------------------------------------------------------------
class MaskStore:
    def __init__(self, rel: str, fn: ast.AST, st: ast.stmt, target: ast.AST, op: str, value: ast.AST):
        self.rel, self.fn, self.st, self.target, self.op, self.value = rel, fn, st, target, op, value
        self.qual = getattr(fn, "_qual", "?")

    def base_and_index(self) -> Tuple[ast.AST, Optional[ast.AST]]:
        """(mask array expression, index) : index is None for whole-array stores."""
        t = self.target
        if isinstance(t, ast.Subscript) and not (isinstance(t.slice, ast.Constant) and t.slice.value == "validity_mask"):
            return t.value, t.slice
        return t, None

    def text(self) -> str:
        sym = {"=": "=", "Add": "+=", "Sub": "-=", "BitOr": "|=", "BitAnd": "&=", "BitXor": "^="}.get(self.op, self.op + "=")
        return f"{canon(self.target)} {sym} {canon(self.value)}"


def mask_stores(tree: Tree, mt: MaskTypes, rel: str, fn: ast.AST) -> List[MaskStore]:
    out: List[MaskStore] = []
    q = getattr(fn, "_qual", "?")
    for st in walk_no_nested(fn):
        if isinstance(st, ast.Assign):
            for t in st.targets:
                elts = t.elts if isinstance(t, (ast.Tuple, ast.List)) else [t]
                for e in elts:
                    if isinstance(e, (ast.Subscript, ast.Attribute)) and mt.is_mask_expr(rel, q, e):
                        out.append(MaskStore(rel, fn, st, e, "=", st.value))
        elif isinstance(st, ast.AugAssign):
            t = st.target
            if mt.is_mask_expr(rel, q, t) and (isinstance(t, (ast.Subscript, ast.Attribute)) or (isinstance(t, ast.Name))):
                out.append(MaskStore(rel, fn, st, t, type(st.op).__name__, st.value))
    return out


# --------------------------------------------------------------------------------------
# proofs
# --------------------------------------------------------------------------------------
# (file, function qualname, bit) -> proof.  One line of reason each (confirmed by reading the code).
PROOFS: Dict[Tuple[str, str, str], str] = {
    # criteria.validity_mask: mask allocated as zeros at the top of the function; the three adds of bit 2 sit in the
    # three arms of one if / else-if / else chain; bit 1 is added once, after the chain.
    ("pandora/criteria.py", "validity_mask", "PANDORA_MSK_PIXEL_RIGHT_INCOMPLETE_DISPARITY_RANGE"): "P1",
    ("pandora/criteria.py", "validity_mask", "PANDORA_MSK_PIXEL_RIGHT_NODATA_OR_DISPARITY_RANGE_MISSING"): "P1",
    # allocate_left_mask: only called by validity_mask after the zero allocation; bits 0 and 6 are added nowhere before.
    ("pandora/criteria.py", "allocate_left_mask", "PANDORA_MSK_PIXEL_LEFT_NODATA_OR_BORDER"): "P1c",
    ("pandora/criteria.py", "allocate_left_mask", "PANDORA_MSK_PIXEL_IN_VALIDITY_MASK_LEFT"): "P1c",
    # allocate_right_mask: saturating counter, the store can only fire in the last iteration; bit 1 columns excluded.
    ("pandora/criteria.py", "allocate_right_mask", "PANDORA_MSK_PIXEL_IN_VALIDITY_MASK_RIGHT"): "P5",
    ("pandora/criteria.py", "allocate_right_mask", "PANDORA_MSK_PIXEL_RIGHT_NODATA_OR_DISPARITY_RANGE_MISSING"): "P5x",
    # cross-checking: written cells are valid pixels ((mask & INVALID) == 0, bits 8/9 in INVALID); +OCC +MIS*c -OCC*c nets to one bit.
    ("pandora/validation/validation.py", "CrossCheckingAccurate.disparity_checking", "PANDORA_MSK_PIXEL_OCCLUSION"): "P2",
    ("pandora/validation/validation.py", "CrossCheckingAccurate.disparity_checking", "PANDORA_MSK_PIXEL_MISMATCH"): "P2",
    # approximate_right_disparity: zero-allocated mask, one column per iteration of a loop over distinct coordinates, exclusive arms.
    ("pandora/disparity/disparity.py", "AbstractDisparity.approximate_right_disparity", "PANDORA_MSK_PIXEL_RIGHT_NODATA_OR_DISPARITY_RANGE_MISSING"): "P6",
    ("pandora/disparity/disparity.py", "AbstractDisparity.approximate_right_disparity", "PANDORA_MSK_PIXEL_RIGHT_INCOMPLETE_DISPARITY_RANGE"): "P6",
}


def _zero_alloc_before(fn: ast.AST, mt: MaskTypes, rel: str, before: ast.AST) -> Optional[ast.stmt]:
    q = getattr(fn, "_qual", "?")
    for st in walk_no_nested(fn):
        if isinstance(st, ast.Assign) and st.lineno < before.lineno:
            for t in st.targets:
                if isinstance(t, ast.Subscript) and isinstance(t.slice, ast.Constant) and t.slice.value == "validity_mask":
                    v = st.value
                    txt = canon(v)
                    if ("np.full(" in txt and txt.rstrip(")").endswith(", 0") or "np.full(" in txt and ", 0)" in txt) or "np.zeros(" in txt:
                        if not guards_of(st, stop=fn):
                            return st
    return None


def _exclusive(a: ast.AST, b: ast.AST, fn: ast.AST) -> bool:
    """Two statements lie in different arms of one If (so never both execute)."""
    anc_a = list(ancestors(a))
    for anc in ancestors(b):
        if isinstance(anc, ast.If) and any(x is anc for x in anc_a):
            in_body = lambda n: any(_contains(s, n) for s in anc.body)  # noqa: E731
            in_else = lambda n: any(_contains(s, n) for s in anc.orelse)  # noqa: E731
            if (in_body(a) and in_else(b)) or (in_else(a) and in_body(b)):
                return True
    return False


def _contains(root: ast.AST, node: ast.AST) -> bool:
    return any(n is node for n in ast.walk(root))


def _single_flag_product(value: ast.AST, consts: Dict[str, int]) -> Optional[Tuple[str, Poly]]:
    """value == FLAG * s  (s a polynomial, possibly 1) -> (FLAG, s)."""
    v = strip_casts(value)
    fl = flags_in(v, consts)
    if len(fl) != 1:
        return None
    # where(c, FLAG, 0)  ==  FLAG * [c]
    if isinstance(v, ast.Call) and (dotted(v.func) or "") in ("xr.where", "np.where", "numpy.where", "xarray.where") and len(v.args) == 3:
        a, b, c = v.args
        if flag_name(b, consts) and isinstance(c, ast.Constant) and c.value == 0:
            return fl[0], Poly.atom("[" + canon(a) + "]")
        if flag_name(c, consts) and isinstance(b, ast.Constant) and b.value == 0:
            return fl[0], Poly.atom("[!" + canon(a) + "]")
        return None
    p = poly(v)
    atom = None
    for a in p.atoms():
        if a.split(".")[-1] == fl[0]:
            atom = a
    if atom is None:
        return None
    # every monomial must contain the flag atom exactly once
    rest: Dict = {}
    for m, c in p.terms.items():
        d = dict(m)
        if d.get(atom) != 1:
            return None
        m2 = tuple(sorted((a, e) for a, e in d.items() if a != atom))
        rest[m2] = c
    return fl[0], Poly(rest)


def check_flag_stores(ctx: Ctx, rid: str, files: List[str], only_functions: Optional[Set[str]] = None) -> int:
    tree = ctx.tree
    consts = flag_constants(tree)
    if len(consts) < 12:
        raise AnalysisError("pandora/constants.py: flag constants not found")
    mt = MaskTypes(tree)
    invalid_bits = consts.get("PANDORA_MSK_PIXEL_INVALID", 0)
    n = 0
    for rel in files:
        for q, fn in sorted(tree.funcs(rel).items()):
            if only_functions is not None and q not in only_functions:
                continue
            stores = mask_stores(tree, mt, rel, fn)
            if not stores:
                continue
            defs = Defs(fn)
            # group additive stores by canonical target for the linear (P4) evaluation
            groups: Dict[str, List[MaskStore]] = {}
            for s in stores:
                if s.op in ("Add", "Sub"):
                    groups.setdefault(canon(s.target), []).append(s)
            for s in stores:
                n += 1
                _check_one(ctx, rid, s, stores, groups, consts, invalid_bits, mt, defs)
    return n


def _check_one(ctx: Ctx, rid: str, s: MaskStore, stores, groups, consts, invalid_bits, mt: MaskTypes, defs: Defs) -> None:
    rel, fn, st = s.rel, s.fn, s.st
    text = s.text()
    v = strip_casts(s.value)
    # literal integers other than 0 never enter a mask
    lits = [n for n in ast.walk(v) if isinstance(n, ast.Constant) and isinstance(n.value, int) and not isinstance(n.value, bool) and n.value not in (0, 1)]
    if s.op in ("Add", "Sub", "BitOr") and lits and not flags_in(v, consts):
        ctx.ob(rid.replace("FLAG-STORE", "LITERAL"), rel, st, text, False, detail="an integer literal is combined into a validity mask: flags must be the named constants of pandora/constants.py")
        return
    if s.op == "=":
        fl = flag_name(v, consts)
        if fl is not None:
            ctx.ob(rid, rel, st, text, True)
            return
        if isinstance(v, ast.Constant) and isinstance(v.value, int) and v.value != 0:
            ctx.ob(rid.replace("FLAG-STORE", "LITERAL"), rel, st, text, False, detail="an integer literal is assigned to a validity mask")
            return
        # P3: np.where(cond, cur + FLAG, cur)
        if isinstance(v, ast.Call) and (dotted(v.func) or "") in ("np.where", "numpy.where") and len(v.args) == 3:
            ex = [defs.expand(a, st, depth=3) for a in v.args]
            flg = flags_in(ex[1], consts)
            cur = canon(s.target)
            ok = False
            why = "np.where form not recognised as a guarded raise"
            if len(flg) == 1:
                F = [k for k in ast.walk(ex[1]) if flag_name(k, consts) == flg[0]][0]
                want_then = canon(ast.BinOp(left=s.target, op=ast.Add(), right=F))
                want_cond = boolform(ast.Compare(left=ast.BinOp(left=s.target, op=ast.BitAnd(), right=F), ops=[ast.Eq()], comparators=[ast.Constant(value=0)]))
                got_then = canon(ex[1])
                got_or = canon(ast.BinOp(left=s.target, op=ast.BitOr(), right=F))
                ok_then = got_then in (want_then, got_or)
                ok_else = canon(ex[2]) == cur
                ok_cond = equivalent(boolform(ex[0]), want_cond) is None
                ok = ok_then and ok_else and (ok_cond or got_then == got_or)
                why = "" if ok else f"guarded raise must be where((m & F) == 0, m + F, m): cond={'ok' if ok_cond else canon(ex[0])} then={'ok' if ok_then else got_then} else={'ok' if ok_else else canon(ex[2])}"
            ctx.ob(rid, rel, st, text, ok, detail=why + (" [proof P3]" if ok else ""))
            return
        # `m[i] = m[i] + FLAG` written through a temporary: additive arithmetic in disguise
        exv = defs.expand(v, st, depth=3)
        hidden = [n for n in ast.walk(exv) if isinstance(n, ast.BinOp) and isinstance(n.op, (ast.Add, ast.Sub)) and (flag_name(n.left, consts) or flag_name(n.right, consts))]
        if hidden:
            ctx.ob(rid, rel, st, text, False, detail=f"the stored value is `{canon(exv)[:120]}`: additive flag arithmetic without a test that the bit is clear (8 + 8 = 16)", expected="m | FLAG, or np.where((m & FLAG) == 0, m + FLAG, m)")
            return
        # carry-over / copies / kernel results
        ctx.ob(rid, rel, st, text, True)
        return
    if s.op == "BitOr":
        fp = _single_flag_product(s.value, consts)
        ok = fp is not None
        why = "" if ok else "|= of something that is not one documented flag (times a 0/1 factor)"
        if not ok and isinstance(v, ast.Name):
            vals = _returned_flag_values(v.id, s, defs, mt, consts)
            if vals is not None:
                ok = all(x == "0" or x in consts for x in vals) and len({x for x in vals if x != "0"}) <= 1
                why = f"value returned by the step method, one of {sorted(set(vals))}" if ok else f"|= of a value that may be {sorted(set(vals))}: not 0 or one documented flag"
        ctx.ob(rid, rel, st, text, ok, detail=why)
        return
    if s.op in ("BitAnd", "BitXor", "Mult", "LShift", "RShift", "Div", "FloorDiv"):
        ctx.ob(rid, rel, st, text, False, detail=f"operator {s.op} on a validity mask can clear or move bits of other criteria")
        return
    # additive / subtractive
    fp = _single_flag_product(s.value, consts)
    if fp is None:
        ctx.ob(rid, rel, st, text, False, detail="additive flag arithmetic whose operand is not one documented flag (times a 0/1 factor)")
        return
    flag, factor = fp
    key = (rel, s.qual, flag)
    proof = PROOFS.get(key)
    if s.op == "Sub":
        ok, why = _proof_sub(s, flag, consts, groups, defs, mt)
        ctx.ob(rid, rel, st, text, ok, detail=why)
        return
    if proof is None:
        ctx.ob(rid, rel, st, text, False, detail=f"`+=` of {flag}: nothing shows the bit is clear on the written cells (a bit that is already set carries into its neighbour: 8+8=16). Use |= or a guarded form.", expected="|= FLAG, or an additive store covered by a verified proof (see pvs/rules_flags.PROOFS)")
        return
    ok, why = _PROOF_FUN[proof](s, flag, consts, stores, groups, defs, mt, invalid_bits)
    ctx.ob(rid, rel, st, text, ok, detail=(why if not ok else f"[proof {proof}] {why}"))


def _returned_flag_values(name: str, s: "MaskStore", defs: Defs, mt: MaskTypes, consts) -> Optional[List[str]]:
    """name is bound by tuple unpacking from a call of a first-class function parameter: the values its i-th
    return component can take over all the methods the call sites pass."""
    r = defs.reaching(name, s.st)
    if r is None or r[2] is None or not isinstance(r[1], ast.Call) or not isinstance(r[1].func, ast.Name):
        return None
    pos = r[2]
    fpar = r[1].func.id
    if fpar not in defs.params:
        return None
    prog = mt.prog
    meth_names = set()
    idx = defs.params.index(fpar)
    for (rel, q), f in prog.funcs.items():
        for c in calls_in(f):
            for crel, cq, shift in prog.resolve_call(rel, f, c, {}):
                if (crel, cq) != (s.rel, s.qual):
                    continue
                params = prog.summaries[(crel, cq)].params
                i = idx - (1 if shift else 0)
                arg = c.args[i] if 0 <= i < len(c.args) else next((k.value for k in c.keywords if k.arg == fpar), None)
                if isinstance(arg, ast.Attribute) and isinstance(arg.value, ast.Name) and arg.value.id == "self":
                    meth_names.add(arg.attr)
                elif arg is not None:
                    return None
    if not meth_names:
        return None
    vals: List[str] = []
    for m in meth_names:
        for (rel, q) in prog.methods_by_name.get(m, []):
            f = prog.funcs[(rel, q)]
            rets = [n for n in walk_no_nested(f) if isinstance(n, ast.Return) and n.value is not None]
            for rt in rets:
                if not isinstance(rt.value, ast.Tuple) or len(rt.value.elts) <= pos:
                    return None
                e = rt.value.elts[pos]
                fn_ = flag_name(e, consts)
                if fn_:
                    vals.append(fn_)
                elif isinstance(e, ast.Constant) and e.value == 0:
                    vals.append("0")
                else:
                    vals.append(canon(e))
    return vals or None


def _same_bit_adds(s: MaskStore, flag: str, stores: List[MaskStore], consts) -> List[MaskStore]:
    out = []
    for o in stores:
        if o is s or o.op != "Add":
            continue
        fp = _single_flag_product(o.value, consts)
        if fp and fp[0] == flag:
            out.append(o)
    return out


def _proof_p1(s, flag, consts, stores, groups, defs, mt, invalid_bits, allow_caller=False):
    fn = s.fn
    za = _zero_alloc_before(fn, mt, s.rel, s.st)
    if za is None and not allow_caller:
        return False, "P1 needs the mask to be allocated as zeros earlier in the same function"
    if enclosing_loops(s.st):
        return False, "P1 does not cover a store inside a loop"
    for o in _same_bit_adds(s, flag, stores, consts):
        if not _exclusive(s.st, o.st, fn):
            return False, f"{flag} is added twice on paths that are not mutually exclusive (`{o.text()[:80]}`)"
    if za is None:
        # the function's callers must all zero-allocate before the call and not add this flag before
        prog = mt.prog
        callers = []
        for (rel, q), f in prog.funcs.items():
            for c in calls_in(f):
                for crel, cq, _ in prog.resolve_call(rel, f, c, {}):
                    if (crel, cq) == (s.rel, s.qual):
                        callers.append((rel, q, f, c))
        if not callers:
            return False, "P1c: no caller found"
        for rel, q, f, c in callers:
            if _zero_alloc_before(f, mt, rel, c) is None:
                return False, f"P1c: caller {q} does not allocate the mask as zeros before the call"
            for o in mask_stores(mt.tree, mt, rel, f):
                if o.op == "Add" and o.st.lineno < c.lineno:
                    fp = _single_flag_product(o.value, consts)
                    if fp and fp[0] == flag:
                        return False, f"P1c: caller {q} already adds {flag} before the call"
        return True, f"callers {[q for _, q, _, _ in callers]} pass a zero-allocated mask; {flag} added once"
    return True, "zero-allocated mask; adds of this flag in mutually exclusive arms"


def _proof_p1c(s, flag, consts, stores, groups, defs, mt, invalid_bits):
    return _proof_p1(s, flag, consts, stores, groups, defs, mt, invalid_bits, allow_caller=True)


def _proof_p2(s, flag, consts, stores, groups, defs, mt, invalid_bits):
    """Index set derives from (mask & M) == 0 with flag in M; all adds/subs on the same cells net to single bits."""
    base, idx = s.base_and_index()
    if idx is None:
        return False, "P2 needs an indexed store"
    if not (consts[flag] & invalid_bits):
        return False, f"{flag} is not part of PANDORA_MSK_PIXEL_INVALID, the valid-only test does not show it clear"
    ex = defs.expand(idx, s.st, depth=8)
    want = None
    found = False
    for n in ast.walk(ex):
        if isinstance(n, ast.Compare) and len(n.ops) == 1 and isinstance(n.ops[0], ast.Eq) and isinstance(n.comparators[0], ast.Constant) and n.comparators[0].value == 0:
            l = n.left
            if isinstance(l, ast.BinOp) and isinstance(l.op, ast.BitAnd):
                for a, b in ((l.left, l.right), (l.right, l.left)):
                    if flag_name(b, consts) == "PANDORA_MSK_PIXEL_INVALID":
                        # the tested array must be the mask that is written (same dataset expression)
                        tested = a
                        while isinstance(tested, ast.Subscript) and not (isinstance(tested.slice, ast.Constant) and tested.slice.value == "validity_mask"):
                            tested = tested.value
                        wb = base
                        while isinstance(wb, ast.Subscript) and not (isinstance(wb.slice, ast.Constant) and wb.slice.value == "validity_mask"):
                            wb = wb.value
                        if canon(tested) == canon(wb) or canon(tested).startswith(canon(wb)):
                            found = True
    if not found:
        return False, "the written index set does not derive from a `(mask & PANDORA_MSK_PIXEL_INVALID) == 0` test on the same mask: the bit may already be set"
    # linear evaluation of the group
    grp = groups.get(canon(s.target), [s])
    total = Poly()
    syms = set()
    for o in grp:
        fp = _single_flag_product(o.value, consts)
        if fp is None:
            return False, "group contains a non-flag operand"
        f2, fac = fp
        term = Poly.atom(f2) * fac
        total = total + term if o.op == "Add" else total - term
        syms |= fac.atoms()
    syms = sorted(syms)
    import itertools

    outcomes = []
    for vals in itertools.product((0, 1), repeat=len(syms)):
        env = dict(zip(syms, vals))
        acc: Dict[str, int] = {}
        for m, c in total.terms.items():
            val = c
            fl = None
            for a, e in m:
                if a in env:
                    val = val * (env[a] ** e)
                elif a in consts or a.split(".")[-1] in consts:
                    fl = a.split(".")[-1]
                else:
                    return False, f"unexpected symbol {a} in flag arithmetic"
            if fl is None:
                if val != 0:
                    return False, "constant term in flag arithmetic"
                continue
            acc[fl] = acc.get(fl, 0) + int(val)
        nz = {k: v for k, v in acc.items() if v != 0}
        if len(nz) != 1 or list(nz.values()) != [1]:
            return False, f"for {env} the stores on these cells net to {nz}: not exactly one documented bit"
        outcomes.append(list(nz)[0])
    return True, f"valid-only cells; net effect per 0/1 assignment of {syms}: {outcomes}"


def _proof_p5(s, flag, consts, stores, groups, defs, mt, invalid_bits, need_exclusion=False):
    base, idx = s.base_and_index()
    loops = enclosing_loops(s.st)
    if idx is None or len(loops) != 1 or not isinstance(loops[0], ast.For):
        return False, "P5 needs an indexed store inside exactly one for loop"
    lp = loops[0]
    # index: np.where(C == len(<iter>))
    if not (isinstance(idx, ast.Call) and (dotted(idx.func) or "") in ("np.where", "numpy.where") and len(idx.args) == 1 and isinstance(idx.args[0], ast.Compare)):
        return False, "index is not np.where(counter == len(loop iterable))"
    cmp_ = idx.args[0]
    if not (len(cmp_.ops) == 1 and isinstance(cmp_.ops[0], ast.Eq) and isinstance(cmp_.left, ast.Name)):
        return False, "index is not np.where(counter == len(loop iterable))"
    cname = cmp_.left.id
    rhs = cmp_.comparators[0]
    ok_len = isinstance(rhs, ast.Call) and (dotted(rhs.func) or "") == "len" and len(rhs.args) == 1 and canon(rhs.args[0]) == canon(lp.iter)
    if not ok_len:
        return False, f"the counter is not compared with len({canon(lp.iter)}), the loop's own iterable: the store could fire in several iterations"
    # zero-initialised before the loop
    inits = [d for d in defs.all_defs(cname) if d[0].lineno < lp.lineno]
    if len(inits) != 1 or not (("np.full(" in canon(inits[0][1]) and canon(inits[0][1]).endswith(", 0)")) or "np.zeros(" in canon(inits[0][1])):
        return False, f"counter {cname} is not zero-initialised exactly once before the loop"
    # every store to the counter inside the loop is `+= {0,1}-term` or `= 0`
    has_excl = False
    for st in walk_no_nested(lp):
        tgt = None
        if isinstance(st, ast.AugAssign) and isinstance(st.target, ast.Subscript) and canon(st.target.value) == cname:
            if not isinstance(st.op, ast.Add):
                return False, f"counter {cname} is modified by something else than +="
            inc = strip_casts(st.value)
            if isinstance(inc, ast.Constant) and inc.value == 1:
                continue
            # subscript of an array that is 0/1 valued by construction
            if isinstance(inc, ast.Subscript) and isinstance(inc.value, ast.Name):
                src_defs = defs.all_defs(inc.value.id)
                t = " ".join(canon(d[1]) for d in src_defs)
                if ("xr.where(" in t and t.rstrip(".data").rstrip(")").endswith(", 1, 0")) or "xr.where(" in t and ", 1, 0)" in t or "binary_dilation" in t:
                    continue
            return False, f"increment `{src(st.value)}` of counter {cname} is not provably in {{0,1}}"
        elif isinstance(st, ast.Assign) and any(isinstance(t, ast.Subscript) and canon(t.value) == cname for t in st.targets):
            if isinstance(st.value, ast.Constant) and st.value.value == 0:
                if "bit_1" in src(st):
                    has_excl = True
                continue
            return False, f"counter {cname} is overwritten inside the loop"
        elif isinstance(st, ast.Assign) and any(isinstance(t, ast.Name) and t.id == cname for t in st.targets):
            return False, f"counter {cname} is re-bound inside the loop"
    if need_exclusion and not has_excl:
        return False, f"the columns that already carry {flag} (bit_1) are no longer excluded from counter {cname}: the flag would be added twice"
    return True, f"saturating counter {cname}: the store can only fire when all {canon(lp.iter)} iterations incremented it"


def _proof_p5x(s, flag, consts, stores, groups, defs, mt, invalid_bits):
    return _proof_p5(s, flag, consts, stores, groups, defs, mt, invalid_bits, need_exclusion=True)


def _proof_p6(s, flag, consts, stores, groups, defs, mt, invalid_bits):
    loops = enclosing_loops(s.st)
    if len(loops) != 1 or not isinstance(loops[0], ast.For) or not isinstance(loops[0].target, ast.Name):
        return False, "P6 needs a store inside exactly one for loop"
    lp = loops[0]
    v = lp.target.id
    if _zero_alloc_before(s.fn, mt, s.rel, s.st) is None:
        return False, "P6 needs the mask to be allocated as zeros in the same function"
    base, idx = s.base_and_index()
    if not (isinstance(idx, ast.Dict) and len(idx.values) == 1 and isinstance(idx.values[0], ast.Name) and idx.values[0].id == v):
        return False, "the written slice is not keyed by the loop variable"
    it = defs.expand(lp.iter, lp, depth=2)
    if ".coords[" not in canon(it):
        return False, "the loop does not iterate over a coordinate (distinct values)"
    for o in _same_bit_adds(s, flag, stores, consts):
        if not _exclusive(s.st, o.st, s.fn):
            return False, f"{flag} added twice in the same iteration"
    return True, f"one slice per distinct coordinate value of loop variable {v}; zero-allocated mask"


def _proof_sub(s, flag, consts, groups, defs, mt):
    """-= FLAG*s : (a) control dependence on (M[i] & FLAG) != 0 for the same cell where M is the mask or the array it
    was copied from, or (b) part of a linear group that nets to single bits (checked by the += member's P2)."""
    base, idx = s.base_and_index()
    want_idx = canon(idx) if idx is not None else ""
    for test, pol in guards_of(s.st, stop=s.fn):
        if not pol:
            continue
        for n in ast.walk(test):
            if isinstance(n, ast.Compare) and len(n.ops) == 1 and isinstance(n.ops[0], ast.NotEq) and isinstance(n.comparators[0], ast.Constant) and n.comparators[0].value == 0:
                l = n.left
                if isinstance(l, ast.BinOp) and isinstance(l.op, ast.BitAnd):
                    for a, b in ((l.left, l.right), (l.right, l.left)):
                        if flag_name(b, consts) == flag and isinstance(a, ast.Subscript) and canon(a.slice) == want_idx:
                            tested = canon(a.value)
                            written = canon(base)
                            if tested == written:
                                return True, f"guarded by ({tested}[{want_idx}] & {flag}) != 0"
                            # written array is a copy of the tested one, not yet modified at this cell for this flag
                            ds = defs.all_defs(written)
                            if len(ds) == 1 and canon(ds[0][1]) in (f"np.copy({tested})", f"{tested}.copy()"):
                                return True, f"guarded by ({tested}[{want_idx}] & {flag}) != 0, {written} = copy of {tested}"
    grp = groups.get(canon(s.target), [])
    if any(o.op == "Add" for o in grp) and PROOFS.get((s.rel, s.qual, flag)) == "P2":
        return True, "member of a linear group verified by proof P2"
    return False, f"`-=` of {flag} is not dominated by a test that the bit is set on the same cell: subtracting a clear bit borrows from the higher bits"


_PROOF_FUN = {"P1": _proof_p1, "P1c": _proof_p1c, "P2": _proof_p2, "P5": _proof_p5, "P5x": _proof_p5x, "P6": _proof_p6}
