"""A small dtype domain for numpy allocations and accumulators.

Classes:  "f64", "f32", "int", "like:<expr>" (same dtype as <expr>), "?" (unknown)
Only what the allocation itself says is concluded: a fill value decides the dtype of np.full without dtype=, the
default of zeros/ones/empty is float64, *_like and copy() keep the dtype of their argument.
"""
from __future__ import annotations

import ast
from typing import List, Optional

from .astx import dotted, kwarg
from .defuse import Defs
from .sym import canon

F64, F32, INT, UNK = "f64", "f32", "int", "?"


def _dtype_arg(node: Optional[ast.AST]) -> str:
    if node is None:
        return UNK
    t = canon(node)
    if t in ("np.float64", "float", "np.double", "'float64'", "np.float_"):
        return F64
    if t in ("np.float32", "'float32'", "np.single"):
        return F32
    if t in ("int", "np.int64", "np.int32", "np.int16", "np.int8", "np.uint8", "np.uint16", "np.uint32", "np.uint64", "bool", "np.bool_", "'int64'", "'int32'", "'int16'"):
        return INT
    if isinstance(node, ast.Attribute) and node.attr == "dtype":
        return "like:" + canon(node.value)
    return UNK


def _fill_class(node: ast.AST) -> str:
    if isinstance(node, ast.Constant):
        if isinstance(node.value, bool):
            return INT
        if isinstance(node.value, int):
            return INT
        if isinstance(node.value, float):
            return F64
        return UNK
    if isinstance(node, ast.UnaryOp) and isinstance(node.op, ast.USub):
        return _fill_class(node.operand)
    name = dotted(node) or ""
    if name in ("np.nan", "np.inf", "numpy.nan", "numpy.inf", "math.nan", "math.inf"):
        return F64
    if isinstance(node, ast.Call):
        f = dotted(node.func) or ""
        if f in ("int", "np.int64", "np.int32", "len", "round"):
            return INT
        if f in ("float", "np.float64"):
            return F64
        if f == "np.float32":
            return F32
    return UNK


def dtype_of(node: ast.AST, defs: Optional[Defs] = None, at: Optional[ast.AST] = None, depth: int = 4) -> str:
    """dtype class of the array a numpy expression evaluates to (as far as the expression itself tells)."""
    if depth <= 0:
        return UNK
    if isinstance(node, ast.Name) and defs is not None:
        r = defs.reaching_all(node.id, at if at is not None else node)
        ks = {dtype_of(v, defs, st, depth - 1) for st, v, pos in r if pos is None}
        return ks.pop() if len(ks) == 1 else UNK
    if isinstance(node, ast.Subscript):
        f = dotted(node.value) or ""
        if f in ("np.r_", "np.c_", "numpy.r_", "numpy.c_"):
            parts = node.slice.elts if isinstance(node.slice, ast.Tuple) else [node.slice]
            return promote([dtype_of(p, defs, at, depth - 1) for p in parts])
        return dtype_of(node.value, defs, at, depth - 1)
    if not isinstance(node, ast.Call):
        return UNK
    f = dotted(node.func) or ""
    dk = kwarg(node, "dtype")
    if f in ("np.zeros", "np.ones", "np.empty", "numpy.zeros", "numpy.ones", "numpy.empty"):
        if dk is None and len(node.args) >= 2:
            dk = node.args[1]
        return _dtype_arg(dk) if dk is not None else F64
    if f in ("np.full", "numpy.full"):
        if dk is None and len(node.args) >= 3:
            dk = node.args[2]
        if dk is not None:
            return _dtype_arg(dk)
        return _fill_class(node.args[1]) if len(node.args) >= 2 else UNK
    if f in ("np.full_like", "np.zeros_like", "np.ones_like", "np.empty_like", "np.copy", "numpy.copy"):
        if dk is not None:
            return _dtype_arg(dk)
        return "like:" + canon(node.args[0]) if node.args else UNK
    if f in ("np.array", "np.asarray", "numpy.array") and dk is not None:
        return _dtype_arg(dk)
    if isinstance(node.func, ast.Attribute) and node.func.attr == "astype" and node.args:
        return _dtype_arg(node.args[0])
    if isinstance(node.func, ast.Attribute) and node.func.attr == "copy":
        return "like:" + canon(node.func.value)
    if f in ("np.cumsum", "np.nancumsum", "np.sum", "np.nansum") and node.args:
        if dk is not None:
            return _dtype_arg(dk)
        return dtype_of(node.args[0], defs, at, depth - 1)
    return UNK


def promote(ks: List[str]) -> str:
    if F64 in ks:
        return F64  # float64 absorbs float32, the integer types and whatever the image holds
    if all(k == F32 for k in ks):
        return F32
    if all(k == INT for k in ks):
        return INT
    return UNK


# --------------------------------------------------------------------------------------
# accumulators: prefix sums whose partial sums grow with the distance to the image origin
# --------------------------------------------------------------------------------------
def accumulator_sites(fn: ast.AST):
    """[(node, kind, array expression or name)] for np.cumsum/np.nancumsum calls and for loop recurrences
    A[.., i, ..] = A[.., i - 1, ..] + x  (a running sum along one axis)."""
    from .astx import walk_no_nested
    from .sym import poly

    out = []
    for n in walk_no_nested(fn):
        if isinstance(n, ast.Call) and (dotted(n.func) or "") in ("np.cumsum", "np.nancumsum", "numpy.cumsum", "numpy.nancumsum") and n.args:
            out.append((n, "cumsum", n.args[0]))
        if isinstance(n, ast.Assign) and isinstance(n.targets[0], ast.Subscript) and isinstance(n.targets[0].value, ast.Name) and isinstance(n.value, ast.BinOp) and isinstance(n.value.op, ast.Add):
            tgt = n.targets[0]
            for term in (n.value.left, n.value.right):
                if isinstance(term, ast.Subscript) and isinstance(term.value, ast.Name) and term.value.id == tgt.value.id:
                    a = tgt.slice.elts if isinstance(tgt.slice, ast.Tuple) else [tgt.slice]
                    b = term.slice.elts if isinstance(term.slice, ast.Tuple) else [term.slice]
                    if len(a) == len(b):
                        diffs = []
                        for x, y in zip(a, b):
                            try:
                                dlt = poly(x) - poly(y)
                            except Exception:  # pylint: disable=broad-except
                                dlt = None
                            diffs.append(dlt)
                        nz = [d for d in diffs if d is None or d.terms]
                        if len(nz) == 1 and nz[0] is not None and nz[0].terms == {(): 1}:
                            out.append((n, "recurrence", tgt.value))
    return out
