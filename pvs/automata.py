"""pvs.automata -- tiny DFA toolkit (E7): partial DFAs with an implicit dead state, language
equality by product construction, shortest distinguishing word."""
from __future__ import annotations

from collections import deque
from typing import Dict, Iterable, List, Optional, Set, Tuple

DEAD = "<dead>"


class DFA:
    def __init__(self, initial: str, alphabet: Iterable[str]):
        self.initial = initial
        self.alphabet = sorted(set(alphabet))
        self.delta: Dict[Tuple[str, str], str] = {}
        self.nondet: List[Tuple[str, str, str, str]] = []

    def add(self, src: str, sym: str, dst: str) -> None:
        if (src, sym) in self.delta and self.delta[(src, sym)] != dst:
            self.nondet.append((src, sym, self.delta[(src, sym)], dst))
        self.delta[(src, sym)] = dst
        if sym not in self.alphabet:
            self.alphabet = sorted(set(self.alphabet) | {sym})

    def step(self, state: str, sym: str) -> str:
        if state == DEAD:
            return DEAD
        return self.delta.get((state, sym), DEAD)

    def states(self) -> Set[str]:
        s = {self.initial}
        for (a, _), b in self.delta.items():
            s.add(a)
            s.add(b)
        return s


def distinguish(a: DFA, b: DFA) -> Tuple[Optional[List[str]], int, int]:
    """Every non-dead state is accepting ("no sequencing error so far").  Returns (word, product states,
    product transitions); word is None when the languages are equal, else a shortest word accepted by
    exactly one of them."""
    alpha = sorted(set(a.alphabet) | set(b.alphabet))
    start = (a.initial, b.initial)
    seen = {start: None}
    q = deque([start])
    ntrans = 0
    while q:
        cur = q.popleft()
        for sym in alpha:
            nxt = (a.step(cur[0], sym), b.step(cur[1], sym))
            ntrans += 1
            if nxt not in seen:
                seen[nxt] = (cur, sym)
                if (nxt[0] == DEAD) != (nxt[1] == DEAD):
                    word = []
                    node = nxt
                    while seen[node] is not None:
                        prev, s = seen[node]
                        word.append(s)
                        node = prev
                    return list(reversed(word)), len(seen), ntrans
                q.append(nxt)
    return None, len(seen), ntrans
