"""pvs.core -- loader/index (E0), obligations, reports, evidence, known findings (E8).

Everything here is pure standard library.  Nothing imports or executes Pandora: the
tree is only ever *parsed*.
"""
from __future__ import annotations

import ast
import hashlib
import json
import os
import sys
import time
import traceback
from dataclasses import dataclass, field
from typing import Callable, Dict, Iterable, List, Optional, Tuple

VERIF = os.path.dirname(os.path.dirname(os.path.abspath(__file__)))
REPO = os.environ.get("PVS_REPO", "/repo")


class AnalysisError(Exception):
    """The checker can no longer *see* the property (anchor vanished, table not literal, ...).

    Exit status 2, never a VIOLATION line."""


# --------------------------------------------------------------------------------------
# E0 loader / index
# --------------------------------------------------------------------------------------
class Tree:
    """The current working tree of /repo, optionally with in-memory overlays {relpath: source}."""

    def __init__(self, root: str = None, overlay: Optional[Dict[str, str]] = None):
        self.root = root or REPO
        self.overlay = dict(overlay or {})
        self._src: Dict[str, str] = {}
        self._mod: Dict[str, ast.Module] = {}
        self._funcs: Dict[str, Dict[str, ast.AST]] = {}
        self._classes: Dict[str, Dict[str, ast.ClassDef]] = {}
        self.consulted: Dict[str, str] = {}

    # -- files -------------------------------------------------------------------------
    def exists(self, rel: str) -> bool:
        return rel in self.overlay or os.path.isfile(os.path.join(self.root, rel))

    def source(self, rel: str) -> str:
        if rel not in self._src:
            if rel in self.overlay:
                s = self.overlay[rel]
            else:
                p = os.path.join(self.root, rel)
                if not os.path.isfile(p):
                    raise AnalysisError(f"anchor file vanished: {rel}")
                with open(p, "r", encoding="utf-8") as fh:
                    s = fh.read()
            self._src[rel] = s
            self.consulted[rel] = hashlib.sha256(s.encode("utf-8")).hexdigest()
        return self._src[rel]

    def module(self, rel: str) -> ast.Module:
        if rel not in self._mod:
            try:
                m = ast.parse(self.source(rel), filename=rel)
            except SyntaxError as exc:
                raise AnalysisError(f"{rel} does not parse: {exc}") from exc
            for node in ast.walk(m):
                for ch in ast.iter_child_nodes(node):
                    ch._parent = node  # type: ignore[attr-defined]
            m._rel = rel  # type: ignore[attr-defined]
            self._mod[rel] = m
            self._index(rel, m)
        return self._mod[rel]

    def py_files(self, sub: str = "pandora") -> List[str]:
        out = set()
        base = os.path.join(self.root, sub)
        for dp, _dn, fn in os.walk(base):
            if "__pycache__" in dp:
                continue
            for f in fn:
                if f.endswith(".py"):
                    out.add(os.path.relpath(os.path.join(dp, f), self.root))
        for rel in self.overlay:
            if rel.startswith(sub + "/") and rel.endswith(".py"):
                out.add(rel)
        return sorted(out)

    # -- index -------------------------------------------------------------------------
    def _index(self, rel: str, m: ast.Module) -> None:
        funcs: Dict[str, ast.AST] = {}
        classes: Dict[str, ast.ClassDef] = {}

        def visit(body, prefix):
            for st in body:
                if isinstance(st, (ast.FunctionDef, ast.AsyncFunctionDef)):
                    q = prefix + st.name
                    funcs[q] = st  # last definition wins (typing.overload stubs come first)
                    st._qual = q  # type: ignore[attr-defined]
                    st._rel = rel  # type: ignore[attr-defined]
                    visit(st.body, q + ".")
                elif isinstance(st, ast.ClassDef):
                    q = prefix + st.name
                    classes.setdefault(q, st)
                    st._qual = q  # type: ignore[attr-defined]
                    st._rel = rel  # type: ignore[attr-defined]
                    visit(st.body, q + ".")
                elif isinstance(st, (ast.If, ast.Try, ast.With, ast.For, ast.While)):
                    for fld in ("body", "orelse", "finalbody"):
                        visit(getattr(st, fld, []) or [], prefix)
                    for h in getattr(st, "handlers", []) or []:
                        visit(h.body, prefix)

        visit(m.body, "")
        self._funcs[rel] = funcs
        self._classes[rel] = classes

    def funcs(self, rel: str) -> Dict[str, ast.AST]:
        self.module(rel)
        return self._funcs[rel]

    def classes(self, rel: str) -> Dict[str, ast.ClassDef]:
        self.module(rel)
        return self._classes[rel]

    def func(self, rel: str, qual: str) -> ast.FunctionDef:
        f = self.funcs(rel).get(qual)
        if f is None:
            raise AnalysisError(f"anchor function vanished: {rel}::{qual}")
        return f  # type: ignore[return-value]

    def has_func(self, rel: str, qual: str) -> bool:
        return self.exists(rel) and qual in self.funcs(rel)

    def cls(self, rel: str, qual: str) -> ast.ClassDef:
        c = self.classes(rel).get(qual)
        if c is None:
            raise AnalysisError(f"anchor class vanished: {rel}::{qual}")
        return c

    def with_overlay(self, overlay: Dict[str, str]) -> "Tree":
        ov = dict(self.overlay)
        ov.update(overlay)
        return Tree(self.root, ov)


def enclosing_function(node: ast.AST) -> Optional[ast.AST]:
    cur = getattr(node, "_parent", None)
    while cur is not None and not isinstance(cur, (ast.FunctionDef, ast.AsyncFunctionDef)):
        cur = getattr(cur, "_parent", None)
    return cur


def where(rel: str, node: Optional[ast.AST]) -> str:
    if node is None:
        return rel
    ln = getattr(node, "lineno", None)
    return f"{rel}:{ln}" if ln else rel


# --------------------------------------------------------------------------------------
# E8 obligations, findings, report
# --------------------------------------------------------------------------------------
@dataclass
class Obligation:
    rule: str
    file: str
    function: str
    construct: str  # normalised text of the construct examined (never a line number)
    ok: bool
    line: Optional[int] = None
    detail: str = ""
    expected: str = ""

    def key(self) -> Tuple[str, str, str, str]:
        return (self.rule, self.file, self.function, self.construct)

    def loc(self) -> str:
        return f"{self.file}:{self.line}" if self.line else self.file

    def to_json(self) -> dict:
        d = {
            "rule": self.rule,
            "file": self.file,
            "line": self.line,
            "function": self.function,
            "construct": self.construct,
            "verdict": "discharged" if self.ok else "VIOLATED",
        }
        if self.detail:
            d["detail"] = self.detail
        if self.expected:
            d["expected"] = self.expected
        return d


class Ctx:
    """Context of one check run: collects obligations, notes, counters."""

    def __init__(self, prop: str, tier: str, tree: Tree, seed: int = 0):
        self.prop = prop
        self.tier = tier
        self.tree = tree
        self.seed = seed
        self.obligations: List[Obligation] = []
        self.notes: List[str] = []
        self.counters: Dict[str, int] = {}
        self.functions_analysed: set = set()
        self.rules_run: List[str] = []
        self.floors: Dict[str, Tuple[int, int]] = {}
        self.witnesses: List[dict] = []
        self.extra: Dict[str, object] = {}
        self.not_decided: List[str] = []
        self.trusted: List[str] = []

    # an obligation: something the property needs that could fail
    def ob(
        self,
        rule: str,
        rel: str,
        node: Optional[ast.AST],
        construct: str,
        ok: bool,
        detail: str = "",
        expected: str = "",
        function: Optional[str] = None,
    ) -> bool:
        fn = function
        if fn is None:
            f = None
            if node is not None:
                f = node if isinstance(node, (ast.FunctionDef, ast.AsyncFunctionDef)) else enclosing_function(node)
            fn = getattr(f, "_qual", "<module>") if f is not None else "<module>"
        self.obligations.append(
            Obligation(
                rule=rule,
                file=rel,
                function=fn,
                construct=" ".join(str(construct).split())[:400],
                ok=bool(ok),
                line=getattr(node, "lineno", None) if node is not None else None,
                detail=" ".join(str(detail).split())[:600],
                expected=" ".join(str(expected).split())[:300],
            )
        )
        self.functions_analysed.add((rel, fn))
        return bool(ok)

    def note(self, text: str) -> None:
        self.notes.append(text)

    def count(self, name: str, n: int = 1) -> None:
        self.counters[name] = self.counters.get(name, 0) + n

    def floor(self, rule: str, found: int, minimum: int) -> None:
        """Fail closed when a rule matches fewer instances than were confirmed by hand."""
        self.floors[rule] = (found, minimum)
        if found < minimum:
            raise AnalysisError(
                f"rule {rule}: only {found} instance(s) found, at least {minimum} were confirmed by hand "
                f"(the rule no longer sees its anchors)"
            )

    @property
    def violations(self) -> List[Obligation]:
        return [o for o in self.obligations if not o.ok]


# --------------------------------------------------------------------------------------
# known findings
# --------------------------------------------------------------------------------------
def load_known_findings() -> List[dict]:
    p = os.path.join(VERIF, "known_findings.json")
    if not os.path.isfile(p):
        return []
    with open(p, "r", encoding="utf-8") as fh:
        data = json.load(fh)
    return data.get("findings", [])


def match_known(ob: Obligation, prop: str, known: List[dict]) -> Optional[dict]:
    for k in known:
        if k.get("status") != "known":
            continue
        if k.get("property") != prop:
            continue
        if k.get("rule") != ob.rule or k.get("file") != ob.file or k.get("function") != ob.function:
            continue
        kc = " ".join(k.get("construct", "").split())
        if kc and kc != ob.construct:
            continue
        return k
    return None


# --------------------------------------------------------------------------------------
# running a property check and writing evidence
# --------------------------------------------------------------------------------------
@dataclass
class PropSpec:
    pid: str
    title: str
    explanation: str
    rule_text: str
    run: Callable[[Ctx], None]
    not_decided: List[str] = field(default_factory=list)
    trusted: List[str] = field(default_factory=list)
    selftest: Optional[Callable[[], List[dict]]] = None  # returns list of mutants


def run_rules(spec: PropSpec, tier: str, tree: Tree, seed: int = 0) -> Ctx:
    ctx = Ctx(spec.pid, tier, tree, seed)
    ctx.not_decided = list(spec.not_decided)
    ctx.trusted = list(spec.trusted)
    spec.run(ctx)
    return ctx


def _report_path(prop: str, ob: Obligation) -> str:
    h = hashlib.sha1("|".join(ob.key()).encode("utf-8")).hexdigest()[:10]
    d = os.path.join(VERIF, "reports")
    os.makedirs(d, exist_ok=True)
    return os.path.join(d, f"{prop}-{ob.rule}-{h}.json")


def finish(spec: PropSpec, ctx: Optional[Ctx], tier: str, seed: int, t0: float, error: Optional[str], selftest: Optional[dict] = None) -> int:
    """Print the verdict, write evidence, return the exit status."""
    known = load_known_findings()
    new_violations: List[Obligation] = []
    known_hits: List[Tuple[Obligation, dict]] = []
    if ctx is not None:
        for ob in ctx.violations:
            k = match_known(ob, spec.pid, known)
            if k is not None:
                known_hits.append((ob, k))
            else:
                new_violations.append(ob)

    status = 0
    if error is not None:
        status = 2
    elif new_violations:
        status = 1

    out = []
    if ctx is not None:
        nob = len(ctx.obligations)
        ndis = sum(1 for o in ctx.obligations if o.ok)
        out.append(
            f"[pvs] property={spec.pid} tier={tier} obligations={nob} discharged={ndis} "
            f"functions={len(ctx.functions_analysed)} files={len(ctx.tree.consulted)}"
        )
        for n in ctx.notes:
            out.append(f"NOTE: {n}")
        seen = set()
        for ob, k in known_hits:
            kk = (k.get("rule"), k.get("file"), k.get("function"), k.get("construct"))
            if kk in seen:
                continue
            seen.add(kk)
            out.append(f"KNOWN-FINDING: property={spec.pid} {k.get('what_fails', ob.detail)} [{ob.rule} {ob.loc()} {ob.function}]")
        for ob in new_violations:
            rp = _report_path(spec.pid, ob)
            with open(rp, "w", encoding="utf-8") as fh:
                json.dump({"property": spec.pid, "tier": tier, **ob.to_json()}, fh, indent=1)
            out.append(
                f"  rule={ob.rule} at {ob.loc()} in {ob.function}: {ob.construct}"
                + (f" -- {ob.detail}" if ob.detail else "")
                + (f" (expected: {ob.expected})" if ob.expected else "")
            )
            out.append(f"VIOLATION property={spec.pid} replay={rp}")
    if error is not None:
        out.append(f"ANALYSIS-ERROR property={spec.pid}: {error}")
    if selftest:
        out.append(
            f"[pvs] selftest property={spec.pid}: mutants applied={selftest.get('applied')} killed={selftest.get('killed')} "
            f"equivalents={selftest.get('equivalents')} silent={selftest.get('silent')} skipped={selftest.get('skipped')}"
        )
        if selftest.get("foreign"):
            f = selftest["foreign"]
            out.append(
                f"[pvs] selftest property={spec.pid}: variants of the other properties under this rule set: equivalents silent "
                f"{f.get('foreign_equivalents_silent')}/{f.get('foreign_equivalents')}, breaking variants reported {f.get('foreign_mutants_reported')}/"
                f"{f.get('foreign_mutants')} (analysis errors {f.get('foreign_mutants_analysis_error')}, crashes 0 required)"
            )
        for s in selftest.get("problems", []):
            out.append(f"SELFTEST-NOTE: {s}")
    if status == 0:
        out.append(f"[pvs] property={spec.pid} HOLDS on everything analysed")
    print("\n".join(out))
    sys.stdout.flush()

    if os.environ.get("PVS_NO_EVIDENCE") != "1":  # development runs against a deliberately broken tree
        write_evidence(spec, ctx, tier, seed, time.time() - t0, error, new_violations, known_hits, selftest)
    return status


def write_evidence(spec, ctx, tier, seed, wall, error, new_violations, known_hits, selftest) -> None:
    os.makedirs(os.path.join(VERIF, "evidence"), exist_ok=True)
    path = os.path.join(VERIF, "evidence", f"{spec.pid}.json")
    obs = ctx.obligations if ctx is not None else []
    distinct = len({o.key() for o in obs})
    samples: List[dict] = []
    seen_rules = set()
    for o in obs:  # at least one of each rule, then violations
        if o.rule not in seen_rules:
            seen_rules.add(o.rule)
            samples.append(o.to_json())
    for o in obs:
        if not o.ok and o.to_json() not in samples:
            samples.append(o.to_json())
    by_rule: Dict[str, List[int]] = {}
    for o in obs:
        r = by_rule.setdefault(o.rule, [0, 0])
        r[0] += 1
        r[1] += 1 if o.ok else 0
    cov = {
        "explanation": spec.explanation
        + (" ANALYSIS-ERROR in this run: " + error if error else ""),
        "rule": spec.rule_text,
        "evaluations": max(len(obs), 1) if obs else 1,
        "distinct_nontrivial": distinct,
        "obligations": len(obs),
        "discharged": sum(1 for o in obs if o.ok),
        "samples": samples[:60] if samples else [{"note": "no obligation could be generated", "error": error}],
        "exhaustive": error is None,
        "checker_cmd": f"/venv/bin/python -m pvs check {spec.pid} --tier {tier}",
        "trusted_base": ctx.trusted if ctx is not None else spec.trusted,
        "per_rule": {r: {"obligations": v[0], "discharged": v[1]} for r, v in sorted(by_rule.items())},
        "files": dict(sorted(ctx.tree.consulted.items())) if ctx is not None else {},
        "functions_analysed": len(ctx.functions_analysed) if ctx is not None else 0,
        "instance_floors": {r: {"found": a, "minimum": b} for r, (a, b) in (ctx.floors.items() if ctx is not None else [])},
        "counters": ctx.counters if ctx is not None else {},
        "witnesses": ctx.witnesses if ctx is not None else [],
        "known_findings": [
            {"rule": o.rule, "file": o.file, "function": o.function, "construct": o.construct, "what_fails": k.get("what_fails")}
            for o, k in known_hits
        ],
        "not_decided": ctx.not_decided if ctx is not None else spec.not_decided,
        "notes": ctx.notes if ctx is not None else [],
    }
    if ctx is not None and ctx.extra:
        cov.update(ctx.extra)
    if selftest:
        cov["selftest"] = selftest
    ev = {
        "property_id": spec.pid,
        "tier": tier,
        "seed": int(seed),
        "level": "other",
        "coverage": cov,
        "assumptions": (ctx.trusted if ctx is not None else spec.trusted),
        "wall_s": round(wall, 3),
        "violations": len(new_violations),
    }
    tmp = path + ".tmp"
    with open(tmp, "w", encoding="utf-8") as fh:
        json.dump(ev, fh, indent=1, default=str)
    os.replace(tmp, path)


def guarded(fn: Callable[[], int]) -> int:
    """Tracebacks exit 2 like any other analysis error, never 1."""
    try:
        return fn()
    except AnalysisError as exc:
        print(f"ANALYSIS-ERROR {exc}")
        return 2
    except Exception:  # pylint: disable=broad-except
        traceback.print_exc()
        print("ANALYSIS-ERROR checker crashed (traceback above)")
        return 2


def borrow(ctx: "Ctx", fn, rename: Dict[str, str]) -> int:
    """Run a sibling property's rule function and keep only the obligations whose rule id is a key of `rename`,
    re-labelled; foreign floors are dropped (the sibling's own check still enforces them)."""
    before = len(ctx.obligations)
    floors = dict(ctx.floors)
    fn(ctx)
    keep, n = [], 0
    for i, o in enumerate(ctx.obligations):
        if i < before:
            keep.append(o)
        elif o.rule in rename:
            o.rule = rename[o.rule]
            keep.append(o)
            n += 1
    ctx.obligations[:] = keep
    ctx.floors = floors
    return n
