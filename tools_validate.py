"""Development helper (python3-vt): validate MANIFEST.json and evidence/*.json against the harness schemas."""
import glob, json, sys
import jsonschema

ok = True
m = json.load(open("/verif/MANIFEST.json"))
try:
    jsonschema.validate(m, json.load(open("/root/.vp/MANIFEST.schema.json")))
    print("MANIFEST ok:", len(m["checks"]), "checks,", len(m.get("not_applicable", [])), "n/a")
except jsonschema.ValidationError as e:
    ok = False
    print("MANIFEST INVALID:", e.message)
sch = json.load(open("/root/.vp/EVIDENCE.schema.json"))
for f in sorted(glob.glob("/verif/evidence/*.json")):
    try:
        jsonschema.validate(json.load(open(f)), sch)
        print("evidence ok:", f)
    except jsonschema.ValidationError as e:
        ok = False
        print("evidence INVALID:", f, e.message)
sys.exit(0 if ok else 1)
