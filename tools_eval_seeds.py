"""Development helper: run every registered quick check against each seeded patch of a seed-output directory
(git -C /repo apply; checks with --no-evidence; git -C /repo checkout -- .) and store the matrix in <dir>/EVAL.json.
usage: tools_eval_seeds.py <seedout dir> [Cxx ...]"""
import concurrent.futures as cf, json, os, re, subprocess, sys
SRC = sys.argv[1]
only = set(sys.argv[2:])
pids = [c["property_id"] for c in json.load(open("/verif/MANIFEST.json"))["checks"]]
head = subprocess.run(["git", "-C", os.environ.get("VERIF_DIR", "/verif"), "rev-parse", "--short", "HEAD"], capture_output=True, text=True).stdout.strip()
def run_check(pid):
    r = subprocess.run(["/venv/bin/python", "-m", "pvs", "check", pid, "--no-evidence"], cwd=os.environ.get("VERIF_DIR", "/verif"), capture_output=True, text=True)
    return pid, r.returncode, sorted(set(re.findall(r"rule=(\S+)", r.stdout))), [l for l in r.stdout.splitlines() if l.startswith("ANALYSIS-ERROR")]
def clean():
    return subprocess.run(["git", "-C", "/repo", "status", "--porcelain", "--untracked-files=no"], capture_output=True, text=True).stdout.strip() == ""
path = os.path.join(SRC, "EVAL.json")
ev = json.load(open(path)) if os.path.exists(path) else {}
for prop in sorted(os.listdir(SRC)):
    d = os.path.join(SRC, prop)
    if not (os.path.isdir(d) and re.fullmatch(r"C\d\d", prop)) or (only and prop not in only):
        continue
    for m in sorted(os.listdir(d)):
        pf = os.path.join(d, m, "patch.diff")
        if not os.path.exists(pf) or not os.path.exists(os.path.join(d, m, "meta.json")):
            continue
        if os.environ.get("EVAL_SKIP_DONE") == "1" and f"{prop}/{m}" in ev:
            continue
        assert clean(), "repo dirty"
        ap = subprocess.run(["git", "-C", "/repo", "apply", pf], capture_output=True, text=True)
        if ap.returncode:
            print(prop, m, "DOES NOT APPLY", ap.stderr[:200]); continue
        try:
            with cf.ThreadPoolExecutor(16) as ex:
                res = list(ex.map(run_check, pids))
        finally:
            subprocess.run(["git", "-C", "/repo", "checkout", "--", "."], check=True)
        rep = {p: r for p, rc, r, _ in res if rc == 1}
        err = {p: e for p, rc, _, e in res if rc == 2}
        ev[f"{prop}/{m}"] = {"verif_commit": head, "reported_by": rep, "analysis_error_in": err}
        print(prop, m, "->", rep if rep else "NONE", ("ERR " + str(err)) if err else "")
json.dump(ev, open(path, "w"), indent=1, sort_keys=True)
