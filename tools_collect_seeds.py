"""Development helper: file the confirmed seeded changes under /verif/seeded/<id>/<mK>/ and record which registered
checks report them.  For every seed: git -C /repo apply <patch>; run every quick check; git -C /repo checkout -- .
usage: tools_collect_seeds.py <seedout dir> [Cxx ...]"""
import concurrent.futures as cf
import json
import os
import re
import shutil
import subprocess
import sys

args = sys.argv[1:]
PREFIX, FROZEN = "", {}
if "--prefix" in args:
    i = args.index("--prefix")
    PREFIX = args[i + 1]
    del args[i : i + 2]
if "--frozen" in args:
    i = args.index("--frozen")
    FROZEN = json.load(open(args[i + 1]))
    del args[i : i + 2]
RERUN = None
if "--rerun-only" in args:  # checks whose rules changed since the freeze; the others keep their frozen (deterministic, same /repo, same rules) outcome
    i = args.index("--rerun-only")
    RERUN = set(args[i + 1].split(","))
    del args[i : i + 2]
SRC = args[0]
only = set(args[1:])
pids = [c["property_id"] for c in json.load(open("/verif/MANIFEST.json"))["checks"]]


def run_check(pid):
    r = subprocess.run(["/venv/bin/python", "-m", "pvs", "check", pid, "--no-evidence"], cwd="/verif", capture_output=True, text=True)
    rules = sorted(set(re.findall(r"rule=(\S+)", r.stdout)))
    return pid, r.returncode, rules


def clean():
    return subprocess.run(["git", "-C", "/repo", "status", "--porcelain", "--untracked-files=no"], capture_output=True, text=True).stdout.strip() == ""


summary = {}
for prop in sorted(os.listdir(SRC)):
    d = os.path.join(SRC, prop)
    if not (os.path.isdir(d) and re.fullmatch(r"C\d\d", prop)) or (only and prop not in only):
        continue
    for m in sorted(os.listdir(d)):
        sd = os.path.join(d, m)
        if not os.path.exists(os.path.join(sd, "patch.diff")):
            continue
        log = os.path.join(sd, "confirm.log")
        if not os.path.exists(log):
            print(prop, m, "NOT CONFIRMED - skipped")
            continue
        txt = open(log).read()
        exits = re.findall(r"^exit=(\d+)", txt, re.M)
        suite = re.findall(r"(\d+) failed, (\d+) passed", txt)
        confirmed = len(exits) >= 2 and exits[0] == "0" and exits[1] != "0" and suite and suite[-1] == ("5", "351") and "PATCH DOES NOT APPLY" not in txt
        assert clean(), "repo dirty"
        ap = subprocess.run(["git", "-C", "/repo", "apply", os.path.join(sd, "patch.diff")], capture_output=True, text=True)
        if ap.returncode != 0:
            print(prop, m, "patch does not apply on the current tree:", ap.stderr[:200])
            res = None
        else:
            try:
                fz = FROZEN.get(f"{prop}/{m}")
                todo = pids if (RERUN is None or fz is None) else [p for p in pids if p in RERUN]
                if RERUN is not None and fz is not None and fz.get("reported_by") and os.environ.get("COLLECT_REUSE_REPORTED") == "1":
                    todo = []  # already reported at the freeze: the frozen matrix is kept as it is
                with cf.ThreadPoolExecutor(16) as ex:
                    res = list(ex.map(run_check, todo))
                if len(todo) < len(pids):
                    res += [(p, 1 if p in fz.get("reported_by", {}) else (2 if p in fz.get("analysis_error_in", {}) else 0), fz.get("reported_by", {}).get(p, [])) for p in pids if p not in todo]
                    res.sort()
            finally:
                subprocess.run(["git", "-C", "/repo", "checkout", "--", "."], check=True)
        out = os.path.join("/verif/seeded", prop, PREFIX + m)
        os.makedirs(out, exist_ok=True)
        for f in ("patch.diff", "demo.py", "confirm.log"):
            shutil.copy(os.path.join(sd, f), os.path.join(out, f))
        meta = json.load(open(os.path.join(sd, "meta.json")))
        base = re.search(r"base (\w+)", txt)
        meta["breaks_property"] = prop
        meta["round"] = int(re.match(r"r(\d+)", PREFIX).group(1)) if re.match(r"r(\d+)", PREFIX) else 1
        if f"{prop}/{m}" in FROZEN:
            fz = FROZEN[f"{prop}/{m}"]
            meta["frozen_checks"] = {"verif_commit": fz.get("verif_commit"), "what": "the registered checks as committed before this round's changes were produced (blind evaluation)", "reported_by": fz.get("reported_by", {}), "analysis_error_in": sorted(fz.get("analysis_error_in", {}))}
        meta["needs_to_manifest"] = meta.get("what_it_needs_to_manifest", meta.get("needs", ""))
        meta["confirmed_by_me"] = {
            "confirmed": bool(confirmed),
            "base_commit": base.group(1) if base else None,
            "what_i_ran": "tools_confirm_seed.sh: scratch worktree of /repo outside /repo and /verif; demo.py without the change (exit %s), git apply patch.diff, demo.py with the change (exit %s), full pinned suite with the change (%s failed, %s passed; the 5 failures are the baseline's notebooks + test_dataset_image); worktree removed" % (exits[0] if exits else "?", exits[1] if len(exits) > 1 else "?", suite[-1][0] if suite else "?", suite[-1][1] if suite else "?"),
            "log": "confirm.log",
        }
        if res is not None:
            meta["checks_run_against_it"] = {
                "how": "git -C /repo apply patch.diff; /venv/bin/python -m pvs check <ID> for every registered check; git -C /repo checkout -- ." + ("" if RERUN is None else " (checks whose rule set is unchanged since the freeze tag keep the outcome measured at the freeze; re-run: " + ",".join(sorted(RERUN)) + (" - and only for changes that no check reported at the freeze" if os.environ.get("COLLECT_REUSE_REPORTED") == "1" else "") + ")"),
                "reported_by": {pid: rules for pid, rc, rules in res if rc == 1},
                "analysis_error_in": [pid for pid, rc, _ in res if rc == 2],
                "silent": [pid for pid, rc, _ in res if rc == 0],
            }
            summary[f"{prop}/{PREFIX}{m}"] = {"confirmed": bool(confirmed), "reported_by": meta["checks_run_against_it"]["reported_by"], "analysis_error_in": meta["checks_run_against_it"]["analysis_error_in"]}
            print(prop, PREFIX + m, "confirmed" if confirmed else "UNCONFIRMED", "->", {k: v for k, v in meta["checks_run_against_it"]["reported_by"].items()}, "ERR:", meta["checks_run_against_it"]["analysis_error_in"])
        json.dump(meta, open(os.path.join(out, "meta.json"), "w"), indent=1)
old = {}
if os.path.exists("/verif/seeded/SUMMARY.json"):
    old = json.load(open("/verif/seeded/SUMMARY.json"))
old.update(summary)
json.dump(old, open("/verif/seeded/SUMMARY.json", "w"), indent=1, sort_keys=True)
