"""Development helper: re-run every registered quick check against every filed seeded change on the CURRENT /repo and
/verif (git -C /repo apply <patch>; checks with --no-evidence; git -C /repo checkout -- .) and refresh the
`checks_run_against_it` block of each meta.json and seeded/SUMMARY.json.  Seeds whose patch no longer applies (their
target code was repaired by a fix: commit) keep their recorded, dated evaluation and are marked superseded.
usage: tools_refresh_seeds.py [Cxx ...]"""
import concurrent.futures as cf
import glob
import json
import os
import re
import subprocess
import sys

only = set(sys.argv[1:])
pids = [c["property_id"] for c in json.load(open("/verif/MANIFEST.json"))["checks"]]
repo_head = subprocess.run(["git", "-C", "/repo", "rev-parse", "--short", "HEAD"], capture_output=True, text=True).stdout.strip()


def run_check(pid):
    r = subprocess.run(["/venv/bin/python", "-m", "pvs", "check", pid, "--no-evidence"], cwd="/verif", capture_output=True, text=True)
    return pid, r.returncode, sorted(set(re.findall(r"rule=(\S+)", r.stdout)))


def clean():
    return subprocess.run(["git", "-C", "/repo", "status", "--porcelain", "--untracked-files=no"], capture_output=True, text=True).stdout.strip() == ""


summary = json.load(open("/verif/seeded/SUMMARY.json"))
for mf in sorted(glob.glob("/verif/seeded/C*/*/meta.json")):
    sd = os.path.dirname(mf)
    sid = "/".join(sd.split(os.sep)[-2:])
    if only and sid.split("/")[0] not in only:
        continue
    meta = json.load(open(mf))
    assert clean(), "repo dirty"
    ap = subprocess.run(["git", "-C", "/repo", "apply", os.path.join(sd, "patch.diff")], capture_output=True, text=True)
    if ap.returncode != 0:
        meta.setdefault("superseded", "the patch no longer applies to /repo: the code it edits was changed by a later fix: commit; the recorded evaluation is the one made when it applied")
        json.dump(meta, open(mf, "w"), indent=1)
        summary.setdefault(sid, {}).setdefault("note", "patch no longer applies to /repo HEAD (superseded by a fix: commit)")
        print(sid, "does not apply (kept as recorded)")
        continue
    try:
        with cf.ThreadPoolExecutor(16) as ex:
            res = list(ex.map(run_check, pids))
    finally:
        subprocess.run(["git", "-C", "/repo", "checkout", "--", "."], check=True)
    meta["checks_run_against_it"] = {
        "how": "git -C /repo apply patch.diff; /venv/bin/python -m pvs check <ID> --no-evidence for every registered check; git -C /repo checkout -- .",
        "repo_commit": repo_head,
        "reported_by": {pid: rules for pid, rc, rules in res if rc == 1},
        "analysis_error_in": [pid for pid, rc, _ in res if rc == 2],
        "silent": [pid for pid, rc, _ in res if rc == 0],
    }
    json.dump(meta, open(mf, "w"), indent=1)
    summary[sid] = {"confirmed": bool(meta.get("confirmed_by_me", {}).get("confirmed", True)), "reported_by": meta["checks_run_against_it"]["reported_by"], "analysis_error_in": meta["checks_run_against_it"]["analysis_error_in"]}
    print(sid, "->", meta["checks_run_against_it"]["reported_by"] or "NONE", ("ERR " + str(meta["checks_run_against_it"]["analysis_error_in"])) if meta["checks_run_against_it"]["analysis_error_in"] else "")
json.dump(summary, open("/verif/seeded/SUMMARY.json", "w"), indent=1, sort_keys=True)
